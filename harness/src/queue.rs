//! `queue`: QueuingMetricSink in front of a *gated* wrapped sink, driven by a scripted history.
//! Every call of the wrapped sink blocks in the gate until the script releases it with an
//! outcome (Ok / Err(id) / panic); after every scripted action the harness waits until the
//! background side has settled (worker blocked in the gate, or nothing left to dequeue, or —
//! once no handle is left — the wrapped sink dropped).
//!
//! case:  Q <cap|u> <ctor> <actions>      ctor: 0 = builder without handler, 1 = builder (capacity, then handler),
//!                                        2 = builder (handler, then capacity), 3 = QueuingMetricSink::from / ::with_capacity, 4 = builder with every option set twice (wrong ones first)
//!   actions = comma list of  E<h>[e|l|u|s|d] (emit on handle h; payload shape: empty string / 100 kB / non-ASCII / bare number / the same text every time) | C<h> (clone h) | D<h> (drop h) | U<h> (h dropped by a thread unwinding from a panic)
//!             | Rk | Rz | Rn<k> | Re<id> | Ro<errno> | Rp (release the metric in the gate with Ok(len) / Ok(0) / Ok(k) / Err(id) /
//!               Err(from_raw_os_error(errno)) / panic) | S (sample counters)
//!             | F<h> (flush() on handle h; observation l, or le when it returned an error)
//!   handles are numbered in creation order, 0 = the original
//! observation:  A:<per action, comma list>|DL:<delivered>|H:<handled>|X:<final>
//!   per action: E -> k | f (channel full) | k!<n> (Ok with a wrong length) | x (other error)
//!               C -> c ; D -> d ; R -> r | r- (gate empty) ; S -> s<submitted>.<drained>.<queued>.<panics>
//!               suffixes: !stuck (the background side did not settle in time), !slow (the call took > 300 ms),
//!               !stats (MetricSink::stats() read through the queuing sink differs from the wrapped sink's own)
//!   delivered: <acceptance index of the metric>:<k|e<id>|p> joined by ";" ; handled: <index>:<id>@<#completed deliveries>
//!   final: rel<0|1> (wrapped sink dropped when the script ended) [caller] (wrapped sink or handler ran on the caller's thread)
use crate::util::{payload_of, Payload};
use cadence::{MetricSink, QueuingMetricSink};
use std::io;
use std::panic::{RefUnwindSafe, UnwindSafe};
use std::sync::{Arc, Condvar, Mutex};
use std::thread::{self, ThreadId};
use std::time::{Duration, Instant};

#[derive(Clone, Debug, PartialEq)]
pub enum Outcome {
    Ok,
    /// accepted, answering Ok(0) - what NopMetricSink answers, and what the trait's documentation allows any sink to
    Zero,
    /// accepted, answering Ok(n) for an arbitrary n (a sink that reports a datagram count, or the bytes of a truncated
    /// send): still accepted - `MetricSink::emit` gives the count no meaning the queuing sink could act on
    Count(usize),
    /// a failure carrying a raw OS error number (what a real socket returns), reported as id 2000 + errno
    Os(i32),
    Err(u64),
    Panic,
}

pub struct GateSt {
    pub inside: Option<String>,
    pub release: Option<Outcome>,
    pub auto: bool,
    /// in auto mode: panic on every metric whose ordinal is not a multiple of this (0 = never panic)
    pub auto_panic: usize,
    /// accept everything at once without recording it (to empty a very long queue at the end of a case)
    pub discard: bool,
    pub entered: usize,
    pub log: Vec<(String, Outcome, ThreadId)>,
    pub handled: Vec<(u64, usize, ThreadId)>,
    pub flushes: Vec<ThreadId>,
    pub dropped: bool,
    /// the scripting thread: a wrapped-sink emit arriving on it is logged and answered at once (it must never happen)
    pub caller_thread: Option<ThreadId>,
    /// set while the script itself calls flush() on a handle: the wrapped sink's flush then returns at once
    pub flush_free: bool,
}

pub struct Gate {
    pub m: Mutex<GateSt>,
    pub cv: Condvar,
}

impl UnwindSafe for Gate {}
impl RefUnwindSafe for Gate {}

impl Gate {
    pub fn new() -> Arc<Gate> {
        Arc::new(Gate {
            m: Mutex::new(GateSt {
                inside: None,
                release: None,
                auto: false,
                auto_panic: 0,
                discard: false,
                entered: 0,
                log: vec![],
                handled: vec![],
                flushes: vec![],
                dropped: false,
                caller_thread: None,
                flush_free: false,
            }),
            cv: Condvar::new(),
        })
    }
}

pub struct GatedSink {
    pub gate: Arc<Gate>,
}

impl MetricSink for GatedSink {
    fn emit(&self, metric: &str) -> io::Result<usize> {
        let o;
        {
            let mut st = self.gate.m.lock().unwrap();
            if st.discard {
                return Ok(metric.len());
            }
            if st.caller_thread == Some(thread::current().id()) {
                // the wrapped sink is being run on the scripting (caller's) thread: record it and do not wait in the gate
                st.log.push((metric.to_string(), Outcome::Ok, thread::current().id()));
                return Ok(metric.len());
            }
            st.inside = Some(metric.to_string());
            st.entered += 1;
            self.gate.cv.notify_all();
            while st.release.is_none() && !st.auto {
                st = self.gate.cv.wait(st).unwrap();
            }
            o = st.release.take().unwrap_or(if st.auto && st.auto_panic > 0 && st.entered % st.auto_panic != 0 {
                Outcome::Panic
            } else {
                Outcome::Ok
            });
            st.inside = None;
            st.log.push((metric.to_string(), o.clone(), thread::current().id()));
            self.gate.cv.notify_all();
        }
        match o {
            Outcome::Ok => Ok(metric.len()),
            Outcome::Zero => Ok(0),
            Outcome::Count(n) => Ok(n),
            Outcome::Os(n) => Err(io::Error::from_raw_os_error(n)),
            // the io::ErrorKind varies with the payload id (id 8 -> Interrupted, 5 -> WouldBlock, 9 -> Other ...)
            Outcome::Err(id) => Err(io::Error::new(crate::wire::IO_KINDS[id as usize % crate::wire::IO_KINDS.len()], Payload(id))),
            Outcome::Panic => panic!("scripted panic of the wrapped sink"),
        }
    }

    fn flush(&self) -> io::Result<()> {
        if self.flush_impl() {
            Ok(())
        } else {
            // a flush nobody scripted (the queuing sink flushes the wrapped sink only when flush() is called on a
            // handle): answer with an error of its own, so that whoever reports it shows up in the handler's record
            Err(io::Error::new(io::ErrorKind::Other, Payload(7777)))
        }
    }

    /// the wrapped sink's own figures (what it accepted / refused so far); the queuing sink must report exactly these
    fn stats(&self) -> cadence::SinkStats {
        gate_stats(&self.gate)
    }
}

pub fn gate_stats(gate: &Gate) -> cadence::SinkStats {
    let st = gate.m.lock().unwrap();
    let mut s = cadence::SinkStats::default();
    for (m, o, _) in st.log.iter() {
        match o {
            Outcome::Ok | Outcome::Zero | Outcome::Count(_) => {
                s.bytes_sent += m.len() as u64;
                s.packets_sent += 1;
            }
            _ => {
                s.bytes_dropped += m.len() as u64;
                s.packets_dropped += 1;
            }
        }
    }
    s
}

impl GatedSink {
    /// like the buffered sinks of the crate, flush shares a lock with emit: it waits while a metric is being
    /// processed (bounded, so that a caller that wrongly ends up here is reported as slow instead of hanging)
    fn flush_impl(&self) -> bool {
        let mut st = self.gate.m.lock().unwrap();
        if st.flush_free {
            return true; // the script's own flush() on a handle: expected on the caller's thread
        }
        st.flushes.push(thread::current().id());
        let deadline = Instant::now() + SLOW + Duration::from_millis(100);
        while st.inside.is_some() && !st.auto {
            let now = Instant::now();
            if now >= deadline {
                break;
            }
            let (g, _) = self.gate.cv.wait_timeout(st, deadline - now).unwrap();
            st = g;
        }
        false
    }
}

impl Drop for GatedSink {
    fn drop(&mut self) {
        let mut st = self.gate.m.lock().unwrap();
        st.dropped = true;
        self.gate.cv.notify_all();
    }
}

const SETTLE: Duration = Duration::from_millis(400);
const SLOW: Duration = Duration::from_millis(300);

pub struct Rig {
    pub gate: Arc<Gate>,
    pub handles: Vec<Option<QueuingMetricSink>>,
    pub accepted: Vec<String>,
    pub cap: Option<usize>,
    pub panics_released: u64,
    pub handler: bool,
}

impl Rig {
    pub fn new(cap: Option<usize>, handler: bool) -> Rig {
        Rig::with_ctor(cap, if handler { 1 } else { 0 })
    }

    /// ctor: 0 = builder, no handler; 1 = builder, capacity then handler; 2 = builder, handler then capacity;
    ///       3 = no handler, through QueuingMetricSink::from / ::with_capacity
    pub fn with_ctor(cap: Option<usize>, ctor: u8) -> Rig {
        // 4 = as 1, but every builder option is set twice: first a wrong capacity and a handler that must never run (it
        //     records id 4444), then the real ones - the option set last is the one in force
        let twice = ctor == 4;
        let ctor = if twice { 1 } else { ctor };
        let handler = ctor == 1 || ctor == 2;
        let gate = Gate::new();
        let sink = GatedSink { gate: gate.clone() };
        if ctor == 3 {
            let q = match cap {
                Some(c) => QueuingMetricSink::with_capacity(sink, c),
                None => QueuingMetricSink::from(sink),
            };
            return Rig {
                gate,
                handles: vec![Some(q)],
                accepted: vec![],
                cap,
                panics_released: 0,
                handler,
            };
        }
        let mut b = QueuingMetricSink::builder();
        let g = gate.clone();
        let h = move |e: io::Error| {
            let mut st = g.m.lock().unwrap();
            let n = st.log.len();
            let id = payload_of(&e).unwrap_or_else(|| e.raw_os_error().map(|n| 2000 + n as u64).unwrap_or(0));
            st.handled.push((id, n, thread::current().id()));
        };
        if ctor == 2 {
            b = b.with_error_handler(h);
            if let Some(c) = cap {
                b = b.with_capacity(c);
            }
        } else {
            if twice {
                let g2 = gate.clone();
                if let Some(c) = cap {
                    b = b.with_capacity(c + 7);
                }
                b = b.with_error_handler(move |_e: io::Error| {
                    let mut st = g2.m.lock().unwrap();
                    let n = st.log.len();
                    st.handled.push((4444, n, thread::current().id()));
                });
            }
            if let Some(c) = cap {
                b = b.with_capacity(c);
            }
            if handler {
                b = b.with_error_handler(h);
            }
        }
        let q = b.build(sink);
        Rig {
            gate,
            handles: vec![Some(q)],
            accepted: vec![],
            cap,
            panics_released: 0,
            handler,
        }
    }

    fn live(&self) -> usize {
        self.handles.iter().filter(|h| h.is_some()).count()
    }

    /// wait until the background side has nothing more to do without the script; false = it did not
    pub fn settle(&self) -> bool {
        let deadline = Instant::now() + SETTLE;
        let mut st = self.gate.m.lock().unwrap();
        loop {
            // the error handler runs right after the failing call returned: quiescence includes it
            let handler_pending = self.handler
                && st.log.iter().filter(|(_, o, _)| matches!(o, Outcome::Err(_) | Outcome::Os(_))).count() > st.handled.len()
                && st.inside.is_none();
            let done = if handler_pending {
                false
            } else if st.inside.is_some() {
                true
            } else if st.entered < self.accepted.len() {
                false
            } else if self.live() == 0 {
                st.dropped
            } else {
                true
            };
            if done {
                break;
            }
            let now = Instant::now();
            if now >= deadline {
                return false;
            }
            let (g, _) = self.gate.cv.wait_timeout(st, deadline - now).unwrap();
            st = g;
        }
        drop(st);
        // a panic of the wrapped sink is followed by Sentinel::drop (count + respawn) on the dying thread:
        // quiescence includes that bookkeeping
        if let Some(h) = self.handles.iter().flatten().next() {
            while h.panics() < self.panics_released {
                if Instant::now() >= deadline {
                    return false;
                }
                thread::yield_now();
            }
        }
        if self.cap == Some(0) {
            // rendezvous channel: try_send succeeds only while the worker is blocked in recv().  Wait until every other
            // thread of this process is asleep (seen twice in a row), not for a fixed time: under load a runnable but
            // descheduled worker would otherwise be mistaken for a busy one
            let mut calm = 0;
            while calm < 2 && Instant::now() < deadline {
                if others_asleep() {
                    calm += 1;
                } else {
                    calm = 0;
                }
                thread::yield_now();
                if calm < 2 {
                    thread::sleep(Duration::from_micros(200));
                }
            }
        }
        true
    }
}

/// true when every thread of this process other than the caller is in state S (interruptible sleep) - /proc/self/task
pub fn others_asleep() -> bool {
    let me = std::fs::read_link("/proc/thread-self")
        .ok()
        .and_then(|p| p.file_name().map(|f| f.to_string_lossy().to_string()));
    let dir = match std::fs::read_dir("/proc/self/task") {
        Ok(d) => d,
        Err(_) => return true,
    };
    for ent in dir.flatten() {
        let name = ent.file_name().to_string_lossy().to_string();
        if Some(&name) == me.as_ref() {
            continue;
        }
        if let Ok(stat) = std::fs::read_to_string(ent.path().join("stat")) {
            // pid (comm) state ...   - comm may contain spaces and parentheses: the state follows the LAST ')'
            if let Some(i) = stat.rfind(')') {
                let state = stat[i + 1..].trim_start().chars().next().unwrap_or('S');
                if state != 'S' && state != 'Z' && state != 'X' {
                    return false;
                }
            }
        }
    }
    true
}

/// wait until every other thread of the process has been seen asleep (or gone) `n` times in a row
pub fn wait_calm(n: u32, max: Duration) {
    let t1 = Instant::now();
    let mut calm = 0;
    while calm < n && t1.elapsed() < max {
        if others_asleep() {
            calm += 1;
        } else {
            calm = 0;
        }
        thread::sleep(Duration::from_micros(200));
    }
}

/// Concurrent soak: `QS <cap|u> <producers> <emits per producer> <seed>`: every producer thread emits through its
/// own clone while the wrapped sink answers on its own (Ok, with tiny pseudo-random pauses) and a sampler thread
/// reads the counters; afterwards every handle is dropped.  The clauses of C08/C09/C10/C15 that speak about all
/// interleavings are evaluated directly on what happened.  observation: "ok <accepted> <refused>" or "bad <what>".
fn run_soak(t: &[&str]) -> String {
    use std::sync::atomic::{AtomicBool, AtomicU64, Ordering};
    let cap = if t[1] == "u" { None } else { Some(t[1].parse::<usize>().unwrap()) };
    let nprod: usize = t[2].parse().unwrap();
    let nemit: usize = t[3].parse().unwrap();
    let seed: u64 = t[4].parse().unwrap();
    let rig = Rig::new(cap, false);
    {
        let mut st = rig.gate.m.lock().unwrap();
        st.auto = true;
    }
    let q0 = rig.handles[0].as_ref().unwrap().clone();
    let stop = Arc::new(AtomicBool::new(false));
    let bad = Arc::new(Mutex::new(Vec::<String>::new()));
    let sampler = {
        let q = q0.clone();
        let stop = stop.clone();
        let bad = bad.clone();
        thread::spawn(move || {
            let mut n = 0u64;
            while !stop.load(Ordering::Acquire) {
                let qd = q.queued();
                let sub = q.submitted();
                if qd > sub {
                    bad.lock().unwrap().push(format!("queued() = {} > submitted() = {} read afterwards", qd, sub));
                    break;
                }
                n += 1;
                if n % 64 == 0 {
                    thread::yield_now();
                }
            }
        })
    };
    let okcount = Arc::new(AtomicU64::new(0));
    let mut prods = vec![];
    let acked: Arc<Mutex<Vec<Vec<usize>>>> = Arc::new(Mutex::new(vec![vec![]; nprod]));
    let start = Arc::new(std::sync::Barrier::new(nprod));      // the producers start together: their emits overlap
    for p in 0..nprod {
        let q = q0.clone();
        let okcount = okcount.clone();
        let acked = acked.clone();
        let bad = bad.clone();
        let start = start.clone();
        prods.push(thread::spawn(move || {
            let mut x = seed.wrapping_mul(6364136223846793005).wrapping_add((p as u64).wrapping_mul(1442695040888963407).wrapping_add(1));
            let mut mine = vec![];
            start.wait();
            for i in 0..nemit {
                let m = format!("p{}.s{}:1|c", p, i);
                let t0 = Instant::now();
                match q.emit(&m) {
                    Ok(n) => {
                        if n != m.len() {
                            bad.lock().unwrap().push(format!("emit returned Ok({}) for {} bytes", n, m.len()));
                        }
                        okcount.fetch_add(1, Ordering::Relaxed);
                        mine.push(i);
                    }
                    Err(_) => {}
                }
                if t0.elapsed() > SLOW {
                    bad.lock().unwrap().push("an emit took more than 300 ms".to_string());
                }
                x ^= x << 13;
                x ^= x >> 7;
                x ^= x << 17;
                if x % 7 == 0 {
                    thread::yield_now();
                }
            }
            acked.lock().unwrap()[p] = mine;
        }));
    }
    for h in prods {
        if h.join().is_err() {
            bad.lock().unwrap().push("a producer thread panicked".to_string());
        }
    }
    // quiescence: everything acknowledged must come out
    let total = okcount.load(Ordering::Relaxed) as usize;
    let deadline = Instant::now() + Duration::from_millis(5000);
    loop {
        let st = rig.gate.m.lock().unwrap();
        if st.log.len() >= total || Instant::now() >= deadline {
            break;
        }
        drop(st);
        thread::sleep(Duration::from_millis(1));
    }
    stop.store(true, Ordering::Release);
    let _ = sampler.join();
    let mut problems = bad.lock().unwrap().clone();
    let (sub, dr, qd) = (q0.submitted(), q0.drained(), q0.queued());
    drop(q0);
    let mut rig = rig;
    rig.handles.clear();
    {
        let deadline = Instant::now() + Duration::from_millis(3000);
        let mut st = rig.gate.m.lock().unwrap();
        while !st.dropped {
            let now = Instant::now();
            if now >= deadline {
                break;
            }
            let (g, _) = rig.gate.cv.wait_timeout(st, deadline - now).unwrap();
            st = g;
        }
        if !st.dropped {
            problems.push("the wrapped sink was not dropped after the last handle was dropped".to_string());
        }
        let acked = acked.lock().unwrap();
        let mut seen: Vec<Vec<usize>> = vec![vec![]; nprod];
        for (m, _, _) in st.log.iter() {
            let (a, b) = m[1..].split_once(".s").unwrap();
            let p: usize = a.parse().unwrap();
            let i: usize = b.split(':').next().unwrap().parse().unwrap();
            seen[p].push(i);
        }
        for p in 0..nprod {
            if seen[p] != acked[p] {
                problems.push(format!(
                    "producer {}: acknowledged {} metrics, wrapped sink received {} (first difference at position {})",
                    p,
                    acked[p].len(),
                    seen[p].len(),
                    seen[p].iter().zip(acked[p].iter()).position(|(a, b)| a != b).unwrap_or(seen[p].len().min(acked[p].len()))
                ));
            }
        }
        if sub as usize != total {
            problems.push(format!("submitted() = {} but {} emits returned Ok", sub, total));
        }
        if dr as usize != total || qd != 0 {
            problems.push(format!("at quiescence drained() = {}, queued() = {}, {} metrics accepted", dr, qd, total));
        }
    }
    if problems.is_empty() {
        format!("ok {} {}", total, nprod * nemit - total)
    } else {
        format!("bad {}", problems.join(" / "))
    }
}

/// Panic soak: `QP <cap|u> <metrics> <k>`: one producer emits <metrics> metrics (waiting for room when the queue is
/// bounded); the wrapped sink panics on every metric whose ordinal is not a multiple of k.  Afterwards: every metric
/// reached the wrapped sink exactly once and in order, panics() is the number of panics, one more metric is accepted
/// and delivered, the last drop releases the wrapped sink.  observation: "ok <panics>" or "bad <what>".
fn run_panic_soak(t: &[&str]) -> String {
    let cap = if t[1] == "u" { None } else { Some(t[1].parse::<usize>().unwrap()) };
    let n: usize = t[2].parse().unwrap();
    let k: usize = t[3].parse().unwrap();
    let rig = Rig::new(cap, false);
    {
        let mut st = rig.gate.m.lock().unwrap();
        st.auto = true;
        st.auto_panic = k;
    }
    let q = rig.handles[0].as_ref().unwrap().clone();
    let mut problems: Vec<String> = vec![];
    let t0 = Instant::now();
    for i in 0..n {
        let m = format!("p.{}:1|c", i);
        loop {
            match q.emit(&m) {
                Ok(_) => break,
                Err(_) if cap.is_some() && t0.elapsed() < Duration::from_secs(25) => thread::yield_now(),
                Err(_) => {
                    problems.push(format!("emit {} refused", i));
                    break;
                }
            }
        }
        if !problems.is_empty() {
            break;
        }
    }
    let wait_log = |want: usize| {
        let deadline = Instant::now() + Duration::from_secs(20);
        loop {
            let st = rig.gate.m.lock().unwrap();
            if st.log.len() >= want || Instant::now() >= deadline {
                return st.log.len();
            }
            drop(st);
            thread::sleep(Duration::from_millis(1));
        }
    };
    let got = wait_log(n);
    if got != n {
        problems.push(format!("{} metrics accepted, the wrapped sink has seen {} ({} panics counted)", n, got, q.panics()));
    }
    let expected_panics = (1..=n).filter(|i| i % k != 0).count() as u64;
    // the count is incremented by the dying worker's sentinel: give the last one a moment
    let deadline = Instant::now() + Duration::from_secs(5);
    while q.panics() < expected_panics && Instant::now() < deadline {
        thread::sleep(Duration::from_millis(1));
    }
    if q.panics() != expected_panics {
        problems.push(format!("panics() = {} after {} panics", q.panics(), expected_panics));
    }
    // the counters at this quiescent moment: submitted = #Ok emits, drained = #metrics handed to the wrapped sink
    {
        let handed = rig.gate.m.lock().unwrap().entered as u64;
        if q.submitted() != n as u64 || q.drained() != handed || q.queued() != q.submitted().saturating_sub(q.drained()) {
            problems.push(format!(
                "at quiescence after {} Ok emits of which the wrapped sink was handed {}: submitted() = {}, drained() = {}, queued() = {}",
                n, handed, q.submitted(), q.drained(), q.queued()
            ));
        }
    }
    {
        let st = rig.gate.m.lock().unwrap();
        for (i, (m, _, _)) in st.log.iter().enumerate() {
            if *m != format!("p.{}:1|c", i) {
                problems.push(format!("delivery {} is {:?}", i, m));
                break;
            }
        }
    }
    {
        let mut st = rig.gate.m.lock().unwrap();
        st.auto_panic = 0;
    }
    if q.emit("after:1|c").is_err() {
        problems.push("the sink no longer accepts metrics".to_string());
    } else if wait_log(n + 1) != n + 1 {
        problems.push("a metric accepted after the panics was not delivered".to_string());
    }
    drop(q);
    let mut rig = rig;
    rig.handles.clear();
    {
        let deadline = Instant::now() + Duration::from_millis(3000);
        let mut st = rig.gate.m.lock().unwrap();
        while !st.dropped {
            let now = Instant::now();
            if now >= deadline {
                break;
            }
            let (g, _) = rig.gate.cv.wait_timeout(st, deadline - now).unwrap();
            st = g;
        }
        if !st.dropped {
            problems.push("the wrapped sink was not dropped after the last handle was dropped".to_string());
        }
    }
    if problems.is_empty() {
        format!("ok {}", expected_panics)
    } else {
        format!("bad {}", problems.join(" / "))
    }
}

/// Bound of a large queue: `QB <cap> <extra>`: the worker is parked inside the wrapped sink with the first metric,
/// then cap + extra more are emitted: exactly cap of them must be accepted (the bound holds for every capacity, not
/// only for small ones).  observation: "acc <accepted after the first> ref <refused> q <queued()>"
fn run_bound(t: &[&str]) -> String {
    // `QB u <n>`: an UNBOUNDED queue with its worker parked accepts all n metrics (n above any plausible hidden ceiling)
    let unbounded = t[1] == "u";
    let cap: usize = if unbounded { 0 } else { t[1].parse().unwrap() };
    let extra: usize = t[2].parse().unwrap();
    let rig = if unbounded { Rig::with_ctor(None, if extra % 2 == 0 { 3 } else { 1 }) } else { Rig::new(Some(cap), false) };
    let q = rig.handles[0].as_ref().unwrap().clone();
    if q.emit("first:1|c").is_err() {
        return "bad the first emit was refused".to_string();
    }
    // wait until the worker holds it inside the gate
    let deadline = Instant::now() + Duration::from_secs(5);
    loop {
        let st = rig.gate.m.lock().unwrap();
        if st.inside.is_some() || Instant::now() >= deadline {
            break;
        }
        drop(st);
        thread::sleep(Duration::from_micros(200));
    }
    let (mut acc, mut refused) = (0usize, 0usize);
    for i in 0..cap + extra {
        match q.emit(if i % 2 == 0 { "m:1|c" } else { "n:2|g" }) {
            Ok(_) => acc += 1,
            Err(_) => refused += 1,
        }
    }
    let queued = q.queued();
    {
        let mut st = rig.gate.m.lock().unwrap();
        st.discard = true;
        st.auto = true;
        rig.gate.cv.notify_all();
    }
    drop(q);
    let mut rig = rig;
    rig.handles.clear();
    {
        let deadline = Instant::now() + Duration::from_secs(20);
        let mut st = rig.gate.m.lock().unwrap();
        while !st.dropped {
            let now = Instant::now();
            if now >= deadline {
                break;
            }
            let (g, _) = rig.gate.cv.wait_timeout(st, deadline - now).unwrap();
            st = g;
        }
    }
    format!("acc {} ref {} q {}", acc, refused, queued)
}

/// `QW n <cap|u>`: an OUTER queuing sink whose wrapped sink forwards into a handle of an INNER queuing sink (chained
/// sinks: the producer of the inner one is the outer one's worker thread).  `QW h u`: the error handler of a queuing
/// sink reports every failure by emitting a counter through a clone of the same sink (again the producer is a worker
/// thread).  An emit that returns Ok is delivered, whoever the calling thread is.
fn run_worker_thread_emits(t: &[&str]) -> String {
    struct Fwd(QueuingMetricSink, Arc<Mutex<Vec<String>>>);
    impl MetricSink for Fwd {
        fn emit(&self, metric: &str) -> io::Result<usize> {
            let r = self.0.emit(metric);
            self.1.lock().unwrap().push(match &r {
                Ok(n) if *n == metric.len() => "k".to_string(),
                Ok(n) => format!("k!{}", n),
                Err(_) => "f".to_string(),
            });
            r
        }
    }
    impl UnwindSafe for Fwd {}
    impl RefUnwindSafe for Fwd {}
    struct Rec(Arc<Mutex<Vec<String>>>);
    impl MetricSink for Rec {
        fn emit(&self, metric: &str) -> io::Result<usize> {
            self.0.lock().unwrap().push(metric.to_string());
            if metric.starts_with("fail.") {
                Err(io::Error::new(io::ErrorKind::Other, Payload(1)))
            } else {
                Ok(metric.len())
            }
        }
    }
    let cap = if t[2] == "u" { None } else { Some(t[2].parse::<usize>().unwrap()) };
    let wait_for = |log: &Arc<Mutex<Vec<String>>>, n: usize| {
        let deadline = Instant::now() + Duration::from_secs(3);
        while log.lock().unwrap().len() < n && Instant::now() < deadline {
            thread::sleep(Duration::from_millis(2));
        }
    };
    let mut problems: Vec<String> = vec![];
    if t[1] == "n" {
        let seen = Arc::new(Mutex::new(vec![]));
        let inner = match cap {
            Some(c) => QueuingMetricSink::with_capacity(Rec(seen.clone()), c),
            None => QueuingMetricSink::from(Rec(seen.clone())),
        };
        let answers = Arc::new(Mutex::new(vec![]));
        let outer = QueuingMetricSink::from(Fwd(inner.clone(), answers.clone()));
        let mut sent = vec![];
        for i in 0..12 {
            let m = format!("chained.{}:1|c", i);
            if outer.emit(&m).is_ok() {
                sent.push(m);
            }
            // one at a time, so that a small inner queue is never full: every forwarded emit must be accepted
            wait_for(&answers, sent.len());
            wait_for(&seen, sent.len());
        }
        let answers = answers.lock().unwrap().clone();
        let seen = seen.lock().unwrap().clone();
        if answers.iter().any(|a| a != "k") {
            problems.push(format!("the inner sink answered {:?} to emits made from the outer sink's worker thread (room in its queue every time)", answers));
        }
        if seen != sent {
            problems.push(format!(
                "{} metrics were accepted with Ok by the inner queuing sink (called from another queuing sink's worker thread) but its wrapped sink received {:?}",
                sent.len(),
                seen
            ));
        }
    } else {
        let seen = Arc::new(Mutex::new(vec![]));
        let slot: Arc<Mutex<Option<QueuingMetricSink>>> = Arc::new(Mutex::new(None));
        let answers = Arc::new(Mutex::new(vec![]));
        let (slot2, answers2) = (slot.clone(), answers.clone());
        let q = QueuingMetricSink::builder()
            .with_error_handler(move |_e| {
                let h = slot2.lock().unwrap().clone();
                if let Some(h) = h {
                    let r = h.emit("sink.errors:1|c");
                    answers2.lock().unwrap().push(r.is_ok());
                }
            })
            .build(Rec(seen.clone()));
        *slot.lock().unwrap() = Some(q.clone());
        let script = ["a:1|c", "fail.one:1|c", "b:1|c", "fail.two:1|c", "c:1|c"];
        for m in script {
            let _ = q.emit(m);
        }
        wait_for(&seen, 7);
        let seen = seen.lock().unwrap().clone();
        let answers = answers.lock().unwrap().clone();
        let reported = seen.iter().filter(|m| m.as_str() == "sink.errors:1|c").count();
        let oks = answers.iter().filter(|x| **x).count();
        if answers.len() != 2 {
            problems.push(format!("the handler ran {} times for 2 failures", answers.len()));
        }
        if reported != oks {
            problems.push(format!(
                "the error handler emitted through a clone of the same sink {} times with Ok (on the worker thread), the wrapped sink received {} of them: {:?}",
                oks, reported, seen
            ));
        }
        let own: Vec<&String> = seen.iter().filter(|m| m.as_str() != "sink.errors:1|c").collect();
        if own.len() != script.len() || own.iter().zip(script.iter()).any(|(a, b)| a.as_str() != *b) {
            problems.push(format!("the metrics emitted by the caller arrived as {:?}", own));
        }
        std::mem::forget(q); // the handler keeps a clone alive anyway (cycle): one leaked worker per case
    }
    if problems.is_empty() { "ok".to_string() } else { format!("bad {}", problems.join(" / ")) }
}

pub fn run_case(line: &str) -> String {
    let t: Vec<&str> = line.split_whitespace().collect();
    if t[0] == "QB" {
        return run_bound(&t);
    }
    if t[0] == "QP" {
        return run_panic_soak(&t);
    }
    if t[0] == "QS" {
        return run_soak(&t);
    }
    if t[0] == "QH" {
        return run_sched(&t);
    }
    if t[0] == "QW" {
        return run_worker_thread_emits(&t);
    }
    if t[0] == "QD" {
        // the same scripted history with ANOTHER queuing sink alive in the process (nothing of one sink's behaviour may
        // depend on another's): kind 1 = a full bounded queue whose last handle has been dropped (its stop marker is
        // pending behind the full queue for the whole case), kind 2 = a sink whose wrapped sink has panicked once
        let kind: u8 = t[1].parse().unwrap();
        let mut decoy = Rig::with_ctor(Some(1), 1);
        let mut problems: Vec<String> = vec![];
        let d_emit = |r: &mut Rig, m: &str| {
            let ok = r.handles[0].as_ref().unwrap().emit(m).is_ok();
            if ok {
                r.accepted.push(m.to_string());
            }
            // load-independent: up to 5 s (not the scripted histories' 400 ms) for the worker to take what it can take
            let t0 = Instant::now();
            while !r.settle() && t0.elapsed() < Duration::from_secs(5) {}
            ok
        };
        let release = |r: &mut Rig, o: Outcome| {
            let mut st = r.gate.m.lock().unwrap();
            let n = st.log.len();
            st.release = Some(o);
            r.gate.cv.notify_all();
            let deadline = Instant::now() + Duration::from_secs(5);
            while st.log.len() == n && Instant::now() < deadline {
                let (g, _) = r.gate.cv.wait_timeout(st, Duration::from_millis(20)).unwrap();
                st = g;
            }
        };
        decoy.settle();
        if kind == 2 {
            d_emit(&mut decoy, "decoy.boom:1|c");
            decoy.panics_released += 1;
            release(&mut decoy, Outcome::Panic);
            let t0 = Instant::now();
            while !decoy.settle() && t0.elapsed() < Duration::from_secs(5) {}
        }
        let first = d_emit(&mut decoy, "decoy.a:1|c");
        let second = d_emit(&mut decoy, "decoy.b:1|c");
        if !(first && second) {
            problems.push("the other sink refused an emit with room in its queue".to_string());
        }
        if kind == 1 {
            let h = decoy.handles[0].take();
            drop(h);
        }
        let rest: Vec<&str> = std::iter::once("Q").chain(t[2..].iter().copied()).collect();
        let main = run_case(&rest.join(" "));
        // the other sink now finishes its own life
        {
            let mut st = decoy.gate.m.lock().unwrap();
            st.auto = true;
            decoy.gate.cv.notify_all();
        }
        decoy.handles.clear();
        let deadline = Instant::now() + Duration::from_secs(2);
        let mut st = decoy.gate.m.lock().unwrap();
        while !st.dropped && Instant::now() < deadline {
            let (g, _) = decoy.gate.cv.wait_timeout(st, Duration::from_millis(20)).unwrap();
            st = g;
        }
        if !st.dropped {
            problems.push("the other sink's worker did not stop / its wrapped sink was not released after its last handle was dropped".to_string());
        }
        let got: Vec<&String> = st.log.iter().map(|(m, _, _)| m).collect();
        let want: Vec<&String> = decoy.accepted.iter().collect();
        if got != want {
            problems.push(format!("the other sink delivered {:?} of the accepted {:?}", got, want));
        }
        drop(st);
        return format!("{}|Y:{}", main, if problems.is_empty() { "ok".to_string() } else { problems.join(" / ") });
    }
    assert!(t[0] == "Q");
    let cap = if t[1] == "u" { None } else { Some(t[1].parse::<usize>().unwrap()) };
    let ctor: u8 = t[2].parse().unwrap();
    let me = thread::current().id();
    let mut rig = Rig::with_ctor(cap, ctor);
    rig.gate.m.lock().unwrap().caller_thread = Some(me);
    rig.settle();
    let mut out: Vec<String> = vec![];
    let mut attempt = 0usize;
    let acts: Vec<&str> = if t[3] == "-" { vec![] } else { t[3].split(',').collect() };
    let mut stuck = false;
    for a in acts {
        if stuck {
            // the background side is wedged: do not wait again and again
            out.push("-".to_string());
            continue;
        }
        let (op, arg) = a.split_at(1);
        let t0 = Instant::now();
        let mut o = match op {
            "E" => {
                // optional payload shape after the handle number: e = the empty string, l = 100 kB, u = non-ASCII with
                // newlines and delimiters, s = a bare number; default = an ordinary counter line
                let digits: String = arg.chars().take_while(|c| c.is_ascii_digit()).collect();
                let shape = &arg[digits.len()..];
                let h: usize = digits.parse().unwrap();
                let metric = match shape {
                    "e" => String::new(),
                    "l" => format!("big.{}:{}|c", attempt, "9".repeat(100_000)),
                    "u" => format!("m\u{e9}tric\n{}|#\u{1F642}:,@\n", attempt),
                    "s" => format!("{}", attempt),
                    // d: the SAME text every time (a counter incremented repeatedly): identity is position, not content
                    "d" => "hits.same:1|c".to_string(),
                    _ => format!("metric.number.{}:1|c", attempt),
                };
                attempt += 1;
                let r = rig.handles[h].as_ref().expect("emit on a dropped handle").emit(&metric);
                match r {
                    Ok(n) => {
                        rig.accepted.push(metric.clone());
                        if n == metric.len() {
                            "k".to_string()
                        } else {
                            format!("k!{}", n)
                        }
                    }
                    // a refused emit; what the error says is not part of any property
                    Err(_) => "f".to_string(),
                }
            }
            "C" => {
                let h: usize = arg.parse().unwrap();
                let c = rig.handles[h].as_ref().expect("clone of a dropped handle").clone();
                rig.handles.push(Some(c));
                "c".to_string()
            }
            "D" => {
                let h: usize = arg.parse().unwrap();
                let x = rig.handles[h].take().expect("double drop");
                drop(x);
                "d".to_string()
            }
            "F" => {
                // QueuingMetricSink::flush on a live handle: flushes the wrapped sink, touches nothing in the queue
                let h: usize = arg.parse().unwrap();
                rig.gate.m.lock().unwrap().flush_free = true;
                let r = rig.handles[h].as_ref().expect("flush on a dropped handle").flush();
                rig.gate.m.lock().unwrap().flush_free = false;
                if r.is_ok() { "l".to_string() } else { "le".to_string() }
            }
            "T" => {
                // the handle is dropped by a fresh thread that has NO name and ends normally
                let h: usize = arg.parse().unwrap();
                let x = rig.handles[h].take().expect("double drop");
                let _ = thread::spawn(move || drop(x)).join();
                "d".to_string()
            }
            "U" => {
                // the handle is dropped by a thread that is unwinding from a panic of its own
                let h: usize = arg.parse().unwrap();
                let x = rig.handles[h].take().expect("double drop");
                let _ = thread::spawn(move || {
                    let _owned = x;
                    panic!("unwinding with a queuing sink handle alive");
                })
                .join();
                "d".to_string()
            }
            "R" => {
                let outcome = match arg {
                    "k" => Outcome::Ok,
                    "z" => Outcome::Zero,
                    _ if arg.starts_with('n') => Outcome::Count(arg[1..].parse().unwrap()),
                    "p" => Outcome::Panic,
                    _ if arg.starts_with('o') => Outcome::Os(arg[1..].parse().unwrap()),
                    _ => Outcome::Err(arg[1..].parse().unwrap()),
                };
                let is_panic = outcome == Outcome::Panic;
                let mut st = rig.gate.m.lock().unwrap();
                if st.inside.is_none() {
                    "r-".to_string()
                } else {
                    if is_panic {
                        rig.panics_released += 1;
                    }
                    let n = st.log.len();
                    st.release = Some(outcome);
                    rig.gate.cv.notify_all();
                    let deadline = Instant::now() + SETTLE;
                    let mut ok = true;
                    while st.log.len() == n {
                        let now = Instant::now();
                        if now >= deadline {
                            ok = false;
                            break;
                        }
                        let (g, _) = rig.gate.cv.wait_timeout(st, deadline - now).unwrap();
                        st = g;
                    }
                    if ok { "r".to_string() } else { "r!stuck".to_string() }
                }
            }
            "S" => {
                let h = rig.handles.iter().flatten().next().expect("sample needs a live handle");
                // MetricSink::stats() through the queuing sink is the wrapped sink's, whatever the queue holds
                let (a, b) = (h.stats(), gate_stats(&rig.gate));
                let same = a.bytes_sent == b.bytes_sent
                    && a.packets_sent == b.packets_sent
                    && a.bytes_dropped == b.bytes_dropped
                    && a.packets_dropped == b.packets_dropped;
                format!(
                    "s{}.{}.{}.{}{}",
                    h.submitted(),
                    h.drained(),
                    h.queued(),
                    h.panics(),
                    if same { "" } else { "!stats" }
                )
            }
            _ => panic!("bad action {}", a),
        };
        if (op == "E" || op == "D" || op == "U" || op == "T" || op == "C" || op == "F") && t0.elapsed() > SLOW {
            o.push_str("!slow");
        }
        if op != "S" && !rig.settle() {
            o.push_str("!stuck");
        }
        if o.contains("stuck") {
            stuck = true;
        }
        out.push(o);
    }
    // final observations
    let (dl, hd, rel, caller) = {
        let st = rig.gate.m.lock().unwrap();
        // equal texts (payload shape d) are told apart by position: the k-th delivery of a text is the k-th acceptance of it
        let taken: std::cell::RefCell<std::collections::HashSet<usize>> = std::cell::RefCell::new(std::collections::HashSet::new());
        let idx = |m: &String| -> String {
            let found = rig.accepted.iter().enumerate().position(|(i, x)| x == m && !taken.borrow().contains(&i));
            let found = found.or_else(|| rig.accepted.iter().position(|x| x == m));
            match found {
                Some(i) => {
                    taken.borrow_mut().insert(i);
                    i.to_string()
                }
                // a string that was never accepted: shown as hex (it may contain separators and newlines)
                None => format!("?{}", crate::util::hex(m.as_bytes()).chars().take(80).collect::<String>()),
            }
        };
        let dl: Vec<String> = st
            .log
            .iter()
            .map(|(m, o, _)| {
                format!(
                    "{}:{}",
                    idx(m),
                    match o {
                        Outcome::Ok | Outcome::Zero | Outcome::Count(_) => "k".to_string(),
                        Outcome::Os(n) => format!("e{}", 2000 + *n as i64),
                        Outcome::Err(id) => format!("e{}", id),
                        Outcome::Panic => "p".to_string(),
                    }
                )
            })
            .collect();
        // the handler runs right after the failing call: #completed deliveries identifies its metric
        let hd: Vec<String> = st
            .handled
            .iter()
            .map(|(id, n, _)| {
                // the identity of the n-th delivery as computed for the delivery log above
                let m = if *n >= 1 { dl.get(*n - 1).map(|x: &String| x.split(':').next().unwrap_or("?").to_string()).unwrap_or_else(|| "?".to_string()) } else { "?".to_string() };
                format!("{}:{}@{}", m, id, n)
            })
            .collect();
        let caller = st.log.iter().any(|(_, _, t)| *t == me)
            || st.handled.iter().any(|(_, _, t)| *t == me)
            || st.flushes.iter().any(|t| *t == me);
        let worker_mismatch = st
            .handled
            .iter()
            .any(|(_, n, t)| *n == 0 || st.log[*n - 1].2 != *t);
        (dl, hd, st.dropped, caller || worker_mismatch)
    };
    // clean up: release everything, drop everything, give the worker a moment to leave
    {
        let mut st = rig.gate.m.lock().unwrap();
        st.auto = true;
        rig.gate.cv.notify_all();
    }
    rig.handles.clear();
    {
        let deadline = Instant::now() + Duration::from_millis(if stuck { 50 } else { 1000 });
        let mut st = rig.gate.m.lock().unwrap();
        while !st.dropped {
            let now = Instant::now();
            if now >= deadline {
                break;
            }
            let (g, _) = rig.gate.cv.wait_timeout(st, deadline - now).unwrap();
            st = g;
        }
    }
    format!(
        "A:{}|DL:{}|H:{}|X:rel{}{}",
        out.join(","),
        dl.join(";"),
        hd.join(";"),
        if rel { 1 } else { 0 },
        if caller { " caller" } else { "" }
    )
}

// ------------------------------------------------------------------------------------------------
// Sub-step schedules (hook H2): `QH <cap|u> <handler 0|1> <events>` drives the real code through a
// chosen interleaving of the model's atomic events.  Needs `--cfg cadence_verif`.
//
//   events = comma list of  Tk | Tf  (a producer's try_send; k/f = what the model predicts: a producer whose send
//            is predicted to be refused is let go at once, an accepted one stays parked before incr_submitted)
//            | I (the oldest parked producer performs incr_submitted and returns) | W (worker: recv returns)
//            | X (worker: incr_drained, or leaves the loop on the stop marker) | Fk | Fe<id> | Fp (the wrapped sink
//            answers the current metric) | A | B (first / second load of queued() on a sampler thread)
//            | C (clone the handle) | D (drop one handle)
// observation:  R:<per event: k | f | - | s<q>.<submitted read right after> | !<problem>>|F:<submitted>.<drained>.<panics>|DL:<id:outcome;...>
#[cfg(cadence_verif)]
mod sched {
    use super::*;
    use std::cell::Cell;
    use std::collections::{HashMap, HashSet, VecDeque};
    use std::sync::mpsc;

    #[derive(Clone, Copy, PartialEq, Eq, Hash, Debug)]
    pub enum Role {
        Main,
        Worker,
        Producer(usize),
        Sampler,
    }

    thread_local! { static ROLE: Cell<Role> = Cell::new(Role::Worker); }

    pub struct SchedSt {
        pub parked: HashMap<Role, (&'static str, u64)>,
        pub granted: HashSet<u64>,
        pub next: u64,
        pub enabled: bool,
    }
    pub struct Sched {
        pub m: Mutex<SchedSt>,
        pub cv: Condvar,
    }

    impl Sched {
        pub fn new() -> Arc<Sched> {
            Arc::new(Sched {
                m: Mutex::new(SchedSt { parked: HashMap::new(), granted: HashSet::new(), next: 1, enabled: true }),
                cv: Condvar::new(),
            })
        }
        /// the installed hook: park the calling thread until the scheduler grants this very park
        pub fn hook(self: &Arc<Sched>, site: &'static str) {
            let role = ROLE.with(|r| r.get());
            if role == Role::Main {
                return;
            }
            let mut st = self.m.lock().unwrap();
            if !st.enabled {
                return;
            }
            let ticket = st.next;
            st.next += 1;
            st.parked.insert(role, (site, ticket));
            self.cv.notify_all();
            while st.enabled && !st.granted.contains(&ticket) {
                st = self.cv.wait(st).unwrap();
            }
            st.granted.remove(&ticket);
            if st.parked.get(&role).map(|p| p.1) == Some(ticket) {
                st.parked.remove(&role);
            }
            self.cv.notify_all();
        }
        pub fn wait_parked(&self, role: Role, sites: &[&str]) -> Result<&'static str, String> {
            let deadline = Instant::now() + SETTLE;
            let mut st = self.m.lock().unwrap();
            loop {
                if let Some((s, _)) = st.parked.get(&role) {
                    if sites.iter().any(|x| x == s) {
                        return Ok(s);
                    }
                    return Err(format!("{:?} is parked at {} instead of {:?}", role, s, sites));
                }
                let now = Instant::now();
                if now >= deadline {
                    return Err(format!("{:?} did not reach {:?}", role, sites));
                }
                let (g, _) = self.cv.wait_timeout(st, deadline - now).unwrap();
                st = g;
            }
        }
        pub fn grant(&self, role: Role) -> bool {
            let mut st = self.m.lock().unwrap();
            if let Some((_, t)) = st.parked.remove(&role) {
                st.granted.insert(t);
                self.cv.notify_all();
                true
            } else {
                false
            }
        }
        pub fn release_all(&self) {
            let mut st = self.m.lock().unwrap();
            st.enabled = false;
            self.cv.notify_all();
        }
    }

    enum Cmd {
        Emit(String),
        Queued,
        Quit,
    }

    struct Actor {
        tx: mpsc::Sender<Cmd>,
        rx: mpsc::Receiver<String>,
        busy: bool,
    }

    fn spawn_actor(role: Role, q: QueuingMetricSink) -> Actor {
        let (tx, crx) = mpsc::channel::<Cmd>();
        let (rtx, rx) = mpsc::channel::<String>();
        thread::spawn(move || {
            ROLE.with(|r| r.set(role));
            for c in crx.iter() {
                match c {
                    Cmd::Emit(m) => {
                        let r = q.emit(&m);
                        let _ = rtx.send(match r {
                            Ok(n) if n == m.len() => "k".to_string(),
                            Ok(n) => format!("k!{}", n),
                            Err(_) => "f".to_string(),
                        });
                    }
                    Cmd::Queued => {
                        let v = q.queued();
                        let sub = q.submitted();
                        let _ = rtx.send(format!("s{}.{}", v, sub));
                    }
                    Cmd::Quit => break,
                }
            }
        });
        Actor { tx, rx, busy: false }
    }

    fn recv(a: &Actor) -> String {
        a.rx.recv_timeout(SETTLE).unwrap_or_else(|_| "!noreturn".to_string())
    }

    pub fn run(t: &[&str]) -> String {
        ROLE.with(|r| r.set(Role::Main));
        let cap = if t[1] == "u" { None } else { Some(t[1].parse::<usize>().unwrap()) };
        let handler = t[2] == "1";
        let sched = Sched::new();
        let s2 = sched.clone();
        cadence::verif::install(Arc::new(move |site| s2.hook(site)));
        let rig = Rig::new(cap, handler);
        // the wrapped sink answers at once with the scripted outcome
        let outcomes: Arc<Mutex<VecDeque<Outcome>>> = Arc::new(Mutex::new(VecDeque::new()));
        {
            let mut st = rig.gate.m.lock().unwrap();
            st.auto = true;
        }
        let mut handles: Vec<QueuingMetricSink> = vec![];
        let q0 = rig.handles[0].as_ref().unwrap().clone();
        let mut rig = rig;
        handles.push(rig.handles[0].take().unwrap());
        drop(q0);
        let base = handles[0].clone();
        // note: `base` is an extra clone kept by the harness for its actors; the model's handle count is len(handles)
        let mut producers: Vec<Actor> = (0..4).map(|i| spawn_actor(Role::Producer(i), base.clone())).collect();
        let mut sampler = spawn_actor(Role::Sampler, base.clone());
        let mut inflight: VecDeque<(usize, usize)> = VecDeque::new(); // (producer, index of its T event)
        let mut out: Vec<String> = vec![];
        let mut attempt = 0usize;
        let mut accepted: Vec<String> = vec![];
        let mut problem: Option<String> = None;
        let _ = sched.wait_parked(Role::Worker, &["queue.run.start"]);
        let events: Vec<&str> = if t[3] == "-" { vec![] } else { t[3].split(',').collect() };
        for ev in events.iter() {
            if problem.is_some() {
                out.push("-".to_string());
                continue;
            }
            let r: Result<String, String> = (|| {
                match &ev[..1] {
                    "T" => {
                        let p = (0..producers.len()).find(|i| !producers[*i].busy).ok_or("no idle producer")?;
                        let m = format!("metric.number.{}:1|c", attempt);
                        attempt += 1;
                        producers[p].tx.send(Cmd::Emit(m.clone())).unwrap();
                        sched.wait_parked(Role::Producer(p), &["queue.submit.sent"])?;
                        if &ev[1..] == "f" {
                            sched.grant(Role::Producer(p));
                            Ok(recv(&producers[p]))
                        } else {
                            producers[p].busy = true;
                            inflight.push_back((p, out.len()));
                            accepted.push(m);
                            Ok("k?".to_string())
                        }
                    }
                    "I" => {
                        let (p, idx) = inflight.pop_front().ok_or("no producer is parked before incr_submitted")?;
                        sched.grant(Role::Producer(p));
                        let r = recv(&producers[p]);
                        producers[p].busy = false;
                        out[idx] = r;
                        Ok("-".to_string())
                    }
                    "W" => {
                        sched.wait_parked(Role::Worker, &["queue.run.start", "queue.run.finished"])?;
                        sched.grant(Role::Worker);
                        sched.wait_parked(Role::Worker, &["queue.run.dequeued"])?;
                        Ok("-".to_string())
                    }
                    "X" => {
                        sched.wait_parked(Role::Worker, &["queue.run.dequeued"])?;
                        sched.grant(Role::Worker);
                        let s = sched.wait_parked(Role::Worker, &["queue.run.counted", "queue.run.exit"])?;
                        if s == "queue.run.exit" {
                            sched.grant(Role::Worker);
                        }
                        Ok("-".to_string())
                    }
                    "F" => {
                        let o = match &ev[1..2] {
                            "k" => Outcome::Ok,
                            "p" => Outcome::Panic,
                            _ => Outcome::Err(ev[2..].parse().unwrap()),
                        };
                        {
                            let mut st = rig.gate.m.lock().unwrap();
                            st.release = Some(o.clone());
                        }
                        sched.wait_parked(Role::Worker, &["queue.run.counted"])?;
                        sched.grant(Role::Worker);
                        if o == Outcome::Panic {
                            sched.wait_parked(Role::Worker, &["queue.sentinel.respawn"])?;
                            sched.grant(Role::Worker);
                            sched.wait_parked(Role::Worker, &["queue.run.start"])?;
                        } else {
                            sched.wait_parked(Role::Worker, &["queue.run.finished"])?;
                        }
                        Ok("-".to_string())
                    }
                    "A" => {
                        sampler.tx.send(Cmd::Queued).unwrap();
                        sampler.busy = true;
                        sched.wait_parked(Role::Sampler, &["queue.queued.between"])?;
                        Ok("-".to_string())
                    }
                    "B" => {
                        sched.wait_parked(Role::Sampler, &["queue.queued.between"])?;
                        sched.grant(Role::Sampler);
                        sampler.busy = false;
                        Ok(recv(&sampler))
                    }
                    "C" => {
                        let c = handles[0].clone();
                        handles.push(c);
                        Ok("-".to_string())
                    }
                    "D" => {
                        let h = handles.pop().ok_or("no handle to drop")?;
                        drop(h);
                        Ok("-".to_string())
                    }
                    _ => Err(format!("bad event {}", ev)),
                }
            })();
            match r {
                Ok(s) => out.push(s),
                Err(e) => {
                    out.push(format!("!{}", e.replace(',', ";").replace('|', "/")));
                    problem = Some(e);
                }
            }
        }
        // final observation with every thread still parked where the schedule left it
        let fin = format!("{}.{}.{}", base.submitted(), base.drained(), base.panics());
        let dl: Vec<String> = {
            let st = rig.gate.m.lock().unwrap();
            st.log
                .iter()
                .map(|(m, o, _)| {
                    format!(
                        "{}:{}",
                        accepted.iter().position(|x| x == m).map(|i| i.to_string()).unwrap_or_else(|| "?".to_string()),
                        match o {
                            Outcome::Ok | Outcome::Zero | Outcome::Count(_) => "k".to_string(),
                            Outcome::Os(n) => format!("e{}", 2000 + *n as i64),
                            Outcome::Err(id) => format!("e{}", id),
                            Outcome::Panic => "p".to_string(),
                        }
                    )
                })
                .collect()
        };
        // clean up: let everything run, close everything
        sched.release_all();
        for p in producers.iter_mut() {
            let _ = p.tx.send(Cmd::Quit);
        }
        let _ = sampler.tx.send(Cmd::Quit);
        // in-flight producers return now; results of accepted-but-unfinished sends are "k?" by construction
        drop(base);
        handles.clear();
        {
            let deadline = Instant::now() + Duration::from_millis(if problem.is_some() { 100 } else { 1000 });
            let mut st = rig.gate.m.lock().unwrap();
            while !st.dropped {
                let now = Instant::now();
                if now >= deadline {
                    break;
                }
                let (g, _) = rig.gate.cv.wait_timeout(st, deadline - now).unwrap();
                st = g;
            }
        }
        cadence::verif::uninstall();
        format!("R:{}|F:{}|DL:{}", out.join(","), fin, dl.join(";"))
    }
}

#[cfg(cadence_verif)]
pub fn run_sched(t: &[&str]) -> String {
    sched::run(t)
}

#[cfg(not(cadence_verif))]
pub fn run_sched(_t: &[&str]) -> String {
    "nohooks".to_string()
}
