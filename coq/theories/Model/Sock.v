(* Model of the socket-backed sinks of cadence/src/sinks/udp.rs and unix.rs: the unbuffered
   sinks are Stats.sock_emit (one send_to per emit); the buffered sinks are the line-buffering
   writer (Writer.sink_init: newline terminator, 512 bytes unless configured) over a write
   adapter that turns every underlying write into ONE send_to of exactly those bytes and feeds
   the result to SocketStats::update.  Definitions only. *)
Require Import Cadence.Base.Prelude.
Require Import Cadence.Model.Writer.
Require Import Cadence.Model.Stats.

(* Udp/UnixWriteAdapter::write: stats.update(socket.send_to(buf, dest), buf.len()) *)
Definition attempt_of_log (a : attempt) : attempt1 :=
  let len := N.of_nat (length (a_bytes a)) in
  {| at_len := len; at_res := match a_out a with WOk => Some len | _ => None end |}.

(* the statistics of a buffered socket sink after the underlying writes [lg] *)
Definition buffered_stats (lg : list attempt) : stats := updates stats0 (map attempt_of_log lg).

(* the datagrams it put on the wire, in order *)
Definition datagrams (dest : N) (lg : list attempt) : list send :=
  flat_map (fun a => match a_out a with
                     | WOk => [{| sd_dest := dest; sd_payload := a_bytes a |}]
                     | _ => []
                     end) lg.

(* QueuingMetricSink::stats / flush delegate to the wrapped sink *)
Definition queuing_stats (wrapped : stats) : stats := wrapped.
