(* Liveness of the queuing-sink machine: letting the background side run ([quiesce]) terminates
   in a state where nothing is left to do, performs only background events, and (with the
   invariant of the repaired machine) has then delivered everything that was accepted, in
   order, with exactly the scripted outcomes; after the last drop the worker has exited. *)
Require Import Cadence.Base.Prelude.
Require Import Cadence.Model.Queue.
Require Import Cadence.Proofs.QueueInv.

(* termination measure: every background event strictly decreases it *)
Definition mu (s : qstate) : nat :=
  4 * length (q_chan s) + q_pending_inc s + (if q_pill_pending s then 6 else 0) +
  match q_wk s with WHas _ => 3 | WCounted _ => 2 | _ => 0 end.

(* nothing on the background side is enabled: no bookkeeping, no worker step, no helper step,
   and the wrapped sink is not processing anything *)
Definition stuck (fixed : bool) (s : qstate) : Prop :=
  internal_step fixed s = None /\ forall o, step fixed s (EWFinish o) = None.

(* the outcomes the script assigns to the metrics still to be processed (exhausted = SOk) *)
Fixpoint answers (ids : list nat) (outs : list soutcome) : list (nat * soutcome) :=
  match ids with
  | [] => []
  | i :: r => match outs with
              | [] => (i, SOk) :: answers r []
              | o :: outs' => (i, o) :: answers r outs'
              end
  end.

Lemma answers_fst ids : forall outs, map fst (answers ids outs) = ids.
Proof.
  induction ids as [|i r IH]; intro outs; cbn [answers]; [reflexivity|].
  destruct outs; cbn [map fst]; rewrite IH; reflexivity.
Qed.

Lemma mu_fuel_of s : mu s < fuel_of s.
Proof. unfold mu, fuel_of. destruct (q_pill_pending s), (q_wk s); lia. Qed.

(* ------------------------------------------------------------------ internal steps *)
Lemma internal_step_cases fixed s s' : internal_step fixed s = Some s' ->
  exists ev, worker_side ev /\ ~ is_finish ev /\ step fixed s ev = Some (s', RNone).
Proof.
  unfold internal_step. intro H.
  destruct (step fixed s EIncSubmitted) as [[s1 r1]|] eqn:E1.
  { injection H as <-. exists EIncSubmitted.
    destruct (step_worker_side _ _ _ _ _ E1 I) as (_ & _ & ->). cbn; auto. }
  destruct (step fixed s EWStep) as [[s2 r2]|] eqn:E2.
  { injection H as <-. exists EWStep.
    destruct (step_worker_side _ _ _ _ _ E2 I) as (_ & _ & ->). cbn; auto. }
  destruct (step fixed s EWDequeue) as [[s3 r3]|] eqn:E3.
  { injection H as <-. exists EWDequeue.
    destruct (step_worker_side _ _ _ _ _ E3 I) as (_ & _ & ->). cbn; auto. }
  destruct (step fixed s EPillSend) as [[s4 r4]|] eqn:E4; [|discriminate].
  injection H as <-. exists EPillSend.
  destruct (step_worker_side _ _ _ _ _ E4 I) as (_ & _ & ->). cbn; auto.
Qed.

Lemma internal_none fixed s : internal_step fixed s = None ->
  step fixed s EIncSubmitted = None /\ step fixed s EWStep = None /\
  step fixed s EWDequeue = None /\ step fixed s EPillSend = None.
Proof.
  unfold internal_step. intro H.
  destruct (step fixed s EIncSubmitted) as [[s1 r1]|]; [discriminate|].
  destruct (step fixed s EWStep) as [[s2 r2]|]; [discriminate|].
  destruct (step fixed s EWDequeue) as [[s3 r3]|]; [discriminate|].
  destruct (step fixed s EPillSend) as [[s4 r4]|]; [discriminate|]. auto.
Qed.

Lemma mu_step fixed s ev s' r : worker_side ev -> step fixed s ev = Some (s', r) -> mu s' < mu s.
Proof.
  intros W H. destruct ev; try (exfalso; exact W).
  - unfold mu. step_inv H. prj. destruct (q_pill_pending s), (q_wk s); lia.
  - cbn [step] in H. destruct (q_pill_pending s) eqn:Ep; [|discriminate].
    destruct (room s) eqn:Er; [|discriminate]. cbn [andb] in H.
    apply room_true_cases in Er. unfold put in H.
    destruct (q_cap s) as [[|c]|]; injection H as <- <-; unfold mu; prj; rewrite ?Ep.
    + destruct Er as [-> ->]. cbn [length]. lia.
    + rewrite app_length. cbn [length]. destruct (q_wk s); lia.
    + rewrite app_length. cbn [length]. destruct (q_wk s); lia.
  - unfold mu. step_inv H. prj. cbn [length]. destruct (q_pill_pending s); lia.
  - unfold mu. step_inv H; prj; destruct (q_pill_pending s); lia.
  - unfold mu. step_inv H; prj; destruct (q_pill_pending s); lia.
Qed.

(* what is still to be processed is unchanged by internal steps *)
Lemma pending_internal fixed s ev s' r :
  worker_side ev -> ~ is_finish ev -> step fixed s ev = Some (s', r) ->
  pending_ids s' = pending_ids s /\ q_delivered s' = q_delivered s.
Proof.
  intros W N H. destruct ev; try (exfalso; exact W); try (exfalso; apply N; exact I).
  - unfold pending_ids. step_inv H. prj. auto.
  - cbn [step] in H. destruct (q_pill_pending s) eqn:Ep; [|discriminate].
    destruct (room s) eqn:Er; [|discriminate]. cbn [andb] in H.
    apply room_true_cases in Er. unfold put in H.
    destruct (q_cap s) as [[|c]|]; injection H as <- <-; unfold pending_ids; prj.
    + destruct Er as [-> ->]. auto.
    + rewrite somes_app. cbn [somes]. rewrite app_nil_r. auto.
    + rewrite somes_app. cbn [somes]. rewrite app_nil_r. auto.
  - unfold pending_ids. step_inv H. prj.
    match goal with o : option nat |- _ => destruct o end; cbn [inflight somes app]; auto.
  - unfold pending_ids. step_inv H; prj; cbn [inflight somes app]; auto.
Qed.

(* ------------------------------------------------------------------ quiesce *)
(* quiesce is a real continuation of the history made of background events only *)
Lemma quiesce_run fixed fuel : forall s outs,
  exists evs rs, Forall worker_side evs /\ run fixed s evs = Some (quiesce fixed fuel s outs, rs).
Proof.
  induction fuel as [|f IH]; intros s outs; cbn [quiesce].
  - exists [], []. split; [constructor | reflexivity].
  - destruct (internal_step fixed s) as [s1|] eqn:Ei.
    + apply internal_step_cases in Ei. destruct Ei as (ev & W & _ & E).
      destruct (IH s1 outs) as (evs & rs & Wf & R).
      exists (ev :: evs), (RNone :: rs). split; [constructor; assumption|].
      cbn [run]. rewrite E, R. reflexivity.
    + destruct outs as [|o outs'].
      * destruct (step fixed s (EWFinish SOk)) as [[s1 r1]|] eqn:E.
        -- destruct (IH s1 []) as (evs & rs & Wf & R).
           exists (EWFinish SOk :: evs), (r1 :: rs). split; [constructor; [exact I | assumption]|].
           cbn [run]. rewrite E, R. reflexivity.
        -- exists [], []. split; [constructor | reflexivity].
      * destruct (step fixed s (EWFinish o)) as [[s1 r1]|] eqn:E.
        -- destruct (IH s1 outs') as (evs & rs & Wf & R).
           exists (EWFinish o :: evs), (r1 :: rs). split; [constructor; [exact I | assumption]|].
           cbn [run]. rewrite E, R. reflexivity.
        -- exists [], []. split; [constructor | reflexivity].
Qed.

Lemma finish_none_all fixed s o : step fixed s (EWFinish o) = None ->
  forall o', step fixed s (EWFinish o') = None.
Proof. cbn [step]. destruct (q_wk s); try discriminate; reflexivity. Qed.

(* with enough fuel it ends in a state where nothing is enabled on the background side *)
Lemma quiesce_stuck fixed fuel : forall s outs, mu s < fuel -> stuck fixed (quiesce fixed fuel s outs).
Proof.
  induction fuel as [|f IH]; intros s outs Hmu; [lia|]. cbn [quiesce].
  destruct (internal_step fixed s) as [s1|] eqn:Ei.
  - pose proof Ei as Ei'. apply internal_step_cases in Ei'. destruct Ei' as (ev & W & _ & E).
    apply IH. pose proof (mu_step _ _ _ _ _ W E). lia.
  - destruct outs as [|o outs'].
    + destruct (step fixed s (EWFinish SOk)) as [[s1 r1]|] eqn:E.
      * apply IH. pose proof (mu_step _ _ (EWFinish _) _ _ I E). lia.
      * split; [exact Ei | apply (finish_none_all _ _ _ E)].
    + destruct (step fixed s (EWFinish o)) as [[s1 r1]|] eqn:E.
      * apply IH. pose proof (mu_step _ _ (EWFinish _) _ _ I E). lia.
      * split; [exact Ei | apply (finish_none_all _ _ _ E)].
Qed.

(* ------------------------------------------------------------------ stuck states of the repaired machine *)
Lemma stuck_inv s : Inv s -> stuck true s ->
  q_chan s = [] /\ q_pending_inc s = 0 /\ q_pill_pending s = false /\
  ((q_handles s <> 0 /\ q_wk s = WRecv) \/ (q_handles s = 0 /\ q_wk s = WExited)).
Proof.
  intros [Hc Hm Hs Hst Hb Hsub Hd Hp Hh Hsa Hss] [Hi Hf].
  apply internal_none in Hi. destruct Hi as (E1 & E2 & E3 & E4).
  specialize (Hf SOk). cbn [step] in *. unfold markers in Hm.
  destruct (q_pending_inc s); [|discriminate].
  destruct (q_wk s) as [|x|m|] eqn:Ew; try discriminate; try (destruct x; discriminate).
  - destruct (q_chan s) as [|x rest] eqn:Ech; [|discriminate].
    assert (Er : room s = true).
    { unfold room. rewrite Ew, Ech. destruct (q_cap s) as [[|c]|]; reflexivity. }
    rewrite Er, andb_true_r in E4.
    destruct (q_pill_pending s); [discriminate|].
    cbn [nones wk_marker] in Hm. repeat split; auto.
    destruct (q_handles s); [lia|]. left. split; [discriminate | reflexivity].
  - cbn [wk_marker] in *. rewrite (Hst eq_refl) in *. cbn [nones] in Hm.
    destruct (q_handles s); [|lia].
    destruct (q_pill_pending s); [lia|]. repeat split; auto.
Qed.

Lemma stuck_all_delivered s : Inv s -> stuck true s ->
  pending_ids s = [] /\ map fst (q_delivered s) = seq 0 (q_accepted s) /\
  q_submitted s = q_accepted s /\ q_drained s = q_accepted s /\ queued_now s = 0.
Proof.
  intros HI Hs. pose proof (stuck_inv s HI Hs) as (Ech & Epi & Epp & Hw).
  destruct HI as [Hc Hm _ Hst Hb Hsub Hd Hp Hh Hsa Hss].
  assert (Ein : inflight (q_wk s) = [] /\ counted (q_wk s) = 0).
  { destruct Hw as [[_ ->]|[_ ->]]; auto. }
  destruct Ein as [Ein Ecn]. unfold pending_ids.
  rewrite Ech, Ein in *. cbn [somes app] in *. rewrite app_nil_r in Hc.
  assert (El : length (q_delivered s) = q_accepted s).
  { rewrite <- (map_length fst), Hc, seq_length. reflexivity. }
  unfold queued_now. repeat split; auto; try lia.
  replace (q_drained s <? q_submitted s) with false; [reflexivity|].
  symmetry. apply Nat.ltb_ge. lia.
Qed.

(* ------------------------------------------------------------------ the main statement *)
Lemma quiesce_inv fuel s outs : Inv s -> Inv (quiesce true fuel s outs).
Proof.
  intro HI. destruct (quiesce_run true fuel s outs) as (evs & rs & _ & R).
  eapply inv_run; eassumption.
Qed.

Lemma quiesce_delivered fuel : forall s outs, Inv s -> mu s < fuel ->
  q_delivered (quiesce true fuel s outs) = q_delivered s ++ answers (pending_ids s) outs.
Proof.
  induction fuel as [|f IH]; intros s outs HI Hmu; [lia|]. cbn [quiesce].
  destruct (internal_step true s) as [s1|] eqn:Ei.
  - pose proof Ei as Ei'. apply internal_step_cases in Ei'. destruct Ei' as (ev & W & N & E).
    pose proof (mu_step _ _ _ _ _ W E). pose proof (pending_internal _ _ _ _ _ W N E) as [Ep Ed].
    rewrite IH; [rewrite Ep, Ed; reflexivity | eapply inv_step; eassumption | lia].
  - assert (Hgen : forall o outs', answers (pending_ids s) outs = answers (pending_ids s) (o :: outs') \/ outs = [] /\ o = SOk /\ outs' = [] ->
      q_delivered match step true s (EWFinish o) with
                  | Some (s', _) => quiesce true f s' outs'
                  | None => s
                  end = q_delivered s ++ answers (pending_ids s) outs).
    { intros o outs' Hans.
      destruct (step true s (EWFinish o)) as [[s1 r1]|] eqn:E.
      - pose proof (mu_step _ _ (EWFinish _) _ _ I E). pose proof (inv_step _ _ _ _ HI E) as HI1.
        rewrite IH; [|exact HI1|lia].
        apply step_finish_spec in E. destruct E as (id & Ew & Ew' & _ & Ed & _ & _ & Ech & _).
        unfold pending_ids in *. rewrite Ew, Ew', Ech, Ed in *. cbn [inflight app] in *.
        rewrite <- app_assoc. cbn [app]. f_equal.
        destruct Hans as [->|(-> & -> & ->)]; reflexivity.
      - assert (St : stuck true s) by (split; [exact Ei | apply (finish_none_all _ _ _ E)]).
        destruct (stuck_all_delivered s HI St) as (-> & _). cbn [answers]. rewrite app_nil_r. reflexivity. }
    destruct outs as [|o outs']; apply Hgen; auto.
Qed.

Lemma run_worker_side fixed evs : forall s s' rs,
  Forall worker_side evs -> run fixed s evs = Some (s', rs) ->
  q_handles s' = q_handles s /\ q_accepted s' = q_accepted s /\ Forall (fun r => r = RNone) rs.
Proof.
  induction evs as [|ev evs IH]; intros s s' rs W H; cbn [run] in H.
  - injection H as <- <-. auto.
  - destruct (step fixed s ev) as [[s1 x]|] eqn:E; [|discriminate].
    destruct (run fixed s1 evs) as [[s2 xs]|] eqn:E2; [|discriminate].
    injection H as <- <-. inversion W as [|? ? W1 W2]; subst.
    destruct (step_worker_side _ _ _ _ _ E W1) as (A & B & ->).
    destruct (IH _ _ _ W2 E2) as (A2 & B2 & C2).
    repeat split; try congruence. constructor; auto.
Qed.

(* From every state satisfying the invariant, for every outcome script and enough fuel, the
   continuation by background events reaches a state where everything accepted has been
   delivered exactly once, in order, with the scripted outcomes; the worker waits for more
   (a handle is alive) or has exited and released the wrapped sink (no handle is left). *)
Theorem quiesce_spec fuel s outs : Inv s -> mu s < fuel ->
  let s' := quiesce true fuel s outs in
  (exists wevs wrs, Forall worker_side wevs /\ run true s wevs = Some (s', wrs)) /\
  stuck true s' /\
  q_delivered s' = q_delivered s ++ answers (pending_ids s) outs /\
  map fst (q_delivered s') = seq 0 (q_accepted s) /\
  q_accepted s' = q_accepted s /\ q_handles s' = q_handles s /\
  q_chan s' = [] /\ q_pending_inc s' = 0 /\ q_pill_pending s' = false /\
  q_submitted s' = q_accepted s /\ q_drained s' = q_accepted s /\
  (q_handles s <> 0 -> q_wk s' = WRecv) /\
  (q_handles s = 0 -> q_wk s' = WExited /\ sink_released s' = true).
Proof.
  intros HI Hmu s'.
  pose proof (quiesce_run true fuel s outs) as (wevs & wrs & W & R). fold s' in R.
  pose proof (quiesce_stuck true fuel s outs Hmu) as St. fold s' in St.
  pose proof (quiesce_delivered fuel s outs HI Hmu) as Ed. fold s' in Ed.
  pose proof (inv_run _ _ _ _ HI R) as HI'.
  destruct (run_worker_side _ _ _ _ _ W R) as (Eh & Ea & _).
  destruct (stuck_all_delivered s' HI' St) as (_ & Eall & Esub & Edr & _).
  destruct (stuck_inv s' HI' St) as (Ech & Epi & Epp & Hw).
  split; [exists wevs, wrs; auto|].
  split; [exact St|]. split; [exact Ed|].
  do 8 (split; [congruence|]).
  split.
  - intro Hh. destruct Hw as [[_ E]|[E _]]; [exact E | congruence].
  - intro Hh. unfold sink_released.
    destruct Hw as [[E _]|[E1 E2]]; [congruence | rewrite E1, E2; auto].
Qed.

(* the same for every reachable state; [fuel_of] is always enough *)
Theorem eventually cap handler evs s rs outs fuel :
  run true (init_q cap handler) evs = Some (s, rs) -> mu s < fuel ->
  let s' := quiesce true fuel s outs in
  (exists wevs wrs, Forall worker_side wevs /\ run true s wevs = Some (s', wrs) /\
                    run true (init_q cap handler) (evs ++ wevs) = Some (s', rs ++ wrs)) /\
  stuck true s' /\
  q_delivered s' = q_delivered s ++ answers (pending_ids s) outs /\
  map fst (q_delivered s') = seq 0 (q_accepted s) /\
  q_accepted s' = q_accepted s /\ q_handles s' = q_handles s /\
  q_chan s' = [] /\ q_pending_inc s' = 0 /\ q_pill_pending s' = false /\
  q_submitted s' = q_accepted s /\ q_drained s' = q_accepted s /\
  (q_handles s <> 0 -> q_wk s' = WRecv) /\
  (q_handles s = 0 -> q_wk s' = WExited /\ sink_released s' = true).
Proof.
  intros R Hmu s'. pose proof (inv_reach _ _ _ _ _ R) as HI.
  destruct (quiesce_spec fuel s outs HI Hmu) as ((wevs & wrs & W & R2) & rest).
  split; [|exact rest]. exists wevs, wrs. repeat split; auto.
  eapply run_app; eassumption.
Qed.

Corollary eventually_fuel_of cap handler evs s rs outs :
  run true (init_q cap handler) evs = Some (s, rs) ->
  let s' := quiesce true (fuel_of s) s outs in
  (exists wevs wrs, Forall worker_side wevs /\ run true s wevs = Some (s', wrs)) /\
  map fst (q_delivered s') = seq 0 (q_accepted s) /\
  q_delivered s' = q_delivered s ++ answers (pending_ids s) outs /\
  (q_handles s = 0 -> q_wk s' = WExited /\ sink_released s' = true).
Proof.
  intros R s'. destruct (eventually cap handler evs s rs outs (fuel_of s) R (mu_fuel_of s))
    as ((wevs & wrs & W & R2 & _) & _ & Ed & Em & _ & _ & _ & _ & _ & _ & _ & _ & Hx).
  split; [exists wevs, wrs; auto|]. auto.
Qed.

(* ------------------------------------------------------------------ after the last drop *)
Theorem last_drop cap handler evs s rs outs fuel :
  run true (init_q cap handler) evs = Some (s, rs) -> q_handles s = 0 -> mu s < fuel ->
  let s' := quiesce true fuel s outs in
  (exists wevs wrs, Forall worker_side wevs /\ run true s wevs = Some (s', wrs)) /\
  q_wk s' = WExited /\ sink_released s' = true /\
  q_delivered s' = q_delivered s ++ answers (pending_ids s) outs /\
  map fst (q_delivered s') = seq 0 (q_accepted s) /\
  q_chan s' = [] /\ q_pill_pending s' = false.
Proof.
  intros R Hh Hmu s'.
  destruct (eventually cap handler evs s rs outs fuel R Hmu)
    as ((wevs & wrs & W & R2 & _) & _ & Ed & Em & _ & _ & Ech & _ & Epp & _ & _ & _ & Hx).
  destruct (Hx Hh) as [A B].
  split; [exists wevs, wrs; auto|]. auto 10.
Qed.

(* ------------------------------------------------------------------ panics *)
Lemma answers_repeat (o : soutcome) ids : forall n, length ids <= n ->
  answers ids (repeat o n) = map (fun i => (i, o)) ids.
Proof.
  induction ids as [|i r IH]; intros n Hn; [reflexivity|].
  destruct n as [|n]; cbn [length] in Hn; [lia|].
  cbn [repeat answers map]. rewrite IH; [reflexivity | lia].
Qed.

Lemma npanics_all_panic ids : npanics (map (fun i => (i, SPanic)) ids) = length ids.
Proof. induction ids as [|i r IH]; cbn [map npanics length]; [reflexivity | rewrite IH; reflexivity]. Qed.

(* the wrapped sink panics on EVERY remaining metric (also while a stop is pending): each is
   consumed exactly once, in order, the panic count is exact, and the worker still ends
   waiting (handle alive) or exited with the wrapped sink released (no handle left) *)
Theorem all_panic cap handler evs s rs fuel :
  run true (init_q cap handler) evs = Some (s, rs) -> mu s < fuel ->
  let s' := quiesce true fuel s (repeat SPanic (length (pending_ids s))) in
  q_delivered s' = q_delivered s ++ map (fun i => (i, SPanic)) (pending_ids s) /\
  map fst (q_delivered s') = seq 0 (q_accepted s) /\
  q_panics s' = q_panics s + length (pending_ids s) /\
  (q_handles s <> 0 -> q_wk s' = WRecv) /\
  (q_handles s = 0 -> q_wk s' = WExited /\ sink_released s' = true).
Proof.
  intros R Hmu s'.
  destruct (eventually cap handler evs s rs (repeat SPanic (length (pending_ids s))) fuel R Hmu)
    as ((wevs & wrs & W & R2 & R3) & _ & Ed & Em & _ & _ & _ & _ & _ & _ & _ & Hl & Hx).
  fold s' in Ed, Em, Hl, Hx, R3.
  rewrite answers_repeat in Ed by lia.
  split; [exact Ed|]. split; [exact Em|]. split; [|auto].
  rewrite (reach_panics _ _ _ _ _ R3), (reach_panics _ _ _ _ _ R), Ed, npanics_app, npanics_all_panic.
  reflexivity.
Qed.

(* right after a panic the worker (respawned) waits in recv again and try_send behaves as ever *)
Lemma after_panic fixed s s' r : step fixed s (EWFinish SPanic) = Some (s', r) ->
  q_wk s' = WRecv /\ q_panics s' = S (q_panics s) /\
  q_cap s' = q_cap s /\ q_chan s' = q_chan s /\ q_handles s' = q_handles s /\
  (q_handles s <> 0 ->
   exists s'', step fixed s' ETrySend = Some (s'', if room s' then ROk else RFull)).
Proof.
  intro H. destruct (step_cfg _ _ _ _ _ H) as [Ec _].
  apply step_finish_spec in H.
  destruct H as (id & _ & Ew & _ & _ & _ & Ep & Ech & Eh & _).
  split; [exact Ew|]. split; [lia|]. split; [exact Ec|]. split; [exact Ech|]. split; [exact Eh|].
  intro L. apply trysend_spec. congruence.
Qed.

(* ... and in a reachable state there is room again unless the bounded queue is full *)
Lemma after_panic_room cap handler evs s rs :
  run true (init_q cap handler) (evs ++ [EWFinish SPanic]) = Some (s, rs) ->
  q_wk s = WRecv /\
  room s = match cap with
           | None => true
           | Some 0 => true
           | Some (S c) => length (q_chan s) <? S c
           end.
Proof.
  intro R. pose proof R as R'. apply run_split in R'.
  destruct R' as (s1 & rs1 & rs2 & R1 & R2 & _). cbn [run] in R2.
  destruct (step true s1 (EWFinish SPanic)) as [[s2 x]|] eqn:E; [|discriminate].
  injection R2 as <- _. destruct (after_panic _ _ _ _ E) as (Ew & _).
  split; [exact Ew|]. rewrite room_spec, Ew.
  destruct (run_cfg _ _ _ _ _ R) as [Ec _]. cbn in Ec. rewrite Ec.
  destruct cap as [[|c]|]; try reflexivity.
  destruct (reach_bound _ _ _ _ _ 0 R eq_refl) as [_ Hb].
  destruct (q_chan s2); [reflexivity | cbn [length] in Hb; lia].
Qed.

(* the panic count after the background side has run: the panics so far plus those scripted for
   the metrics that were still to be processed *)
Theorem panics_eventually cap handler evs s rs outs fuel :
  run true (init_q cap handler) evs = Some (s, rs) -> mu s < fuel ->
  let s' := quiesce true fuel s outs in
  q_panics s' = q_panics s + npanics (answers (pending_ids s) outs) /\
  q_panics s' = npanics (q_delivered s').
Proof.
  intros R Hmu s'.
  destruct (eventually cap handler evs s rs outs fuel R Hmu)
    as ((wevs & wrs & W & R2 & R3) & _ & Ed & _).
  fold s' in Ed, R3.
  rewrite (reach_panics _ _ _ _ _ R3), (reach_panics _ _ _ _ _ R), Ed, npanics_app. auto.
Qed.

(* ------------------------------------------------------------------ counters and handler log once settled *)
Theorem settled_counters cap handler evs s rs outs fuel :
  run true (init_q cap handler) evs = Some (s, rs) -> mu s < fuel ->
  let s' := quiesce true fuel s outs in
  q_submitted s' = count_ok rs /\ q_drained s' = count_ok rs /\
  length (q_delivered s') = count_ok rs /\ queued_now s' = 0.
Proof.
  intros R Hmu s'.
  destruct (eventually cap handler evs s rs outs fuel R Hmu)
    as (_ & _ & _ & Em & _ & _ & _ & _ & _ & Es & Ed & _).
  fold s' in Em, Es, Ed.
  destruct (run_accepted _ _ _ _ _ R) as [Ea _]. cbn in Ea.
  apply (f_equal (@length nat)) in Em. rewrite map_length, seq_length in Em.
  unfold queued_now. rewrite Es, Ed, Nat.ltb_irrefl. repeat split; congruence.
Qed.

Theorem no_handler_eventually cap evs s rs outs fuel :
  run true (init_q cap false) evs = Some (s, rs) -> mu s < fuel ->
  let s' := quiesce true fuel s outs in
  q_handled s = [] /\ q_handled s' = [] /\
  map fst (q_delivered s) ++ inflight (q_wk s) ++ somes (q_chan s) = seq 0 (q_accepted s) /\
  q_delivered s' = q_delivered s ++ answers (pending_ids s) outs /\
  map fst (q_delivered s') = seq 0 (q_accepted s).
Proof.
  intros R Hmu s'.
  destruct (eventually cap false evs s rs outs fuel R Hmu)
    as ((wevs & wrs & _ & _ & R3) & _ & Ed & Em & _).
  fold s' in R3, Ed, Em.
  split; [exact (reach_handled _ _ _ _ _ R)|]. split; [exact (reach_handled _ _ _ _ _ R3)|].
  split; [exact (I_commit s (inv_reach _ _ _ _ _ R))|]. auto.
Qed.

Theorem handler_eventually cap evs s rs outs fuel :
  run true (init_q cap true) evs = Some (s, rs) -> mu s < fuel ->
  let s' := quiesce true fuel s outs in
  q_handled s' = q_handled s ++ errs (answers (pending_ids s) outs).
Proof.
  intros R Hmu s'.
  destruct (eventually cap true evs s rs outs fuel R Hmu)
    as ((wevs & wrs & _ & _ & R3) & _ & Ed & _).
  fold s' in R3, Ed.
  rewrite (reach_handled _ _ _ _ _ R3), (reach_handled _ _ _ _ _ R), Ed, errs_app. reflexivity.
Qed.

Theorem panic_script_eventually cap handler evs s rs outs fuel :
  run true (init_q cap handler) evs = Some (s, rs) -> mu s < fuel ->
  let s' := quiesce true fuel s outs in
  q_delivered s' = q_delivered s ++ answers (pending_ids s) outs /\
  map fst (q_delivered s') = seq 0 (q_accepted s) /\
  q_panics s' = q_panics s + npanics (answers (pending_ids s) outs) /\
  (q_handles s <> 0 -> q_wk s' = WRecv) /\
  (q_handles s = 0 -> q_wk s' = WExited /\ sink_released s' = true).
Proof.
  intros R Hmu s'.
  destruct (eventually cap handler evs s rs outs fuel R Hmu)
    as (_ & _ & Ed & Em & _ & _ & _ & _ & _ & _ & _ & Hl & Hx).
  destruct (panics_eventually cap handler evs s rs outs fuel R Hmu) as [Ep _].
  auto.
Qed.

Theorem last_drop_fuel_of cap handler evs s rs outs :
  run true (init_q cap handler) evs = Some (s, rs) -> q_handles s = 0 ->
  let s' := quiesce true (fuel_of s) s outs in
  q_wk s' = WExited /\ sink_released s' = true /\
  q_delivered s' = q_delivered s ++ answers (pending_ids s) outs /\
  map fst (q_delivered s') = seq 0 (q_accepted s).
Proof.
  intros R Hh s'.
  destruct (last_drop cap handler evs s rs outs (fuel_of s) R Hh (mu_fuel_of s))
    as (_ & A & B & C & D & _). auto.
Qed.

(* ------------------------------------------------------------------ the harness-level (macro-step) view *)
(* [settle] is a run of background events that are not completions of the wrapped sink *)
Lemma settle_run fixed fuel : forall s,
  exists evs rs, Forall worker_side evs /\ Forall (fun ev => ~ is_finish ev) evs /\
                 run fixed s evs = Some (settle fixed fuel s, rs).
Proof.
  induction fuel as [|f IH]; intros s; cbn [settle].
  - exists [], []. repeat split; constructor.
  - destruct (internal_step fixed s) as [s1|] eqn:Ei.
    + apply internal_step_cases in Ei. destruct Ei as (ev & W & N & E).
      destruct (IH s1) as (evs & rs & Wf & Nf & R).
      exists (ev :: evs), (RNone :: rs). split; [constructor; assumption|].
      split; [constructor; assumption|]. cbn [run]. rewrite E, R. reflexivity.
    + exists [], []. repeat split; constructor.
Qed.

(* with enough fuel it stops only when no internal step is enabled: the worker then waits for
   the wrapped sink, for a message, or has exited *)
Lemma settle_done fixed fuel : forall s, mu s < fuel -> internal_step fixed (settle fixed fuel s) = None.
Proof.
  induction fuel as [|f IH]; intros s Hmu; [lia|]. cbn [settle].
  destruct (internal_step fixed s) as [s1|] eqn:Ei; [|exact Ei].
  pose proof Ei as Ei'. apply internal_step_cases in Ei'. destruct Ei' as (ev & W & _ & E).
  apply IH. pose proof (mu_step _ _ _ _ _ W E). lia.
Qed.

(* every macro-step of the correspondence harness is a run of the small-step machine *)
Lemma act_run fixed s a :
  exists evs rs, run fixed s evs = Some (fst (act fixed s a), rs).
Proof.
  assert (Hnil : exists evs rs, run fixed s evs = Some (s, rs)) by (exists [], []; reflexivity).
  assert (Hgen : forall ev s1 x, step fixed s ev = Some (s1, x) ->
            exists evs rs, run fixed s evs = Some (settle fixed (fuel_of s1) s1, rs)).
  { intros ev s1 x E. destruct (settle_run fixed (fuel_of s1) s1) as (evs & rs & _ & _ & R).
    exists (ev :: evs), (x :: rs). cbn [run]. rewrite E, R. reflexivity. }
  destruct a; cbn [act].
  - destruct (step fixed s ETrySend) as [[s1 x]|] eqn:E; cbn [fst]; [eapply Hgen; exact E | exact Hnil].
  - destruct (step fixed s EClone) as [[s1 x]|] eqn:E; cbn [fst]; [eapply Hgen; exact E | exact Hnil].
  - destruct (step fixed s EDropH) as [[s1 x]|] eqn:E; cbn [fst]; [eapply Hgen; exact E | exact Hnil].
  - destruct (step fixed s (EWFinish o)) as [[s1 x]|] eqn:E; cbn [fst]; [eapply Hgen; exact E | exact Hnil].
  - cbn [fst]. exact Hnil.
Qed.

Lemma acts_run fixed l : forall s,
  exists evs rs, run fixed s evs = Some (fst (acts fixed s l), rs).
Proof.
  induction l as [|a l IH]; intro s; cbn [acts].
  - exists [], []. reflexivity.
  - destruct (act fixed s a) as [s1 o] eqn:Ea.
    destruct (acts fixed s1 l) as [s2 os] eqn:El. cbn [fst].
    destruct (act_run fixed s a) as (evs1 & rs1 & R1). rewrite Ea in R1. cbn [fst] in R1.
    destruct (IH s1) as (evs2 & rs2 & R2). rewrite El in R2. cbn [fst] in R2.
    exists (evs1 ++ evs2), (rs1 ++ rs2). eapply run_app; eassumption.
Qed.

(* hence every state the harness-level scripts reach is a reachable state of the small-step
   machine: the invariant and all its consequences apply to it *)
Theorem acts_reach cap handler l :
  exists evs rs, run true (init_q cap handler) evs = Some (fst (acts true (init_q cap handler) l), rs) /\
                 Inv (fst (acts true (init_q cap handler) l)).
Proof.
  destruct (acts_run true l (init_q cap handler)) as (evs & rs & R).
  exists evs, rs. split; [exact R | exact (inv_reach _ _ _ _ _ R)].
Qed.
