//! `singleton`: cadence_macros::SingletonHolder under a controlled scheduler (hook H1,
//! `cadence_macros::verif`).
//!
//! Every traced operation of `state.rs` (atomic load / store / compare_exchange on `state`,
//! `UnsafeCell::get` on `value`) calls the tracer installed here BEFORE it runs; the tracer
//! parks the calling OS thread on a Mutex + Condvar until the controller grants it exactly one
//! operation.  Each park takes a fresh ticket and the controller flips the thread's status away
//! from "parked" when it grants, so a stale "parked" record can never be mistaken for a new one.
//! A fresh `SingletonHolder<Payload>` is used for every schedule.
//!
//! case:   A <prog>            every SC interleaving of the program (depth-first, lowest thread first)
//!         G <prog> <sched>    exactly this schedule, in a fresh process, on the process-wide holder of cadence-macros
//!                             (s<id> = set_global_default of a client whose sink knows the id, g = get_global_default,
//!                             i = is_global_default_set)
//!         S <prog> <sched>    exactly this schedule (string of thread digits; entries naming a thread
//!                             that has finished are skipped and counted in `stuck`; when the string is
//!                             exhausted the lowest runnable thread continues)
//!   prog = threads separated by '/', calls separated by '.':  s<id> (set with payload id) | g (get) | i (is_set)
//!          | d (format the holder with {:?}; result token d)
//! observation:  n=<number of entries> <entry>;<entry>;...
//!   entry   = <sched>|<ops>|<results>      followed, only when something is abnormal, by
//!             |!same=<0|1>,intact=<0|1>,stuck=<n>,overflow=<0|1>
//!   ops     = comma separated  <thread>.<call index>.<op>
//!     op    = C<success><failure>:<current>:<new>:k<previous> | C..:e<actual>   compare_exchange
//!           | L<order><value read> | S<order><value stored>
//!           | W | R          UnsafeCell::get inside set (W) / inside get or is_set (R)
//!     orderings: r l a q s = Relaxed Release Acquire AcqRel SeqCst
//!   results = threads separated by '/', per thread '.' separated:  u (set returned) | n (get: None)
//!           | v<id> (get: Some, payload id) | t | f (is_set) | p (panicked; the thread stops)
//!   same    = all values returned by get in this schedule are the same Arc (Arc::ptr_eq)
//!   intact  = every payload returned has the checksum it was built with (fully constructed)
//!   stuck   = schedule entries that named a thread that was not runnable
//!   overflow= more than 96 traced operations (e.g. a spin loop): the threads were released to run freely
use cadence_macros::verif::{self, Event, Op, Ordering, Outcome};
use cadence_macros::SingletonHolder;
use std::cell::{Cell, RefCell};
use std::sync::{Arc, Condvar, Mutex, Once};
use std::time::Duration;

const MAGIC: u64 = 0x9e37_79b9_7f4a_7c15;
const MAX_STEPS: usize = 96;

#[derive(Default, Debug)]
pub struct Payload {
    id: u64,
    check: u64,
    body: Vec<u64>,
}

impl Payload {
    fn new(id: u64) -> Payload {
        Payload {
            id,
            check: id.rotate_left(17) ^ MAGIC,
            body: vec![id; 4],
        }
    }
    fn intact(&self) -> bool {
        self.check == self.id.rotate_left(17) ^ MAGIC && self.body.len() == 4 && self.body.iter().all(|x| *x == self.id)
    }
}

#[derive(Clone, Copy, PartialEq, Debug)]
enum Call {
    Set(u64),
    Get,
    IsSet,
    /// format the holder with `{:?}` (the type derives Debug): not one of set / get / is_set, and expected to touch
    /// neither the cell nor - through a traced operation - the state
    Dbg,
}

enum Res {
    Unit,
    Dbg,
    Get(Option<Arc<Payload>>),
    /// get_global_default(): the id of the client returned (read off its sink) and the address of the Arc's content
    GetG(Option<(u64, usize)>),
    IsSet(bool),
    Panic,
}

#[derive(Clone, Copy, PartialEq, Debug)]
enum St {
    Running,
    Parked(u64),
    Granted(u64),
    Done,
}

/// Everything the controller and the worker threads share, under one mutex.
struct Inner {
    // job control: the worker threads live for a whole case and run one job per schedule
    generation: u64,
    quit: bool,
    holder: Option<Arc<SingletonHolder<Payload>>>,
    /// the calls go to the process-wide holder of cadence-macros through its free functions (one schedule per process)
    global: bool,
    results: Vec<Vec<Res>>,
    // one schedule
    status: Vec<St>,
    next_ticket: u64,
    log: Vec<String>,
    free_run: bool,
    started: bool,  // all threads have reached their first operation (or finished)
    finished: bool, // no runnable thread is left
    prefix: Vec<usize>,
    pos: usize,
    strict: bool,
    chosen: Vec<usize>,
    enabled_sets: Vec<Vec<usize>>,
    stuck: usize,
    overflow: bool,
    error: Option<String>,
}

struct Sched {
    m: Mutex<Inner>,
    ctl: Condvar,      // the controller waits here
    cvs: Vec<Condvar>, // worker thread t waits on cvs[t]
}

struct Role {
    tid: usize,
    call: Cell<usize>,
    in_set: Cell<bool>,
    sched: Arc<Sched>,
}

thread_local! {
    static ROLE: RefCell<Option<Role>> = RefCell::new(None);
}

fn ord(o: Ordering) -> char {
    match o {
        Ordering::Relaxed => 'r',
        Ordering::Release => 'l',
        Ordering::Acquire => 'a',
        Ordering::AcqRel => 'q',
        Ordering::SeqCst => 's',
        _ => '?',
    }
}

fn show(op: &Op, outcome: &Outcome, in_set: bool) -> String {
    match (op, outcome) {
        (Op::Load { order }, Outcome::Loaded(v)) => format!("L{}{}", ord(*order), v),
        (Op::Store { val, order }, _) => format!("S{}{}", ord(*order), val),
        (
            Op::CompareExchange {
                current,
                new,
                success,
                failure,
            },
            Outcome::Exchanged(r),
        ) => {
            let res = match r {
                Ok(p) => format!("k{}", p),
                Err(a) => format!("e{}", a),
            };
            format!("C{}{}:{}:{}:{}", ord(*success), ord(*failure), current, new, res)
        }
        (Op::CellGet, _) => (if in_set { "W" } else { "R" }).to_string(),
        _ => "?".to_string(),
    }
}

/// Choose the thread that performs the next traced operation and grant it.  Called with the
/// lock held at a moment when every thread is parked or done (exactly one thread runs at a
/// time: the one that was granted last; it calls this when it parks again or finishes).
fn decide(g: &mut Inner, sched: &Sched) {
    let n = g.status.len();
    let enabled: Vec<usize> = (0..n).filter(|t| matches!(g.status[*t], St::Parked(_))).collect();
    if enabled.is_empty() {
        g.finished = true;
        sched.ctl.notify_one();
        return;
    }
    if g.chosen.len() >= MAX_STEPS {
        g.overflow = true;
        g.free_run = true;
        for c in &sched.cvs {
            c.notify_all();
        }
        return;
    }
    let mut choice = enabled[0];
    while g.pos < g.prefix.len() {
        let want = g.prefix[g.pos];
        g.pos += 1;
        if enabled.contains(&want) {
            choice = want;
            break;
        }
        if g.strict {
            g.error = Some(format!("schedule prefix not reproducible (thread {} not runnable)", want));
        }
        g.stuck += 1;
    }
    if let St::Parked(tk) = g.status[choice] {
        g.status[choice] = St::Granted(tk);
    }
    g.chosen.push(choice);
    g.enabled_sets.push(enabled);
    sched.cvs[choice].notify_one();
}

fn on_event(role: &Role, ev: &Event) {
    let sched = &role.sched;
    match ev {
        Event::Before { .. } => {
            let mut g = sched.m.lock().unwrap();
            if g.free_run {
                return;
            }
            let tk = g.next_ticket;
            g.next_ticket += 1;
            g.status[role.tid] = St::Parked(tk);
            if g.started {
                decide(&mut g, sched);
            } else {
                sched.ctl.notify_one();
            }
            while !(g.free_run || g.status[role.tid] == St::Granted(tk)) {
                g = sched.cvs[role.tid].wait(g).unwrap();
            }
            g.status[role.tid] = St::Running;
        }
        Event::After { op, outcome, .. } => {
            let mut g = sched.m.lock().unwrap();
            let tok = format!("{}.{}.{}", role.tid, role.call.get(), show(op, outcome, role.in_set.get()));
            g.log.push(tok);
        }
    }
}

fn install_tracer() {
    static ONCE: Once = Once::new();
    ONCE.call_once(|| {
        verif::install(Arc::new(|ev: &Event| {
            ROLE.with(|r| {
                if let Some(role) = r.borrow().as_ref() {
                    on_event(role, ev);
                }
            });
        }));
    });
}

/// a sink that only says which client it belongs to
struct IdSink(u64);

thread_local! { static LAST_ID: Cell<u64> = Cell::new(u64::MAX); }

impl cadence::MetricSink for IdSink {
    fn emit(&self, metric: &str) -> std::io::Result<usize> {
        LAST_ID.with(|l| l.set(self.0));
        Ok(metric.len())
    }
}

fn run_global_call(c: &Call) -> Res {
    use cadence::Counted;
    match c {
        Call::Set(id) => {
            cadence_macros::set_global_default(cadence::StatsdClient::from_sink("g", IdSink(*id)));
            Res::Unit
        }
        Call::Get => Res::GetG(cadence_macros::get_global_default().ok().map(|c| {
            LAST_ID.with(|l| l.set(u64::MAX));
            let _ = c.count("k", 1);
            (LAST_ID.with(|l| l.get()), Arc::as_ptr(&c) as usize)
        })),
        Call::IsSet => Res::IsSet(cadence_macros::is_global_default_set()),
        Call::Dbg => panic!("the process-wide holder cannot be formatted from outside"),
    }
}

fn run_calls(calls: &[Call], holder: Option<&SingletonHolder<Payload>>) -> Vec<Res> {
    let mut out = Vec::new();
    for (ci, c) in calls.iter().enumerate() {
        ROLE.with(|r| {
            let b = r.borrow();
            let role = b.as_ref().unwrap();
            role.call.set(ci);
            role.in_set.set(matches!(c, Call::Set(_)));
        });
        let r = crate::util::catch(|| match c {
            _ if holder.is_none() => run_global_call(c),
            Call::Set(id) => {
                let holder = holder.unwrap();
                holder.set(Payload::new(*id));
                Res::Unit
            }
            Call::Get => Res::Get(holder.unwrap().get()),
            Call::IsSet => Res::IsSet(holder.unwrap().is_set()),
            Call::Dbg => {
                let text = format!("{:?}", holder.unwrap());
                std::hint::black_box(text.len());
                Res::Dbg
            }
        });
        match r {
            Ok(x) => out.push(x),
            Err(_) => {
                out.push(Res::Panic);
                break;
            }
        }
    }
    out
}

/// A worker thread: one job (= its thread's calls on a fresh holder) per schedule.
fn worker(tid: usize, calls: &[Call], sched: Arc<Sched>) {
    ROLE.with(|r| {
        *r.borrow_mut() = Some(Role {
            tid,
            call: Cell::new(0),
            in_set: Cell::new(false),
            sched: sched.clone(),
        })
    });
    let mut my_gen = 0u64;
    loop {
        let holder = {
            let mut g = sched.m.lock().unwrap();
            while !(g.quit || g.generation > my_gen) {
                g = sched.cvs[tid].wait(g).unwrap();
            }
            if g.quit {
                break;
            }
            my_gen = g.generation;
            if g.global { None } else { Some(g.holder.clone().unwrap()) }
        };
        let out = run_calls(calls, holder.as_deref());
        drop(holder);
        let mut g = sched.m.lock().unwrap();
        g.results[tid] = out;
        g.status[tid] = St::Done;
        if g.started && !g.free_run {
            decide(&mut g, &sched);
        } else {
            if g.free_run && g.status.iter().all(|s| *s == St::Done) {
                g.finished = true;
            }
            sched.ctl.notify_one();
        }
    }
    ROLE.with(|r| *r.borrow_mut() = None);
}

struct Exec {
    sched: Vec<usize>,
    enabled: Vec<Vec<usize>>,
    entry: String,
}

fn wait_ctl<'a>(
    sched: &'a Sched,
    mut g: std::sync::MutexGuard<'a, Inner>,
    ready: impl Fn(&Inner) -> bool,
) -> std::sync::MutexGuard<'a, Inner> {
    while !ready(&g) {
        let (g2, to) = sched.ctl.wait_timeout(g, Duration::from_secs(30)).unwrap();
        g = g2;
        if to.timed_out() && !ready(&g) {
            eprintln!("singleton harness: a thread neither parked nor finished within 30 s");
            std::process::exit(3);
        }
    }
    g
}

/// Run the program once on a fresh holder: follow `prefix`, then always the lowest runnable thread.
/// `strict`: a prefix entry naming a thread that is not runnable is an error (used by the exhaustive
/// enumeration, where it would mean the implementation is not deterministic under the scheduler);
/// otherwise such entries are skipped and counted in `stuck`.
fn run_once(sched: &Arc<Sched>, prefix: &[usize], strict: bool) -> Exec {
    let mut g = sched.m.lock().unwrap();
    let n = g.status.len();
    // both public constructors: `new()` or the derived `Default`, the same one for every execution of a case
    g.global = USE_GLOBAL.load(std::sync::atomic::Ordering::Relaxed);
    g.holder = Some(Arc::new(if USE_DEFAULT_CTOR.load(std::sync::atomic::Ordering::Relaxed) {
        SingletonHolder::default()
    } else {
        SingletonHolder::new()
    }));
    g.results = (0..n).map(|_| Vec::new()).collect();
    g.status = vec![St::Running; n];
    g.log.clear();
    g.free_run = false;
    g.started = false;
    g.finished = false;
    g.prefix = prefix.to_vec();
    g.pos = 0;
    g.strict = strict;
    g.chosen.clear();
    g.enabled_sets.clear();
    g.stuck = 0;
    g.overflow = false;
    g.generation += 1;
    for c in &sched.cvs {
        c.notify_one();
    }
    // every thread reaches its first traced operation (or finishes without one)
    g = wait_ctl(sched, g, |i| !i.status.iter().any(|s| matches!(s, St::Running | St::Granted(_))));
    g.started = true;
    decide(&mut g, sched);
    g = wait_ctl(sched, g, |i| i.finished);
    if let Some(e) = g.error.take() {
        eprintln!("singleton harness: {}", e);
        std::process::exit(3);
    }
    let stuck = g.stuck + (g.prefix.len() - g.pos);
    let chosen = std::mem::take(&mut g.chosen);
    let enabled_sets = std::mem::take(&mut g.enabled_sets);
    let log = std::mem::take(&mut g.log);
    let results = std::mem::take(&mut g.results);
    let overflow = g.overflow;
    g.holder = None;
    drop(g);
    // results and the identity / integrity of what get returned
    let mut same = true;
    let mut intact = true;
    let mut first: Option<Arc<Payload>> = None;
    let mut first_g: Option<usize> = None;
    let mut res_s = Vec::new();
    for th in &results {
        let mut v = Vec::new();
        for r in th {
            v.push(match r {
                Res::Unit => "u".to_string(),
                Res::Dbg => "d".to_string(),
                Res::Get(None) | Res::GetG(None) => "n".to_string(),
                Res::GetG(Some((id, ptr))) => {
                    match first_g {
                        None => first_g = Some(*ptr),
                        Some(f) => {
                            if f != *ptr {
                                same = false;
                            }
                        }
                    }
                    if *id == u64::MAX {
                        intact = false; // the client returned did not reach its sink
                    }
                    format!("v{}", id)
                }
                Res::Get(Some(a)) => {
                    if !a.intact() {
                        intact = false;
                    }
                    match &first {
                        None => first = Some(a.clone()),
                        Some(f) => {
                            if !Arc::ptr_eq(f, a) {
                                same = false;
                            }
                        }
                    }
                    format!("v{}", a.id)
                }
                Res::IsSet(true) => "t".to_string(),
                Res::IsSet(false) => "f".to_string(),
                Res::Panic => "p".to_string(),
            });
        }
        res_s.push(v.join("."));
    }
    let sched_s: String = if chosen.is_empty() {
        "-".to_string()
    } else {
        chosen.iter().map(|t| char::from(b'0' + *t as u8)).collect()
    };
    let mut entry = format!("{}|{}|{}", sched_s, log.join(","), res_s.join("/"));
    if !same || !intact || stuck > 0 || overflow {
        entry.push_str(&format!(
            "|!same={},intact={},stuck={},overflow={}",
            same as u8, intact as u8, stuck, overflow as u8
        ));
    }
    Exec {
        sched: chosen,
        enabled: enabled_sets,
        entry,
    }
}

/// Spawn the worker threads of `prog`, run `body` (which calls `run_once` any number of times), stop them.
fn with_pool<R>(prog: &[Vec<Call>], body: impl FnOnce(&Arc<Sched>) -> R) -> R {
    let n = prog.len();
    let sched = Arc::new(Sched {
        m: Mutex::new(Inner {
            generation: 0,
            quit: false,
            holder: None,
            global: false,
            results: Vec::new(),
            status: vec![St::Done; n],
            next_ticket: 1,
            log: Vec::new(),
            free_run: false,
            started: false,
            finished: false,
            prefix: Vec::new(),
            pos: 0,
            strict: false,
            chosen: Vec::new(),
            enabled_sets: Vec::new(),
            stuck: 0,
            overflow: false,
            error: None,
        }),
        ctl: Condvar::new(),
        cvs: (0..n).map(|_| Condvar::new()).collect(),
    });
    std::thread::scope(|sc| {
        for (tid, calls) in prog.iter().enumerate() {
            let sched = sched.clone();
            sc.spawn(move || worker(tid, calls, sched));
        }
        let r = body(&sched);
        sched.m.lock().unwrap().quit = true;
        for c in &sched.cvs {
            c.notify_all();
        }
        r
    })
}

fn parse_prog(s: &str) -> Vec<Vec<Call>> {
    s.split('/')
        .map(|th| {
            if th.is_empty() || th == "-" {
                return vec![];
            }
            th.split('.')
                .map(|c| {
                    if c == "g" {
                        Call::Get
                    } else if c == "i" {
                        Call::IsSet
                    } else if c == "d" {
                        Call::Dbg
                    } else if let Some(id) = c.strip_prefix('s') {
                        Call::Set(id.parse().expect("payload id"))
                    } else {
                        panic!("bad call {:?}", c)
                    }
                })
                .collect()
        })
        .collect()
}

static USE_DEFAULT_CTOR: std::sync::atomic::AtomicBool = std::sync::atomic::AtomicBool::new(false);
static USE_GLOBAL: std::sync::atomic::AtomicBool = std::sync::atomic::AtomicBool::new(false);

/// runs in a fresh child process (`harness sgchild "<prog> <sched>"`): the program's calls go to the process-wide
/// holder through set_global_default / get_global_default / is_global_default_set, under exactly this schedule
pub fn child(arg: &str) -> String {
    install_tracer();
    USE_GLOBAL.store(true, std::sync::atomic::Ordering::Relaxed);
    let t: Vec<&str> = arg.split_whitespace().collect();
    let prog = parse_prog(t[0]);
    let prefix: Vec<usize> = if t[1] == "-" { vec![] } else { t[1].bytes().map(|b| (b - b'0') as usize).collect() };
    let ex = with_pool(&prog, |sched| run_once(sched, &prefix, false));
    format!("n=1 {}", ex.entry)
}

pub fn run_case(line: &str) -> String {
    install_tracer();
    // which constructor this case uses: decided by the case text, so that re-running a schedule prefix is reproducible
    let h = line.bytes().fold(0u32, |a, b| a.wrapping_mul(31).wrapping_add(b as u32));
    USE_DEFAULT_CTOR.store(h % 2 == 1, std::sync::atomic::Ordering::Relaxed);
    let t: Vec<&str> = line.split_whitespace().collect();
    match t.as_slice() {
        ["A", prog] => {
            let prog = parse_prog(prog);
            assert!(prog.len() <= 9);
            let entries = with_pool(&prog, |sched| {
            let mut entries = Vec::new();
            let mut prefix: Vec<usize> = Vec::new();
            loop {
                let ex = run_once(sched, &prefix, true);
                let overflow = ex.entry.ends_with("overflow=1");
                entries.push(ex.entry);
                if overflow {
                    break; // unbounded executions (e.g. a spin loop): enumeration is pointless
                }
                // backtrack: deepest position with an untried runnable thread
                let mut d = ex.sched.len();
                let mut next = None;
                while d > 0 {
                    d -= 1;
                    if let Some(t) = ex.enabled[d].iter().find(|t| **t > ex.sched[d]) {
                        next = Some((d, *t));
                        break;
                    }
                }
                match next {
                    None => break,
                    Some((d, t)) => {
                        prefix = ex.sched[..d].to_vec();
                        prefix.push(t);
                    }
                }
                if entries.len() > 2_000_000 {
                    break;
                }
            }
            entries
            });
            format!("n={} {}", entries.len(), entries.join(";"))
        }
        ["G", prog, sched] => {
            let exe = std::env::current_exe().expect("current_exe");
            let o = std::process::Command::new(exe)
                .arg("sgchild")
                .arg(format!("{} {}", prog, sched))
                .output()
                .expect("spawn child");
            if !o.status.success() {
                return format!(
                    "CHILD-FAILED {:?} {}",
                    o.status.code(),
                    String::from_utf8_lossy(&o.stderr).replace('\n', " ").chars().take(300).collect::<String>()
                );
            }
            String::from_utf8_lossy(&o.stdout).trim().to_string()
        }
        ["S", prog, sched] => {
            let prog = parse_prog(prog);
            let prefix: Vec<usize> = if *sched == "-" {
                vec![]
            } else {
                sched.bytes().map(|b| (b - b'0') as usize).collect()
            };
            let ex = with_pool(&prog, |sched| run_once(sched, &prefix, false));
            format!("n=1 {}", ex.entry)
        }
        _ => panic!("bad singleton case {:?}", line),
    }
}
