(* Audit items A.3, A.9, A.12 (second part), A.18, A.19 of the audit of 2026-10-02:
   new theorems about Cadence.Model.Writer.  No existing file is changed. *)
Require Import Cadence.Base.Prelude.
Require Import Cadence.Model.Writer.
Require Import Cadence.Proofs.WriterBase.
Require Import Cadence.Proofs.WriterInv.
Require Import Cadence.Proofs.WriterRun.
Require Import Cadence.Proofs.WriterThms.

(* ====================================================================== A.9
   The exact shape of BufWriter::flush_buf, for ANY state (reachable or not): some number
   [k] of interrupted attempts, then ONE final attempt that is Ok or a real error; all of
   them carry the whole buffer and are labelled with all pending identities.  In particular
   the fuel of [flush_loop] never runs out, and the answer is never Interrupted / a panic. *)
Definition fl_att (s : st) (op : nat) (o : outcome) : attempt :=
  {| a_bytes := bbuf s; a_out := o; a_lab := Lines (bids s); a_op := op |}.

(* the outcome the environment gives to its [k]-th future write (an exhausted script says Ok) *)
Definition nth_out (script : list outcome) (k : nat) : outcome := nth k script WOk.

Definition flush_shape (s : st) (op : nat) (r : res unit) (s' : st) (k : nat) (o : outcome) : Prop :=
  lg s' = lg s ++ repeat (fl_att s op WIntr) k ++ [fl_att s op o] /\
  firstn k (sc s) = repeat WIntr k /\ nth_out (sc s) k = o /\ sc s' = skipn (S k) (sc s) /\
  written s' = written s /\ cap s' = cap s /\ ending s' = ending s /\
  match o with
  | WOk => r = ROk tt /\ bbuf s' = [] /\ bids s' = []
  | WErr x => r = RErr x /\ bbuf s' = bbuf s /\ bids s' = bids s
  | WIntr => False
  end.

Lemma under_eq s b lab op :
  under s b lab op =
  (nth_out (sc s) 0,
   set_io s (skipn 1 (sc s)) (lg s ++ [{| a_bytes := b; a_out := nth_out (sc s) 0; a_lab := lab; a_op := op |}])).
Proof. unfold under, nth_out. destruct (sc s); reflexivity. Qed.

Lemma flush_loop_shape fuel : forall s op r s',
  flush_loop fuel s op = (r, s') -> length (sc s) < fuel ->
  exists k o, flush_shape s op r s' k o.
Proof.
  induction fuel as [|f IH]; intros s op r s' H Hf; [lia|].
  cbn [flush_loop] in H. rewrite under_eq in H.
  destruct (nth_out (sc s) 0) eqn:E0.
  - inversion H; subst; clear H. exists 0, WOk. unfold flush_shape. cbn.
    repeat split; auto.
  - inversion H; subst; clear H. exists 0, (WErr e). unfold flush_shape. cbn.
    repeat split; auto.
  - assert (Hsc : exists c', sc s = WIntr :: c').
    { unfold nth_out in E0. destruct (sc s) as [|o c']; cbn in E0; [discriminate|]. subst. eauto. }
    destruct Hsc as [c' Hsc].
    match type of H with flush_loop f ?x op = _ => set (s1 := x) in * end.
    assert (Hlt : length (sc s1) < f) by (subst s1; cbn; rewrite Hsc in *; cbn in *; lia).
    destruct (IH _ _ _ _ H Hlt) as (k & o & A1 & A2 & A3 & A4 & A5 & A6 & A7 & A8).
    subst s1. cbn [set_io written cap bbuf bids ending sc lg] in *.
    exists (S k), o. unfold flush_shape.
    change (fl_att (set_io s (skipn 1 (sc s))
              (lg s ++ [{| a_bytes := bbuf s; a_out := WIntr; a_lab := Lines (bids s); a_op := op |}])) op)
      with (fl_att s op) in A1.
    rewrite Hsc in *. cbn [skipn firstn repeat nth_out nth] in *.
    split. { rewrite A1, <- app_assoc. reflexivity. }
    split; [now rewrite A2|]. split; [exact A3|]. split; [exact A4|].
    split; [exact A5|]. split; [exact A6|]. split; [exact A7|exact A8].
Qed.

(* flush_buf: nothing at all on an empty buffer, otherwise the shape above *)
Theorem flush_buf_shape s op r s' :
  flush_buf s op = (r, s') ->
  (bbuf s = [] /\ r = ROk tt /\ s' = set_buf s [] []) \/
  (bbuf s <> [] /\ exists k o, flush_shape s op r s' k o).
Proof.
  unfold flush_buf. destruct (bbuf s) as [|x xs] eqn:E.
  - intros H; inversion H; subst. left. auto.
  - intros H. right. split; [discriminate|].
    apply flush_loop_shape in H; [exact H|lia].
Qed.

Theorem flush_buf_never_interrupted s op :
  fst (flush_buf s op) <> RIntr /\ fst (flush_buf s op) <> RPanic.
Proof.
  destruct (flush_buf s op) as [r s'] eqn:F. cbn [fst].
  apply flush_buf_shape in F. destruct F as [(_ & -> & _)|(_ & k & o & Sh)].
  - split; discriminate.
  - destruct Sh as (_ & _ & _ & _ & _ & _ & _ & M).
    destruct o; [destruct M as [-> _]|destruct M as [-> _]|contradiction]; split; discriminate.
Qed.

(* an explicit flush (any state, any operation number) answers Ok 0 or a real error, never
   Interrupted and never a panic; an error answer is the outcome of the LAST write it attempted,
   every earlier attempt of the call was interrupted, and then buffer, pending identities and
   the [written] counter are what they were *)
Theorem flush_step_result s n x s' :
  step s n Flush = (x, s') ->
  x <> OIntr /\ x <> OPanic /\
  (x = OOk 0 \/
   exists er k, x = OErr er /\
     lg s' = lg s ++ repeat (fl_att s n WIntr) k ++ [fl_att s n (WErr er)] /\
     bbuf s' = bbuf s /\ bids s' = bids s /\ written s' = written s).
Proof.
  cbn [step]. unfold mlw_flush. destruct (flush_buf s n) as [r s1] eqn:F.
  apply flush_buf_shape in F. destruct F as [(_ & -> & ->)|(_ & k & o & Sh)].
  - intros H; inversion H; subst. split; [discriminate|]. split; [discriminate|]. left. reflexivity.
  - destruct Sh as (L & _ & _ & _ & W & _ & _ & M).
    destruct o; [destruct M as (-> & M1 & M2)|destruct M as (-> & M1 & M2)|contradiction];
      intros H; inversion H; subst; (split; [discriminate|]); (split; [discriminate|]).
    + left. reflexivity.
    + right. exists e, k. repeat split; auto.
Qed.

(* the pinned form suggested by the audit (reachability is not even needed) *)
Corollary flush_result_reach c e script ops rs s n x s' :
  run_from (init c e script) 0 ops = (rs, s) -> step s n Flush = (x, s') -> x <> OIntr /\ x <> OPanic.
Proof. intros _ H. apply flush_step_result in H. tauto. Qed.

(* ====================================================================== A.12 (second part)
   An explicit flush with an empty buffer: no write is attempted, no outcome of the
   environment is consumed, the answer is Ok(0).  (Any state.) *)
Theorem flush_nothing_pending s n x s' :
  step s n Flush = (x, s') -> bbuf s = [] ->
  x = OOk 0 /\ lg s' = lg s /\ sc s' = sc s /\ bbuf s' = [] /\ bids s' = [] /\ written s' = 0.
Proof.
  cbn [step]. unfold mlw_flush, flush_buf. intros H E. rewrite E in H.
  inversion H; subst. cbn. repeat split; reflexivity.
Qed.

Corollary flush_nothing_pending_reach c e script ops rs s n x s' :
  run_from (init c e script) 0 ops = (rs, s) -> step s n Flush = (x, s') -> bbuf s = [] ->
  lg s' = lg s /\ x = OOk 0.
Proof. intros _ H E. destruct (flush_nothing_pending _ _ _ _ H E) as (A & B & _). auto. Qed.

(* and conversely: with a non-empty buffer a flush always attempts at least one write *)
Theorem flush_something_pending s n x s' :
  step s n Flush = (x, s') -> bbuf s <> [] -> length (lg s) < length (lg s').
Proof.
  cbn [step]. unfold mlw_flush. destruct (flush_buf s n) as [r s1] eqn:F.
  apply flush_buf_shape in F. destruct F as [(E & _)|(_ & k & o & Sh)]; [contradiction|].
  destruct Sh as (L & _).
  intros H _. assert (Hl : lg s' = lg s1) by (destruct r; inversion H; subst; reflexivity).
  rewrite Hl, L, !app_length. cbn. lia.
Qed.

(* ====================================================================== A.3 (drop)
   The final drop (any state): nothing on an empty buffer; otherwise [k] interrupted attempts
   and one final attempt, each carrying the whole buffer and labelled with every pending
   identity.  If the final one succeeds nothing stays pending and the pending identities are
   appended, once and in order, to what was sent; if it fails nothing is sent. *)
Lemma sentL_intr s op k : sentL (repeat (fl_att s op WIntr) k) = [].
Proof. induction k as [|k IH]; [reflexivity|]. cbn [repeat]. unfold sentL in *. cbn. exact IH. Qed.
Lemma sentA_flush s op k o : sentA (repeat (fl_att s op WIntr) k ++ [fl_att s op o]) = [].
Proof.
  rewrite sentA_app. replace (sentA (repeat (fl_att s op WIntr) k)) with (@nil gm).
  - unfold sentA. cbn. unfold ok_alone. cbn. now destruct o.
  - induction k as [|k IH]; [reflexivity|]. cbn [repeat]. unfold sentA in *. cbn. exact IH.
Qed.
Lemma sentL_flush s op k o :
  sentL (repeat (fl_att s op WIntr) k ++ [fl_att s op o]) = match o with WOk => bids s | _ => [] end.
Proof.
  rewrite sentL_app, sentL_intr. unfold sentL. cbn. unfold ok_ids. cbn.
  destruct o; cbn; now rewrite ?app_nil_r.
Qed.

Lemma skipn_len_app {A} (l x : list A) : skipn (length l) (l ++ x) = x.
Proof. induction l as [|a l IH]; [reflexivity|exact IH]. Qed.

Lemma in_flush_atts s op k o a :
  In a (repeat (fl_att s op WIntr) k ++ [fl_att s op o]) ->
  a_bytes a = bbuf s /\ a_lab a = Lines (bids s) /\ a_op a = op /\
  (a_out a = WIntr \/ a = fl_att s op o).
Proof.
  intros H. apply in_app_or in H. destruct H as [H|[H|[]]].
  - apply repeat_spec in H. subst a. cbn. auto.
  - subst a. cbn. auto.
Qed.

Theorem drop_shape s op :
  let s' := mlw_drop s op in
  (bbuf s = [] -> lg s' = lg s /\ sc s' = sc s) /\
  (bbuf s <> [] -> exists k o,
     lg s' = lg s ++ repeat (fl_att s op WIntr) k ++ [fl_att s op o] /\
     sentA (lg s') = sentA (lg s) /\
     match o with
     | WOk => bbuf s' = [] /\ bids s' = [] /\ sentL (lg s') = sentL (lg s) ++ bids s
     | WErr _ => bbuf s' = bbuf s /\ bids s' = bids s /\ sentL (lg s') = sentL (lg s)
     | WIntr => False
     end).
Proof.
  unfold mlw_drop. destruct (flush_buf s op) as [r s1] eqn:F. cbn [snd].
  apply flush_buf_shape in F. destruct F as [(E & _ & ->)|(N & k & o & Sh)].
  - split; [intros _; split; reflexivity|]. intros N. contradiction.
  - split; [intros E; contradiction|]. intros _. exists k, o.
    destruct Sh as (L & _ & _ & _ & _ & _ & _ & M).
    split; [exact L|]. split; [rewrite L, sentA_app, sentA_flush; now rewrite app_nil_r|].
    rewrite L, sentL_app, sentL_flush.
    destruct o; [destruct M as (_ & M1 & M2)|destruct M as (_ & M1 & M2)|contradiction];
      repeat split; auto; now rewrite app_nil_r.
Qed.

(* the form suggested by the audit, with the carried bytes and labels added (any state, any
   operation number; in [run] the state is the one reached and the number is [length ops]) *)
Theorem drop_sends_rest s op :
  let s' := mlw_drop s op in
  (bbuf s = [] -> lg s' = lg s) /\
  (forall a, In a (skipn (length (lg s)) (lg s')) ->
     a_bytes a = bbuf s /\ a_lab a = Lines (bids s) /\ a_op a = op /\
     (a_out a = WOk -> bbuf s' = [] /\ bids s' = [] /\ sentL (lg s') = sentL (lg s) ++ bids s) /\
     (forall er, a_out a = WErr er ->
        bbuf s' = bbuf s /\ bids s' = bids s /\ sentL (lg s') = sentL (lg s))).
Proof.
  cbv zeta. destruct (drop_shape s op) as [D0 D1].
  split; [intros E; exact (proj1 (D0 E))|].
  intros a Ha. destruct (bbuf s) as [|b0 bs] eqn:E.
  - destruct (D0 eq_refl) as [L _]. rewrite L in Ha.
    replace (skipn (length (lg s)) (lg s)) with (@nil attempt) in Ha by (symmetry; apply skipn_all).
    contradiction.
  - destruct D1 as (k & o & L & _ & M); [discriminate|].
    rewrite L, skipn_len_app in Ha. apply in_flush_atts in Ha.
    destruct Ha as (A1 & A2 & A3 & A4). rewrite E in A1.
    split; [exact A1|]. split; [exact A2|]. split; [exact A3|].
    destruct A4 as [A4|A4].
    + split; [intros X; congruence|intros er X; congruence].
    + subst a. cbn [fl_att a_out]. split.
      * intros ->. exact M.
      * intros er ->. exact M.
Qed.

(* ====================================================================== A.3 (emit) *)
Require Import Cadence.Proofs.WriterIds.

Lemma flush_buf_bids s op :
  bids (snd (flush_buf s op)) = [] \/ bids (snd (flush_buf s op)) = bids s.
Proof.
  destruct (flush_buf s op) as [r s'] eqn:F. cbn [snd].
  apply flush_buf_shape in F. destruct F as [(_ & _ & ->)|(_ & k & o & Sh)]; [left; reflexivity|].
  destruct Sh as (_ & _ & _ & _ & _ & _ & _ & M).
  destruct o; [left; tauto|right; tauto|contradiction].
Qed.

Lemma direct_bids s b lab op : bids (snd (direct s b lab op)) = bids s.
Proof.
  unfold direct. pose proof (under_bids s b lab op) as U.
  destruct (under s b lab op) as [o s1]. destruct o; exact U.
Qed.

(* with nothing (or only the new metric) pending, BufWriter::write leaves nothing but the
   new metric pending - no hypothesis on sizes *)
Lemma bw_write_small g s b first op :
  (first = true -> bids s = []) -> (bids s = [] \/ bids s = [g]) ->
  bids (snd (bw_write s b g first op)) = [] \/ bids (snd (bw_write s b g first op)) = [g].
Proof.
  intros Hf Hs. unfold bw_write.
  assert (Push : forall s0, (first = true -> bids s0 = []) -> (bids s0 = [] \/ bids s0 = [g]) ->
     let s1 := set_buf s0 (bbuf s0 ++ b) (if first then bids s0 ++ [g] else bids s0) in
     bids s1 = [] \/ bids s1 = [g]).
  { intros s0 H1 H2. cbn. destruct first; [rewrite (H1 eq_refl); right; reflexivity|exact H2]. }
  destruct (length b <? cap s - length (bbuf s)); [cbn [snd]; now apply Push|].
  assert (S1 : let s1 := snd (if cap s - length (bbuf s) <? length b then flush_buf s op else (ROk tt, s)) in
               (first = true -> bids s1 = []) /\ (bids s1 = [] \/ bids s1 = [g])).
  { destruct (cap s - length (bbuf s) <? length b); cbn [snd]; [|split; assumption].
    destruct (flush_buf_bids s op) as [E|E]; rewrite E; [split; auto|split; assumption]. }
  destruct (if cap s - length (bbuf s) <? length b then flush_buf s op else (ROk tt, s)) as [r s1].
  cbn [snd] in S1. destruct S1 as [S1 S2].
  destruct r; cbn [snd]; auto.
  destruct (cap s1 <=? length b); [|cbn [snd]; now apply Push].
  rewrite direct_bids. destruct first; [left; now apply S1|].
  cbn. destruct S2 as [->| ->]; left; reflexivity.
Qed.

Lemma mlw_tail_small s0 m op :
  bids s0 = [] ->
  bids (snd (mlw_tail s0 m op)) = [] \/ bids (snd (mlw_tail s0 m op)) = [(op, m)].
Proof.
  intros E. unfold mlw_tail.
  pose proof (bw_write_small (op, m) s0 m true op (fun _ => E) (or_introl E)) as W1.
  destruct (bw_write s0 m (op, m) true op) as [r1 s1]. cbn [snd] in W1.
  destruct r1; cbn [snd]; auto.
  match goal with |- context [bw_write ?x ?y (op, m) false op] =>
    pose proof (bw_write_small (op, m) x y false op) as W2; destruct (bw_write x y (op, m) false op) as [r2 s2] end.
  cbn [snd set_written bids] in W2.
  assert (W3 : bids s2 = [] \/ bids s2 = [(op, m)]) by (apply W2; [discriminate|exact W1]).
  destruct r2; cbn [snd set_written bids]; exact W3.
Qed.

(* an attempt an emit makes for its own metric *)
Definition own_att (n : nat) (m : str) (a : attempt) : Prop :=
  (a_lab a = Lines [(n, m)] \/ a_lab a = Alone (n, m)) /\ a_op a = n.

(* The exact shape of what an emit appends to the log (state satisfying the invariant):
   first the attempts [fl] of an automatic flush - none, or [k] interrupted ones and one
   final one, each carrying the WHOLE buffer and labelled with ALL pending identities, made
   only when the new line does not fit behind the buffer -, then the attempts [own] made for
   the new metric alone.  If the flush succeeds none of the earlier metrics stays pending
   and they are appended, once and in order, to what was sent; if it fails the emit answers
   that error, makes no other attempt and leaves buffer, pending identities and [written]
   as they were. *)
Theorem emit_shape s n m x s' :
  Inv s -> step s n (Emit m) = (x, s') ->
  exists fl own, lg s' = lg s ++ fl ++ own /\ Forall (own_att n m) own /\
   (fl = [] \/
    (bbuf s <> [] /\ cap s < length (bbuf s) + length m + length (ending s) /\
     length m + length (ending s) <= cap s /\
     exists k o, fl = repeat (fl_att s n WIntr) k ++ [fl_att s n o] /\
       match o with
       | WOk => (bids s' = [] \/ bids s' = [(n, m)]) /\
                sentL (lg s') = sentL (lg s) ++ bids s ++ sentL own
       | WErr er => x = OErr er /\ own = [] /\ bbuf s' = bbuf s /\ bids s' = bids s /\
                    written s' = written s
       | WIntr => False
       end)).
Proof.
  intros I H. cbn [step] in H. destruct (mlw_write s m n) as [r s1] eqn:W.
  inversion H; subst x s1; clear H. rewrite mlw_write_unfold in W.
  destruct (cap s <? written s) eqn:E0.
  { apply Nat.ltb_lt in E0. destruct I. lia. }
  clear E0.
  assert (OwnT : forall s0 atts, ext s0 s' n atts -> Forall (fun a => a_lab a = Lines [(n, m)]) atts ->
                                 Forall (own_att n m) atts).
  { intros s0 atts [_ O] L. rewrite Forall_forall in *. intros a Ha. split; [left; now apply L|now apply O]. }
  destruct (cap s <? length m + length (ending s)) eqn:E1.
  - (* bypass *)
    apply direct_spec in W. destruct W as (_ & _ & _ & _ & o & [Dl Df] & _).
    exists [], [{| a_bytes := m; a_out := o; a_lab := Alone (n, m); a_op := n |}].
    split; [exact Dl|]. split; [|left; reflexivity].
    constructor; [|constructor]. split; [right; reflexivity|reflexivity].
  - apply Nat.ltb_ge in E1.
    destruct (cap s - written s <? length m + length (ending s)) eqn:E2.
    + apply Nat.ltb_lt in E2.
      destruct (mlw_flush s n) as [r0 s0] eqn:F.
      pose proof (mlw_flush_spec _ _ _ _ I F) as (I0 & [Fc Fe] & _).
      unfold mlw_flush in F. destruct (flush_buf s n) as [rb sb] eqn:FB.
      apply flush_buf_shape in FB. destruct FB as [(Eb & -> & ->)|(Nb & k & o & Sh)].
      * (* the buffer is empty (written = capacity): no attempt *)
        inversion F; subst r0 s0; clear F.
        apply tail_spec in W; [|exact I0|rewrite Fc, Fe; cbn [set_written written]; lia].
        destruct W as (_ & _ & atts2 & Tx & _ & Tlab & _).
        exists [], atts2. split; [exact (proj1 Tx)|]. split; [eapply OwnT; eassumption|left; reflexivity].
      * destruct Sh as (L & _ & _ & _ & Sw & _ & _ & M).
        assert (Hbig : cap s < length (bbuf s) + length m + length (ending s)).
        { destruct I as [Ile [Hs|[Hs _]] _]; [lia|contradiction]. }
        destruct o; [destruct M as (-> & M1 & M2)|destruct M as (-> & M1 & M2)|contradiction].
        -- inversion F; subst r0 s0; clear F.
           pose proof (mlw_tail_small (set_written sb 0) m n M2) as Sm. rewrite W in Sm. cbn [snd] in Sm.
           apply tail_spec in W; [|exact I0|rewrite Fc, Fe; cbn [set_written written]; lia].
           destruct W as (_ & _ & atts2 & Tx & _ & Tlab & _).
           exists (repeat (fl_att s n WIntr) k ++ [fl_att s n WOk]), atts2.
           assert (Lg : lg s' = lg s ++ (repeat (fl_att s n WIntr) k ++ [fl_att s n WOk]) ++ atts2).
           { rewrite (proj1 Tx). cbn [set_written lg]. rewrite L. now rewrite <- app_assoc. }
           split; [exact Lg|]. split; [eapply OwnT; eassumption|]. right.
           split; [exact Nb|]. split; [exact Hbig|]. split; [exact E1|].
           exists k, WOk. split; [reflexivity|]. split; [exact Sm|].
           rewrite Lg, 2 sentL_app, sentL_flush. reflexivity.
        -- inversion F; subst r0 s0; clear F. inversion W; subst r s'; clear W.
           exists (repeat (fl_att s n WIntr) k ++ [fl_att s n (WErr e)]), [].
           split; [now rewrite app_nil_r|]. split; [constructor|]. right.
           split; [exact Nb|]. split; [exact Hbig|]. split; [exact E1|].
           exists k, (WErr e). split; [reflexivity|]. repeat split; auto.
    + apply Nat.ltb_ge in E2.
      apply tail_spec in W; [|exact I|lia].
      destruct W as (_ & _ & atts2 & Tx & _ & Tlab & _).
      exists [], atts2. split; [exact (proj1 Tx)|]. split; [eapply OwnT; eassumption|left; reflexivity].
Qed.

(* the form suggested by the audit (any reachable state): an attempt made during an emit whose
   label does not contain the new metric is an attempt of the automatic flush; it carries the
   whole buffer and all pending identities; if it succeeds, no earlier metric stays pending
   and the pending identities are appended once, in order, to what was sent (followed only by
   what the emit sends for its own metric); if it fails with an error the emit answers that
   error and the buffer stays as it was *)
Theorem emit_flushes_all c e script ops rs s n m x s' :
  run_from (init c e script) 0 ops = (rs, s) -> step s n (Emit m) = (x, s') ->
  forall a ms, In a (skipn (length (lg s)) (lg s')) -> a_lab a = Lines ms -> ~ In (n, m) ms ->
    ms = bids s /\ a_bytes a = bbuf s /\ a_op a = n /\ bbuf s <> [] /\
    c < length (bbuf s) + length m + length e /\
    (a_out a = WOk ->
       (bids s' = [] \/ bids s' = [(n, m)]) /\
       exists own, Forall (fun b => (a_lab b = Lines [(n, m)] \/ a_lab b = Alone (n, m)) /\ a_op b = n) own /\
                   sentL (lg s') = sentL (lg s) ++ bids s ++ sentL own) /\
    (forall er, a_out a = WErr er -> x = OErr er /\ bbuf s' = bbuf s /\ bids s' = bids s).
Proof.
  intros R S a ms Ha Hl Hni.
  destruct (reach_inv _ _ _ _ _ _ R) as (I & C & E & _).
  destruct (emit_shape _ _ _ _ _ I S) as (fl & own & Lg & Own & Sh).
  rewrite Lg, skipn_len_app in Ha. apply in_app_or in Ha. destruct Ha as [Ha|Ha].
  - destruct Sh as [->|(Nb & Hbig & _ & k & o & -> & M)]; [contradiction|].
    apply in_flush_atts in Ha. destruct Ha as (A1 & A2 & A3 & A4).
    rewrite A2 in Hl. inversion Hl; subst ms. rewrite C, E in Hbig.
    split; [reflexivity|]. split; [exact A1|]. split; [exact A3|]. split; [exact Nb|]. split; [exact Hbig|].
    destruct A4 as [A4|A4].
    + split; [intros X; congruence|intros er X; congruence].
    + subst a. cbn [fl_att a_out]. split.
      * intros ->. destruct M as [M1 M2]. split; [exact M1|]. exists own. split; [exact Own|exact M2].
      * intros er ->. tauto.
  - exfalso. rewrite Forall_forall in Own. destruct (Own a Ha) as [[L|L] _]; rewrite L in Hl; [|discriminate].
    inversion Hl; subst ms. apply Hni. left. reflexivity.
Qed.

(* an emit answers Interrupted only for a write attempted for its own metric (the bypass of an
   oversized metric, or a part that fills the whole empty buffer) - never for the flush *)
Theorem emit_interrupted_own s n m s' :
  Inv s -> step s n (Emit m) = (OIntr, s') ->
  exists pre a, lg s' = lg s ++ pre ++ [a] /\ a_out a = WIntr /\ a_op a = n /\
                (a_lab a = Lines [(n, m)] \/ a_lab a = Alone (n, m)).
Proof.
  intros I S. destruct (emit_shape _ _ _ _ _ I S) as (fl & own & Lg & Own & Sh).
  destruct (step_spec _ _ _ _ _ I S) as [atts P]. destruct P as [_ _ [X _] _ _ Er _ _ _ _ _].
  cbn in Er. destruct Er as (pre & a & Ea & Oa). subst atts.
  assert (Eq : fl ++ own = pre ++ [a]) by (rewrite X in Lg; apply app_inv_head in Lg; congruence).
  destruct own as [|b own0].
  - exfalso. rewrite app_nil_r in Eq.
    destruct Sh as [->|(_ & _ & _ & k & o & -> & M)]; [destruct pre; discriminate|].
    apply app_inj_tail in Eq. destruct Eq as [_ Eq]. subst a. cbn in Oa. subst o. exact M.
  - destruct (@exists_last _ (b :: own0)) as (own1 & z & Ez); [discriminate|].
    rewrite Ez in Eq, Own. rewrite app_assoc in Eq. apply app_inj_tail in Eq. destruct Eq as [Ep Ez'].
    subst z. apply Forall_app in Own. destruct Own as [_ Own]. inversion Own as [|? ? [OL OO] _].
    exists pre, a. rewrite X. repeat split; auto.
Qed.

(* non-vacuity of the emit / drop statements: capacity 8, newline terminator; the third emit
   triggers a flush that is interrupted once and then succeeds; the fifth triggers one that
   fails; the final drop is interrupted once and then sends the rest *)
Example emit_drop_witness :
  let '(rs, s) := run_from (init 8 [10%N] [WIntr; WOk; WErr 5%N; WIntr; WOk]) 0
                    [Emit [1;2;3]; Emit [4;5]; Emit [6;7;8]; Emit [9]; Emit [1;1;1;1;1]]%N in
  let s' := mlw_drop s 5 in
  (rs, map (fun a => (a_op a, a_out a, a_bytes a)) (lg s), map fst (bids s),
   map (fun a => (a_op a, a_out a, a_bytes a)) (skipn (length (lg s)) (lg s')), map fst (bids s'),
   map fst (sentL (lg s'))) =
  ([OOk 3; OOk 2; OOk 3; OOk 1; OErr 5%N],
   [(2, WIntr, [1;2;3;10;4;5;10]%N); (2, WOk, [1;2;3;10;4;5;10]%N); (4, WErr 5%N, [6;7;8;10;9;10]%N)], [2; 3],
   [(5, WIntr, [6;7;8;10;9;10]%N); (5, WOk, [6;7;8;10;9;10]%N)], [], [0; 1; 2; 3]).
Proof. vm_compute. reflexivity. Qed.

(* ====================================================================== A.18: ghost erasure
   (the theorem the header of Model/Writer.v calls [WriterProofs.erasure]).

   NEW DEFINITIONS: a ghost-free copy of the model.  [pst] is [st] without the ghost list
   [bids]; its log keeps of every attempt only the bytes and the outcome (no label, no
   operation number).  The [p_...] functions are the model functions with every ghost
   argument (identity, label, operation number, the [first] flag that only says whether an
   identity is to be registered) removed.  The theorems say that erasing commutes with every
   function of the model: results, bytes handed to the underlying writer, outcomes consumed
   and the whole non-ghost state are computed without ever looking at ghost data. *)
Record pst := {
  p_written : nat; p_cap : nat; p_buf : str; p_ending : str;
  p_sc : list outcome; p_lg : list (str * outcome) }.

Definition erase_att (a : attempt) : str * outcome := (a_bytes a, a_out a).
Definition erase (s : st) : pst :=
  {| p_written := written s; p_cap := cap s; p_buf := bbuf s; p_ending := ending s;
     p_sc := sc s; p_lg := map erase_att (lg s) |}.

Definition pset_buf (p : pst) b :=
  {| p_written := p_written p; p_cap := p_cap p; p_buf := b; p_ending := p_ending p; p_sc := p_sc p; p_lg := p_lg p |}.
Definition pset_written (p : pst) w :=
  {| p_written := w; p_cap := p_cap p; p_buf := p_buf p; p_ending := p_ending p; p_sc := p_sc p; p_lg := p_lg p |}.
Definition pset_io (p : pst) c l :=
  {| p_written := p_written p; p_cap := p_cap p; p_buf := p_buf p; p_ending := p_ending p; p_sc := c; p_lg := l |}.

Definition p_under (p : pst) (b : str) : outcome * pst :=
  match p_sc p with
  | [] => (WOk, pset_io p [] (p_lg p ++ [(b, WOk)]))
  | o :: c => (o, pset_io p c (p_lg p ++ [(b, o)]))
  end.

Fixpoint p_flush_loop (fuel : nat) (p : pst) : res unit * pst :=
  match p_under p (p_buf p) with
  | (WOk, p') => (ROk tt, pset_buf p' [])
  | (WErr e, p') => (RErr e, p')
  | (WIntr, p') => match fuel with O => (RIntr, p') | S f => p_flush_loop f p' end
  end.

Definition p_flush_buf (p : pst) : res unit * pst :=
  match p_buf p with
  | [] => (ROk tt, pset_buf p [])
  | _ => p_flush_loop (S (length (p_sc p))) p
  end.

Definition p_direct (p : pst) (b : str) : res nat * pst :=
  match p_under p b with
  | (WOk, p') => (ROk (length b), p')
  | (WErr e, p') => (RErr e, p')
  | (WIntr, p') => (RIntr, p')
  end.

Definition p_bw_write (p : pst) (b : str) : res nat * pst :=
  let push p := pset_buf p (p_buf p ++ b) in
  if length b <? p_cap p - length (p_buf p) then (ROk (length b), push p)
  else
    let '(r, p1) := if p_cap p - length (p_buf p) <? length b then p_flush_buf p else (ROk tt, p) in
    match r with
    | ROk _ => if p_cap p1 <=? length b then p_direct p1 b else (ROk (length b), push p1)
    | RErr e => (RErr e, p1) | RIntr => (RIntr, p1) | RPanic => (RPanic, p1)
    end.

Definition p_mlw_flush (p : pst) : res unit * pst :=
  match p_flush_buf p with
  | (ROk _, p') => (ROk tt, pset_written p' 0)
  | (r, p') => (r, p')
  end.

Definition p_mlw_write (p : pst) (m : str) : res nat * pst :=
  if p_cap p <? p_written p then (RPanic, p) else
  let left := p_cap p - p_written p in
  let required := length m + length (p_ending p) in
  if p_cap p <? required then p_direct p m
  else
    let '(r0, p0) := if left <? required then p_mlw_flush p else (ROk tt, p) in
    match r0 with
    | ROk _ =>
      match p_bw_write p0 m with
      | (ROk w1, p1) =>
        let p1 := pset_written p1 (p_written p1 + w1) in
        match p_bw_write p1 (p_ending p1) with
        | (ROk w2, p2) => (ROk w1, pset_written p2 (p_written p2 + w2))
        | (RErr e, p2) => (RErr e, p2) | (RIntr, p2) => (RIntr, p2) | (RPanic, p2) => (RPanic, p2)
        end
      | (RErr e, p1) => (RErr e, p1) | (RIntr, p1) => (RIntr, p1) | (RPanic, p1) => (RPanic, p1)
      end
    | RErr e => (RErr e, p0) | RIntr => (RIntr, p0) | RPanic => (RPanic, p0)
    end.

Definition p_drop (p : pst) : pst := snd (p_flush_buf p).

Definition p_step (p : pst) (o : op) : ores * pst :=
  match o with
  | Emit m => let '(r, p') := p_mlw_write p m in (ores_of_nat r, p')
  | Flush => let '(r, p') := p_mlw_flush p in (ores_of_unit r, p')
  end.

Fixpoint p_run_from (p : pst) (ops : list op) : list ores * pst :=
  match ops with
  | [] => ([], p)
  | o :: r => let '(x, p1) := p_step p o in
              let '(xs, p2) := p_run_from p1 r in (x :: xs, p2)
  end.

Definition p_init (c : nat) (e : str) (script : list outcome) : pst :=
  {| p_written := 0; p_cap := c; p_buf := []; p_ending := e; p_sc := script; p_lg := [] |}.

Definition p_run (c : nat) (e : str) (script : list outcome) (ops : list op) : list ores * pst :=
  let '(rs, p) := p_run_from (p_init c e script) ops in (rs, p_drop p).

(* ---------------------------------------------------------------- commutation, function by function *)
Lemma er_under s b lab op o s' :
  under s b lab op = (o, s') -> p_under (erase s) b = (o, erase s').
Proof.
  unfold under, p_under. cbn [erase p_sc]. destruct (sc s) as [|o' c']; intros H; inversion H; subst;
    unfold erase, pset_io; cbn; rewrite map_app; reflexivity.
Qed.

Lemma er_flush_loop fuel : forall s op r s',
  flush_loop fuel s op = (r, s') -> p_flush_loop fuel (erase s) = (r, erase s').
Proof.
  induction fuel as [|f IH]; intros s op r s' H; cbn [flush_loop p_flush_loop] in *;
    destruct (under s (bbuf s) (Lines (bids s)) op) as [o s1] eqn:U; apply er_under in U;
    cbn [erase p_buf]; fold (erase s); rewrite U;
    destruct o; try (inversion H; subst; reflexivity).
  apply IH in H. exact H.
Qed.

Lemma er_flush_buf s op r s' :
  flush_buf s op = (r, s') -> p_flush_buf (erase s) = (r, erase s').
Proof.
  unfold flush_buf, p_flush_buf. cbn [erase p_buf p_sc]. fold (erase s).
  destruct (bbuf s); [intros H; inversion H; subst; reflexivity|]. apply er_flush_loop.
Qed.

Lemma er_direct s b lab op r s' :
  direct s b lab op = (r, s') -> p_direct (erase s) b = (r, erase s').
Proof.
  unfold direct, p_direct. destruct (under s b lab op) as [o s1] eqn:U. apply er_under in U. rewrite U.
  destruct o; intros H; inversion H; subst; reflexivity.
Qed.

Lemma er_bw_write s b g first op r s' :
  bw_write s b g first op = (r, s') -> p_bw_write (erase s) b = (r, erase s').
Proof.
  unfold bw_write, p_bw_write. cbn [erase p_cap p_buf]. fold (erase s).
  destruct (length b <? cap s - length (bbuf s)); [intros H; inversion H; subst; reflexivity|].
  assert (F : forall r1 s1,
    (if cap s - length (bbuf s) <? length b then flush_buf s op else (ROk tt, s)) = (r1, s1) ->
    (if cap s - length (bbuf s) <? length b then p_flush_buf (erase s) else (ROk tt, erase s)) = (r1, erase s1)).
  { intros r1 s1. destruct (cap s - length (bbuf s) <? length b); [apply er_flush_buf|].
    intros H; inversion H; subst; reflexivity. }
  destruct (if cap s - length (bbuf s) <? length b then flush_buf s op else (ROk tt, s)) as [r1 s1].
  rewrite (F r1 s1 eq_refl). clear F.
  destruct r1; try (intros H; inversion H; subst; reflexivity).
  cbn [erase p_cap p_buf]. fold (erase s1).
  destruct (cap s1 <=? length b); [|intros H; inversion H; subst; reflexivity].
  intros H. apply er_direct in H. destruct first; exact H.
Qed.

Lemma er_mlw_flush s op r s' :
  mlw_flush s op = (r, s') -> p_mlw_flush (erase s) = (r, erase s').
Proof.
  unfold mlw_flush, p_mlw_flush. destruct (flush_buf s op) as [r1 s1] eqn:F. apply er_flush_buf in F. rewrite F.
  destruct r1; intros H; inversion H; subst; reflexivity.
Qed.

Lemma er_mlw_write s m op r s' :
  mlw_write s m op = (r, s') -> p_mlw_write (erase s) m = (r, erase s').
Proof.
  unfold mlw_write, p_mlw_write. cbn [erase p_cap p_written p_ending]. fold (erase s).
  destruct (cap s <? written s); [intros H; inversion H; subst; reflexivity|].
  destruct (cap s <? length m + length (ending s)); [apply er_direct|].
  assert (F : forall r0 s0,
    (if cap s - written s <? length m + length (ending s) then mlw_flush s op else (ROk tt, s)) = (r0, s0) ->
    (if cap s - written s <? length m + length (ending s) then p_mlw_flush (erase s) else (ROk tt, erase s))
      = (r0, erase s0)).
  { intros r0 s0. destruct (cap s - written s <? length m + length (ending s)); [apply er_mlw_flush|].
    intros H; inversion H; subst; reflexivity. }
  destruct (if cap s - written s <? length m + length (ending s) then mlw_flush s op else (ROk tt, s)) as [r0 s0].
  rewrite (F r0 s0 eq_refl). clear F.
  destruct r0; try (intros H; inversion H; subst; reflexivity).
  destruct (bw_write s0 m (op, m) true op) as [r1 s1] eqn:W1. apply er_bw_write in W1. rewrite W1.
  destruct r1 as [w1| | |]; try (intros H; inversion H; subst; reflexivity).
  change (pset_written (erase s1) (p_written (erase s1) + w1)) with (erase (set_written s1 (written s1 + w1))).
  set (s1' := set_written s1 (written s1 + w1)).
  change (p_ending (erase s1')) with (ending s1').
  destruct (bw_write s1' (ending s1') (op, m) false op) as [r2 s2] eqn:W2. apply er_bw_write in W2. rewrite W2.
  destruct r2; intros H; inversion H; subst; reflexivity.
Qed.

(* ---------------------------------------------------------------- the erasure theorems *)
Theorem erasure_step s n o :
  p_step (erase s) o = (fst (step s n o), erase (snd (step s n o))).
Proof.
  destruct o as [m|]; cbn [step p_step].
  - destruct (mlw_write s m n) as [r s'] eqn:W. apply er_mlw_write in W. rewrite W. reflexivity.
  - destruct (mlw_flush s n) as [r s'] eqn:W. apply er_mlw_flush in W. rewrite W. reflexivity.
Qed.

Theorem erasure_run_from ops : forall s n,
  p_run_from (erase s) ops = (fst (run_from s n ops), erase (snd (run_from s n ops))).
Proof.
  induction ops as [|o ops IH]; intros s n; cbn [run_from p_run_from]; [reflexivity|].
  rewrite (erasure_step s n o). destruct (step s n o) as [x s1]. cbn [fst snd].
  rewrite (IH s1 (S n)). destruct (run_from s1 (S n) ops) as [xs s2]. reflexivity.
Qed.

Theorem erasure_drop s op : p_drop (erase s) = erase (mlw_drop s op).
Proof.
  unfold p_drop, mlw_drop. destruct (flush_buf s op) as [r s'] eqn:F. apply er_flush_buf in F.
  rewrite F. reflexivity.
Qed.

Theorem erasure_run c e script ops :
  p_run c e script ops = (fst (run c e script ops), erase (snd (run c e script ops))).
Proof.
  unfold p_run, run. change (p_init c e script) with (erase (init c e script)).
  rewrite (erasure_run_from ops (init c e script) 0).
  destruct (run_from (init c e script) 0 ops) as [rs s]. cbn [fst snd].
  now rewrite (erasure_drop s (length ops)).
Qed.

(* The same without mentioning the ghost-free copy: two states that differ only in ghost data
   (pending identities, labels and operation numbers of the logged attempts), driven with the
   same operations numbered in any two ways, give the same results and end in states that
   again differ only in ghost data. *)
Theorem ghost_irrelevant_step s1 s2 n1 n2 o :
  erase s1 = erase s2 ->
  fst (step s1 n1 o) = fst (step s2 n2 o) /\ erase (snd (step s1 n1 o)) = erase (snd (step s2 n2 o)).
Proof.
  intros E. pose proof (erasure_step s1 n1 o) as H1. pose proof (erasure_step s2 n2 o) as H2.
  rewrite E in H1. rewrite H1 in H2.
  split; [exact (f_equal fst H2)|exact (f_equal snd H2)].
Qed.

Theorem ghost_irrelevant_run ops s1 s2 n1 n2 :
  erase s1 = erase s2 ->
  fst (run_from s1 n1 ops) = fst (run_from s2 n2 ops) /\
  erase (snd (run_from s1 n1 ops)) = erase (snd (run_from s2 n2 ops)).
Proof.
  intros E. pose proof (erasure_run_from ops s1 n1) as H1. pose proof (erasure_run_from ops s2 n2) as H2.
  rewrite E in H1. rewrite H1 in H2.
  split; [exact (f_equal fst H2)|exact (f_equal snd H2)].
Qed.

Theorem ghost_irrelevant_drop s1 s2 n1 n2 :
  erase s1 = erase s2 -> erase (mlw_drop s1 n1) = erase (mlw_drop s2 n2).
Proof. intros E. rewrite <- !erasure_drop. now rewrite E. Qed.

(* what [erase] keeps: everything the correspondence check observes *)
Lemma erase_log_keeps (l1 l2 : list attempt) :
  map erase_att l1 = map erase_att l2 <->
  map a_bytes l1 = map a_bytes l2 /\ map a_out l1 = map a_out l2.
Proof.
  revert l2. induction l1 as [|a l IH]; intros [|a2 l2]; cbn; try (split; [discriminate|intros [? ?]; discriminate]).
  - split; auto.
  - unfold erase_att at 1 3. split.
    + intros H. inversion H as [[B O T]]. apply IH in T. destruct T as [T1 T2]. rewrite B, O, T1, T2. auto.
    + intros [H1 H2]. inversion H1 as [[B T1]]. inversion H2 as [[O T2]]. f_equal. apply IH. auto.
Qed.

Lemma erase_keeps s1 s2 :
  erase s1 = erase s2 <->
  written s1 = written s2 /\ cap s1 = cap s2 /\ bbuf s1 = bbuf s2 /\ ending s1 = ending s2 /\
  sc s1 = sc s2 /\ map a_bytes (lg s1) = map a_bytes (lg s2) /\ map a_out (lg s1) = map a_out (lg s2).
Proof.
  split.
  - intros E. unfold erase in E. inversion E as [[E1 E2 E3 E4 E5 E6]].
    apply erase_log_keeps in E6. tauto.
  - intros (E1 & E2 & E3 & E4 & E5 & E6 & E7). unfold erase. rewrite E1, E2, E3, E4, E5. f_equal.
    apply erase_log_keeps. auto.
Qed.

(* non-vacuity: a state with scrambled ghost data and different operation numbers *)
Example erasure_witness :
  let s1 := init 8 [10%N] [WIntr; WErr 3%N] in
  let ops := [Emit [1;2;3]; Emit [4;5]; Emit [6;7;8]; Flush; Emit [1;1;1;1;1;1;1;1;1]; Flush]%N in
  let '(r1, t1) := run_from s1 0 ops in
  let '(r2, t2) := run_from (set_buf s1 [] [(7, [9%N]); (7, [9%N])]) 40 ops in
  r1 = r2 /\ erase t1 = erase t2 /\ map a_op (lg t1) <> map a_op (lg t2) /\
  r1 = [OOk 3; OOk 2; OErr 3%N; OOk 0; OOk 9; OOk 0].
Proof. vm_compute. repeat split; try reflexivity. discriminate. Qed.

(* ====================================================================== A.19: zero-length lines
   A line is zero-length when the metric and the terminator are both empty.  The identity
   ledgers (C06/C07/C12) filter such lines out with [nzb].  What holds for them:
   (1) on the BYTE level nothing is excluded: the bytes of the successful whole-line writes
       followed by the buffer are exactly the concatenated lines of ALL acknowledged fitting
       metrics, zero-length ones included (they contribute no byte) - [bytes_conserved];
   (2) with a capacity > 0 the emit of a zero-length line answers Ok(0), attempts no write,
       consumes no outcome and leaves the buffer alone; only the ghost list grows -
       [zero_line_emit];
   (3) the identity statements cannot be extended to them: an acknowledged zero-length line
       may be forgotten by the ghost ledger (flush of an empty buffer) or, with capacity 0,
       counted twice (two empty writes) - Examples [zero_line_forgotten], [zero_line_twice]. *)
Definition ok_bytes (a : attempt) : str :=
  match a_out a, a_lab a with WOk, Lines _ => a_bytes a | _, _ => [] end.
Definition okbytes (l : list attempt) : str := flat_map ok_bytes l.

Lemma render_filter_nz e l : render e (filter (nzb e) l) = render e l.
Proof.
  induction l as [|g l IH]; [reflexivity|]. cbn [filter].
  change (render e (g :: l)) with (line e g ++ render e l).
  unfold nzb at 1. destruct (line e g) eqn:L.
  - cbn [app]. exact IH.
  - change (render e (g :: filter (nzb e) l)) with (line e g ++ render e (filter (nzb e) l)).
    now rewrite IH, L.
Qed.

Lemma render_sentL c e l : Forall (frame_ok c e) l -> render e (sentL l) = okbytes l.
Proof.
  induction 1 as [|a l Fa _ IH]; [reflexivity|].
  change (sentL (a :: l)) with (ok_ids a ++ sentL l). change (okbytes (a :: l)) with (ok_bytes a ++ okbytes l).
  rewrite render_app, IH. f_equal.
  unfold ok_ids, ok_bytes, frame_ok in *. destruct (a_out a); try reflexivity.
  destruct (a_lab a); [|reflexivity]. destruct Fa as (_ & B & _). now rewrite B.
Qed.

Theorem bytes_conserved c e script ops rs s :
  run_from (init c e script) 0 ops = (rs, s) ->
  okbytes (lg s) ++ bbuf s = render e (fit_ids c e (acked 0 ops rs)).
Proof.
  intros R. destruct (ledger_reach _ _ _ _ _ _ R) as [L _].
  destruct (reach_inv _ _ _ _ _ _ R) as (I & C & E & atts & P).
  destruct P as [_ _ Lg _ Fr _ _ _ _ _ _]. cbn in Lg, Fr.
  apply (f_equal (render e)) in L. rewrite !render_filter_nz, render_app in L.
  rewrite <- L. f_equal.
  - symmetry. rewrite Lg. eapply render_sentL. exact Fr.
  - destruct I as [_ _ B]. now rewrite B, E.
Qed.

Theorem bytes_conserved_final c e script ops rs s :
  run c e script ops = (rs, s) ->
  okbytes (lg s) ++ bbuf s = render e (fit_ids c e (acked 0 ops rs)).
Proof.
  intros R. destruct (ledger_run _ _ _ _ _ _ R) as [L _].
  pose proof (frame_all _ _ _ _ _ _ R) as Fr.
  apply (f_equal (render e)) in L. rewrite !render_filter_nz, render_app in L.
  rewrite <- L. f_equal; [symmetry; eapply render_sentL; exact Fr|].
  unfold run in R. destruct (run_from (init c e script) 0 ops) as [rs0 s1] eqn:R1.
  inversion R; subst; clear R.
  destruct (reach_inv _ _ _ _ _ _ R1) as ([_ _ B] & _ & E & _). rewrite E in B.
  unfold mlw_drop. destruct (flush_buf s1 (length ops)) as [r s2] eqn:F. cbn [snd].
  apply flush_buf_shape in F. destruct F as [(_ & _ & ->)|(_ & k & o & Sh)]; [reflexivity|].
  destruct Sh as (_ & _ & _ & _ & _ & _ & _ & M).
  destruct o; [destruct M as (_ & -> & ->); reflexivity|destruct M as (_ & -> & ->); exact B|contradiction].
Qed.

Theorem zero_line_emit s n x s' :
  Inv s -> ending s = [] -> 0 < cap s -> step s n (Emit []) = (x, s') ->
  x = OOk 0 /\ lg s' = lg s /\ sc s' = sc s /\ bbuf s' = bbuf s /\ written s' = written s /\
  bids s' = bids s ++ [(n, [])].
Proof.
  intros I E C H. pose proof (inv_len _ I) as Hlen. destruct I as [Ile _ _].
  cbn [step] in H. destruct (mlw_write s [] n) as [r s1] eqn:W. inversion H; subst x s1; clear H.
  rewrite mlw_write_unfold in W. rewrite E in W. cbn [length Nat.add] in W.
  assert (E0 : (cap s <? written s) = false) by (apply Nat.ltb_ge; lia).
  assert (E1 : (cap s <? 0) = false) by (apply Nat.ltb_ge; lia).
  assert (E2 : (cap s - written s <? 0) = false) by (apply Nat.ltb_ge; lia).
  rewrite E0, E1, E2 in W. unfold mlw_tail in W. cbv zeta in W.
  destruct (bw_write s [] (n, []) true n) as [r1 s1] eqn:W1.
  apply bw_write_fits in W1; [|lia|cbn; lia].
  destruct W1 as [(_ & -> & ->)|(Z & _)]; [|cbn in Z; lia].
  cbn [set_buf set_written written cap bbuf bids ending sc lg length] in W. rewrite E in W.
  match type of W with context [bw_write ?x [] _ false n] => set (s1 := x) in * end.
  destruct (bw_write s1 [] (n, []) false n) as [r2 s2] eqn:W2.
  apply bw_write_fits in W2; subst s1; cbn [set_buf set_written written cap bbuf bids ending sc lg length] in *;
    [|rewrite app_nil_r; lia|lia].
  destruct W2 as [(_ & -> & ->)|(Z & _)]; [|lia].
  inversion W; subst; cbn. rewrite !app_nil_r, !Nat.add_0_r. repeat split; reflexivity.
Qed.

(* terminator [], capacity 4: the acknowledged zero-length metric 0 is pending as a ghost and
   then forgotten by the flush of the empty buffer; emitted behind a non-empty buffer
   (operation 3) it travels in the label of the next write *)
Example zero_line_forgotten :
  let '(rs, s) := run_from (init 4 [] []) 0 [Emit []; Flush; Emit [7%N]; Emit []; Flush] in
  (rs, map (fun a => (a_bytes a, match a_lab a with Lines ms => map fst ms | Alone g => [fst g] end)) (lg s),
   map fst (sentL (lg s) ++ bids s), map fst (acked 0 [Emit []; Flush; Emit [7%N]; Emit []; Flush] rs)) =
  ([OOk 0; OOk 0; OOk 1; OOk 0; OOk 0], [([7%N], [2; 3])], [2; 3], [0; 2; 3]).
Proof. vm_compute. reflexivity. Qed.

(* terminator [], capacity 0: the zero-length metric is written (as an empty datagram) twice,
   once for the metric part and once for the terminator part, and logged twice as sent *)
Example zero_line_twice :
  let '(rs, s) := run_from (init 0 [] []) 0 [Emit []] in
  (rs, map (fun a => (a_bytes a, a_out a)) (lg s), map fst (sentL (lg s)), map fst (bids s)) =
  ([OOk 0], [([], WOk); ([], WOk)], [0; 0], []).
Proof. vm_compute. reflexivity. Qed.

(* the byte-level statement on a run with zero-length lines, a failure and an oversized metric *)
Example bytes_conserved_witness :
  let ops := [Emit [1;2]; Emit []; Emit [3;4;5]; Emit [1;1;1;1;1]; Emit [6]; Flush]%N in
  let '(rs, s) := run_from (init 4 [] [WErr 9%N]) 0 ops in
  (rs, okbytes (lg s), bbuf s, map fst (fit_ids 4 [] (acked 0 ops rs))) =
  ([OOk 2; OOk 0; OErr 9%N; OOk 5; OOk 1; OOk 0], [1;2;6]%N, [], [0; 1; 4]).
Proof. vm_compute. reflexivity. Qed.

(* ====================================================================== assumptions *)
Print Assumptions flush_loop_shape.
Print Assumptions flush_buf_shape.
Print Assumptions flush_buf_never_interrupted.
Print Assumptions flush_step_result.
Print Assumptions flush_result_reach.
Print Assumptions flush_nothing_pending.
Print Assumptions flush_nothing_pending_reach.
Print Assumptions flush_something_pending.
Print Assumptions drop_shape.
Print Assumptions drop_sends_rest.
Print Assumptions emit_shape.
Print Assumptions emit_flushes_all.
Print Assumptions emit_interrupted_own.
Print Assumptions emit_drop_witness.
Print Assumptions erasure_step.
Print Assumptions erasure_run_from.
Print Assumptions erasure_drop.
Print Assumptions erasure_run.
Print Assumptions ghost_irrelevant_step.
Print Assumptions ghost_irrelevant_run.
Print Assumptions ghost_irrelevant_drop.
Print Assumptions erase_keeps.
Print Assumptions erasure_witness.
Print Assumptions bytes_conserved.
Print Assumptions bytes_conserved_final.
Print Assumptions zero_line_emit.
Print Assumptions zero_line_forgotten.
Print Assumptions zero_line_twice.
Print Assumptions bytes_conserved_witness.

(* the name the header of Model/Writer.v uses *)
Definition erasure := erasure_run_from.
Print Assumptions erasure.
