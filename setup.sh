#!/bin/bash
# Build the framework from files on disk only (offline): the Coq development (full .vo
# build), the extracted OCaml model runner, the Rust harness against /repo.
set -e
cd "$(dirname "$0")"
export CARGO_NET_OFFLINE=true
mkdir -p build/extracted build/replays evidence
python3 - <<'PY'
import sys
sys.path.insert(0, ".")
from driver import common
rc, out = common.build_coq(keep_going=True)
print(out[-1500:])
if rc != 0:
    # a file that does not build only affects the checks that depend on it; each check
    # rebuilds and audits its own Props/<id>.vo and reports a broken proof obligation itself
    print("WARNING: some Coq files did not build")
rc2, out2 = common.build_coq([common.EXTRACT_VO])
if rc2 != 0:
    print(out2[-3000:])
    sys.exit(1)
common.build_modelrun()
ok, out = common.build_harness()
print("harness build:", "ok" if ok else out[-3000:])
if ok:
    ok, out = common.build_harness(debug=True)      # C20 also runs the plain debug profile
    print("harness build (debug profile):", "ok" if ok else out[-3000:])
sys.exit(0 if ok else 1)
PY
echo "setup done"
