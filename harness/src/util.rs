//! Shared helpers: hex coding of byte strings, token parsing, panic capture.
use std::panic::{self, AssertUnwindSafe};

pub fn hex(b: &[u8]) -> String {
    if b.is_empty() {
        return "-".to_string();
    }
    let mut s = String::with_capacity(b.len() * 2);
    for x in b {
        s.push_str(&format!("{:02x}", x));
    }
    s
}

pub fn unhex(s: &str) -> Vec<u8> {
    if s == "-" {
        return Vec::new();
    }
    let b = s.as_bytes();
    assert!(b.len() % 2 == 0, "odd hex string {:?}", s);
    let nib = |c: u8| -> u8 {
        match c {
            b'0'..=b'9' => c - b'0',
            b'a'..=b'f' => c - b'a' + 10,
            b'A'..=b'F' => c - b'A' + 10,
            _ => panic!("bad hex digit in {:?}", s),
        }
    };
    (0..b.len() / 2).map(|i| nib(b[2 * i]) * 16 + nib(b[2 * i + 1])).collect()
}

pub fn unhex_str(s: &str) -> String {
    String::from_utf8(unhex(s)).expect("case strings must be valid UTF-8")
}

/// Run `f`, turning an unwinding panic into `Err(message)`.
pub fn catch<T>(f: impl FnOnce() -> T) -> Result<T, String> {
    panic::catch_unwind(AssertUnwindSafe(f)).map_err(|e| {
        if let Some(s) = e.downcast_ref::<&str>() {
            s.to_string()
        } else if let Some(s) = e.downcast_ref::<String>() {
            s.clone()
        } else {
            "panic".to_string()
        }
    })
}

/// Silence the default panic message (panics are expected and reported in the
/// observation line instead).
pub fn quiet_panics() {
    panic::set_hook(Box::new(|_| {}));
}

/// Error payload with an identity, so that "the sink's own error" can be recognised.
#[derive(Debug)]
pub struct Payload(pub u64);
impl std::fmt::Display for Payload {
    fn fmt(&self, f: &mut std::fmt::Formatter<'_>) -> std::fmt::Result {
        write!(f, "payload {}", self.0)
    }
}
impl std::error::Error for Payload {}

/// ids 9000 / 9001: the sink's io::Error carries one of the CRATE's OWN errors as its payload (a forwarding sink has
/// no other way to report a MetricResult failure through io::Result): InvalidInput-kind / IoError-kind
pub const OWN_INVALID: u64 = 9000;
pub const OWN_IO: u64 = 9001;

pub fn payload_of(e: &std::io::Error) -> Option<u64> {
    let r = e.get_ref()?;
    if let Some(p) = r.downcast_ref::<Payload>() {
        return Some(p.0);
    }
    r.downcast_ref::<cadence::MetricError>().map(|m| match m.kind() {
        cadence::ErrorKind::InvalidInput => OWN_INVALID,
        cadence::ErrorKind::IoError => OWN_IO,
    })
}

/// the io::Error a scripted sink refuses with: kind, and a payload that identifies it
pub fn refusal(kind: std::io::ErrorKind, id: u64) -> std::io::Error {
    if id == OWN_INVALID {
        std::io::Error::new(kind, cadence::MetricError::from((cadence::ErrorKind::InvalidInput, "inner")))
    } else if id == OWN_IO {
        std::io::Error::new(kind, cadence::MetricError::from(std::io::Error::new(std::io::ErrorKind::Other, Payload(5))))
    } else {
        std::io::Error::new(kind, Payload(id))
    }
}
