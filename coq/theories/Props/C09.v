(* C09 — Queuing sink: the last drop drains, then stops and releases the wrapped sink.

   Pinned statements about Cadence.Model.Queue; [step true] = the repaired code, [step false] =
   the pinned tree.  Histories = all event lists accepted by [run] (all interleavings), every
   capacity incl. [Some 0] and [None], every occupancy at drop time, every outcome script.
   Vocabulary as in Props/C08.v.  [sink_released s] = no handle is left and the worker thread
   has returned from run(), i.e. the last Arc of the wrapped sink is gone (its Drop runs; with
   C06 a wrapped buffered sink then flushes its remaining lines). *)
Require Import Cadence.Base.Prelude.
Require Import Cadence.Model.Writer.
Require Import Cadence.Proofs.WriterBase.
Require Import Cadence.Proofs.WriterRun.
Require Import Cadence.Model.Queue.
Require Import Cadence.Proofs.QueueInv.
Require Import Cadence.Proofs.QueueLive.
Require Import Cadence.Proofs.QueueV0.
Require Import Cadence.Proofs.StackProofs.

(* in every reachable state without a live handle — whatever the capacity, however full the
   queue was at the last drop, whether the marker sits in the channel, with the helper thread
   or with the worker — and for every outcome script (accept, fail, panic): the background
   side alone (a continuation by background events only) delivers every accepted metric once,
   in order, with the scripted outcomes; then the worker exits and the wrapped sink is released *)
Theorem c09_last_drop : forall cap handler evs s rs outs fuel,
  run true (init_q cap handler) evs = Some (s, rs) -> q_handles s = 0 -> mu s < fuel ->
  let s' := quiesce true fuel s outs in
  (exists wevs wrs, Forall worker_side wevs /\ run true s wevs = Some (s', wrs)) /\
  q_wk s' = WExited /\ sink_released s' = true /\
  q_delivered s' = q_delivered s ++ answers (pending_ids s) outs /\
  map fst (q_delivered s') = seq 0 (q_accepted s) /\
  q_chan s' = [] /\ q_pill_pending s' = false.
Proof. exact last_drop. Qed.

(* [fuel_of s] is enough *)
Theorem c09_last_drop_fuel_of : forall cap handler evs s rs outs,
  run true (init_q cap handler) evs = Some (s, rs) -> q_handles s = 0 ->
  let s' := quiesce true (fuel_of s) s outs in
  q_wk s' = WExited /\ sink_released s' = true /\
  q_delivered s' = q_delivered s ++ answers (pending_ids s) outs /\
  map fst (q_delivered s') = seq 0 (q_accepted s).
Proof. exact last_drop_fuel_of. Qed.

(* drains THEN stops: in every reachable state in which the worker has exited no handle is
   left, nothing is queued or with the helper, and everything accepted has been delivered *)
Theorem c09_drained_before_exit : forall cap handler evs s rs,
  run true (init_q cap handler) evs = Some (s, rs) -> q_wk s = WExited ->
  q_handles s = 0 /\ q_chan s = [] /\ q_pill_pending s = false /\
  map fst (q_delivered s) = seq 0 (q_accepted s).
Proof. exact reach_exited. Qed.

(* ... and releases the wrapped sink - end to end with a BUFFERED wrapped sink (the documented
   production stack client -> QueuingMetricSink -> BufferedUdp/UnixMetricSink): once the worker has
   exited, the buffered sink has been driven with exactly the accepted metrics 0 .. n-1 in acceptance
   order ([pay i] = text of the metric accepted as number i) and then dropped ([Writer.run] ends
   with the drop, which flushes); with a socket that accepts every datagram each of these emits
   returned Ok, every metric that fits a datagram was written exactly once in whole lines in that
   order, every oversized one exactly once on its own - nothing accepted is left in any buffer *)
Theorem c09_stack : forall cap handler evs s rs c e pay rs' w,
  Queue.run true (init_q cap handler) evs = Some (s, rs) -> q_wk s = WExited ->
  Writer.run c e [] (delivered_ops pay (q_delivered s)) = (rs', w) ->
  map fst (q_delivered s) = seq 0 (q_accepted s) /\
  Forall2 (fun i x => x = OOk (length (pay i))) (seq 0 (q_accepted s)) rs' /\
  filter (nzb e) (sentL (lg w)) =
    filter (nzb e) (filter (fitg c e) (map (fun i => (i, pay i)) (seq 0 (q_accepted s)))) /\
  sentA (lg w) = filter (fun g => negb (fitg c e g)) (map (fun i => (i, pay i)) (seq 0 (q_accepted s))).
Proof. exact stack_conservation. Qed.

(* exactly one stop marker exists once no handle is left, none before (channel + helper +
   worker): the worker is told to stop once, and only by the last drop *)
Theorem c09_one_marker : forall cap handler evs s rs,
  run true (init_q cap handler) evs = Some (s, rs) ->
  markers s = match q_handles s with O => 1 | S _ => 0 end.
Proof. intros cap handler evs s rs R. exact (I_markers s (inv_reach _ _ _ _ _ R)). Qed.

(* dropping a handle never blocks and never fails: in EVERY state (either semantics) with a live
   handle EDropH is enabled and is ONE step that returns; it does not wait for the worker or
   for the helper (no other event is needed), and touches neither the delivery log nor the
   acceptance count *)
Theorem c09_drop_total : forall fixed s, q_handles s <> 0 ->
  exists s', step fixed s EDropH = Some (s', RNone) /\ S (q_handles s') = q_handles s /\
             q_delivered s' = q_delivered s /\ q_accepted s' = q_accepted s.
Proof. exact droph_spec. Qed.

(* the last drop on a full queue returns at once, leaving the marker with the helper thread *)
Theorem c09_drop_full : forall s, q_handles s = 1 -> room s = false ->
  exists s', step true s EDropH = Some (s', RNone) /\ q_handles s' = 0 /\
             q_pill_pending s' = true /\ q_chan s' = q_chan s /\ q_wk s' = q_wk s.
Proof. exact droph_full. Qed.

(* the pinned tree violates C09 (defect D3): capacity 1, the queue is full when the last handle
   is dropped; the marker is lost: no handle is left, yet under ANY continuation (and after
   [quiesce] with any fuel and script) the worker never exits and the sink is never released *)
Theorem c09_refuted_v0 : forall handler,
  exists s, run false (init_q (Some 1) handler) [ETrySend; EIncSubmitted; EDropH]
              = Some (s, [ROk; RNone; RNone]) /\
    q_handles s = 0 /\
    (forall evs' s' rs', run false s evs' = Some (s', rs') ->
       q_wk s' <> WExited /\ sink_released s' = false) /\
    (forall fuel outs, q_wk (quiesce false fuel s outs) <> WExited /\
                       sink_released (quiesce false fuel s outs) = false).
Proof. exact c09_refuted. Qed.

(* capacity 0 (rendezvous): the worker is busy when the last handle is dropped *)
Theorem c09_refuted_v0_cap0 : forall handler,
  exists s, run false (init_q (Some 0) handler) [ETrySend; EDropH] = Some (s, [ROk; RNone]) /\
    q_handles s = 0 /\
    (forall evs' s' rs', run false s evs' = Some (s', rs') ->
       q_wk s' <> WExited /\ sink_released s' = false) /\
    (forall fuel outs, q_wk (quiesce false fuel s outs) <> WExited /\
                       sink_released (quiesce false fuel s outs) = false).
Proof. exact c09_refuted_cap0. Qed.

(* capacity 2, the schedule-independent variant replayed on the real crate: the wrapped sink is
   held on metric 0 while the queue fills up *)
Theorem c09_refuted_v0_cap2 : forall handler,
  exists s, run false (init_q (Some 2) handler)
              [ETrySend; EWDequeue; EWStep; ETrySend; ETrySend; ETrySend; EDropH]
              = Some (s, [ROk; RNone; RNone; ROk; ROk; RFull; RNone]) /\
    q_handles s = 0 /\
    (forall evs' s' rs', run false s evs' = Some (s', rs') ->
       q_wk s' <> WExited /\ sink_released s' = false) /\
    (forall fuel outs, q_wk (quiesce false fuel s outs) <> WExited /\
                       sink_released (quiesce false fuel s outs) = false).
Proof. exact c09_refuted_cap2. Qed.

(* non-vacuity: the three histories above under the repaired semantics, and the last drop at
   every occupancy 0..2 of a capacity-2 queue with a panic among the outcomes *)
Example c09_witness :
  let fin cap evs outs :=
    match run true (init_q cap false) evs with
    | Some (s, _) => let s' := quiesce true (fuel_of s) s outs in
                     Some (q_handles s, q_pill_pending s, q_wk s', map fst (q_delivered s'),
                           map snd (q_delivered s'), sink_released s')
    | None => None
    end in
  fin (Some 1) [ETrySend; EIncSubmitted; EDropH] [SPanic]
    = Some (0, true, WExited, [0], [SPanic], true) /\
  fin (Some 0) [ETrySend; EDropH] [SErr 5]
    = Some (0, true, WExited, [0], [SErr 5], true) /\
  fin (Some 2) [ETrySend; EWDequeue; EWStep; ETrySend; ETrySend; ETrySend; EDropH] [SOk; SPanic; SOk]
    = Some (0, true, WExited, [0; 1; 2], [SOk; SPanic; SOk], true) /\
  fin (Some 2) [EDropH] [] = Some (0, false, WExited, [], [], true) /\
  fin (Some 2) [ETrySend; EDropH] [SPanic] = Some (0, false, WExited, [0], [SPanic], true) /\
  fin (Some 2) [ETrySend; ETrySend; EDropH] [SPanic; SPanic]
    = Some (0, true, WExited, [0; 1], [SPanic; SPanic], true) /\
  fin None [ETrySend; ETrySend; ETrySend; EClone; EDropH; EDropH] []
    = Some (0, false, WExited, [0; 1; 2], [SOk; SOk; SOk], true).
Proof. vm_compute. repeat split; reflexivity. Qed.

(* ==== added after the audit of 2026-10-02 (selftest/audit/REPORT-2026-10-02.md) ==== *)
Require Import Cadence.Proofs.WriterThms.
Require Import Cadence.Proofs.AuditQ.

(* after the last drop EVERY background schedule (any order of worker, helper thread,
   bookkeeping; any outcomes) is at most [mu s] events long, can be prolonged unless stuck, and
   once stuck the worker has exited and the wrapped sink is released, everything accepted having
   been delivered first, in order, with the outcomes the schedule's completions carried *)
Theorem c09_any_schedule : forall cap handler evs s rs wevs s' wrs,
  Queue.run true (init_q cap handler) evs = Some (s, rs) -> q_handles s = 0 ->
  Forall worker_side wevs -> Queue.run true s wevs = Some (s', wrs) ->
  length wevs <= mu s /\
  (stuck true s' \/ exists ev s'', worker_side ev /\ Queue.step true s' ev = Some (s'', RNone)) /\
  (stuck true s' ->
     q_wk s' = WExited /\ sink_released s' = true /\
     q_delivered s' = q_delivered s ++ combine (pending_ids s) (finish_outs wevs) /\
     map fst (q_delivered s') = seq 0 (q_accepted s) /\ q_chan s' = [] /\ q_pill_pending s' = false).
Proof. exact last_drop_any_schedule. Qed.

(* [c09_stack] for an ARBITRARY fault script of the wrapped buffered sink's socket: once the
   worker has exited the buffered sink has been driven with exactly the accepted metrics 0..n-1
   in acceptance order and then dropped.  One result per metric; Ok carries the byte length; no
   panic; an error / interrupted result is an outcome the socket returned during that very emit;
   every datagram is framed (C05); the metrics whose emit answered Ok ([acked], characterised in
   the 4th clause) and that fit a datagram were written, each once, whole lines, acceptance order,
   except those still in the buffer after the drop ([bids w]) - and the buffer is empty after the
   drop unless the socket refused the drop's own flush (then the log ends with that failed
   attempt, numbered n); every acknowledged oversized metric went out exactly once on its own.
   If the outcomes the worker saw are the writer's results, the error handler got exactly the
   writer's error results, each once, in order. *)
Theorem c09_stack_faults : forall cap handler evs s rs c e script pay xs w,
  Queue.run true (init_q cap handler) evs = Some (s, rs) -> q_wk s = WExited ->
  Writer.run c e script (delivered_ops pay (q_delivered s)) = (xs, w) ->
  map fst (q_delivered s) = seq 0 (q_accepted s) /\
  delivered_ops pay (q_delivered s) = map (fun i => Emit (pay i)) (seq 0 (q_accepted s)) /\
  Forall2 (fun i x => match x with OOk k => k = length (pay i) | OPanic => False | _ => True end)
          (seq 0 (q_accepted s)) xs /\
  (forall i m, In (i, m) (acked 0 (delivered_ops pay (q_delivered s)) xs) <->
               i < q_accepted s /\ m = pay i /\ exists k, nth_error xs i = Some (OOk k)) /\
  (forall i er, nth_error xs i = Some (OErr er) ->
     exists a, In a (lg w) /\ a_op a = i /\ a_out a = WErr er) /\
  (forall i, nth_error xs i = Some OIntr ->
     exists a, In a (lg w) /\ a_op a = i /\ a_out a = WIntr) /\
  Forall (frame_ok c e) (lg w) /\
  filter (nzb e) (sentL (lg w) ++ bids w) =
    filter (nzb e) (fit_ids c e (acked 0 (delivered_ops pay (q_delivered s)) xs)) /\
  sentA (lg w) = big_ids c e (acked 0 (delivered_ops pay (q_delivered s)) xs) /\
  (bids w = [] \/ exists pre a er, lg w = pre ++ [a] /\ a_op a = q_accepted s /\ a_out a = WErr er) /\
  (map snd (q_delivered s) = map sout_of xs ->
   q_handled s = if handler then werrs (seq 0 (q_accepted s)) xs else []).
Proof. exact stack_faults_life. Qed.

(* joint non-vacuity of [c09_stack_faults] (and of [c16_stack]): a queue history (capacity 2,
   refused emit, clone, last drop on a full queue) whose delivery outcomes ARE the results of the
   writer (capacity 8, newline) driven with the delivered metrics under a fault script.
   Script 1: emit 1 fails, the oversized metric 2 is interrupted, the drop's flush is refused
   (4 and 5 stay in the buffer).  Script 2: the drop succeeds, nothing is left. *)
Example c09_stack_joint_witness_1 :
  let script := [WErr 5; WIntr; WOk; WErr 9]%N in
  let o i := nth i [SOk; SErr 5; SErr 0; SOk; SOk; SOk] SOk in
  match Queue.run true (init_q (Some 2) true) (wit_history o) with
  | Some (s, rs) =>
    let '(xs, w) := Writer.run 8 [10%N] script (delivered_ops wit_pay (q_delivered s)) in
    let '(xs', w') := Writer.run_from (init 8 [10%N] script) 0 (delivered_ops wit_pay (q_delivered s)) in
    q_wk s = WExited /\ q_accepted s = 6 /\ count_ok rs = 6 /\
    map snd (q_delivered s) = map sout_of xs /\ xs' = xs /\
    xs = [OOk 3; OErr 5%N; OIntr; OOk 2; OOk 4; OOk 1] /\
    q_handled s = [(1, 5); (2, 0)] /\ q_handled s = werrs (seq 0 6) xs /\
    map fst (acked 0 (delivered_ops wit_pay (q_delivered s)) xs) = [0; 3; 4; 5] /\
    map fst (sentL (lg w)) = [0; 3] /\ map fst (bids w) = [4; 5] /\ sentA (lg w) = [] /\
    map (fun a => (a_op a, a_out a)) (lg w) = [(1, WErr 5%N); (2, WIntr); (4, WOk); (6, WErr 9%N)] /\
    map fst (bids w') = [4; 5] /\ length (lg w') = 3
  | None => False
  end.
Proof. exact stack_joint_witness_1. Qed.

Example c09_stack_joint_witness_2 :
  let script := [WOk; WErr 5; WOk; WIntr; WErr 7]%N in
  let o i := nth i [SOk; SOk; SErr 5; SOk; SOk; SErr 7] SOk in
  match Queue.run true (init_q (Some 2) true) (wit_history o) with
  | Some (s, rs) =>
    let '(xs, w) := Writer.run 8 [10%N] script (delivered_ops wit_pay (q_delivered s)) in
    q_wk s = WExited /\ map snd (q_delivered s) = map sout_of xs /\
    xs = [OOk 3; OOk 5; OErr 5%N; OOk 2; OOk 4; OErr 7%N] /\
    q_handled s = [(2, 5); (5, 7)] /\ q_handled s = werrs (seq 0 6) xs /\
    map fst (acked 0 (delivered_ops wit_pay (q_delivered s)) xs) = [0; 1; 3; 4] /\
    map fst (sentL (lg w)) = [0; 1; 3; 4] /\ bids w = [] /\ sentA (lg w) = [] /\
    map (fun a => (a_op a, a_out a)) (lg w) =
      [(1, WOk); (2, WErr 5%N); (3, WOk); (5, WIntr); (5, WErr 7%N); (6, WOk)]
  | None => False
  end.
Proof. exact stack_joint_witness_2. Qed.
