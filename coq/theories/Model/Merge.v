(* Concurrent use of one buffered sink: several threads, each with its own program of
   emits and flushes, call into the same MultiLineWriter; the sink's mutex makes every
   call one atomic step (cadence/src/sinks/{udp,unix,spy}.rs: the whole emit — metric,
   terminator, possible flush — runs under one guard).  A concurrent run is therefore the
   sequential writer of Cadence.Model.Writer executed on an interleaving of the programs;
   which interleaving is the scheduler's choice: a list of thread numbers (the order in
   which the lock was taken).

   Definitions only; no proofs in this file. *)
Require Import Cadence.Base.Prelude.
Require Import Cadence.Model.Writer.

Section Merge.
Context {A : Type}.

(* take the next operation of thread [t], if it has one left *)
Fixpoint pick (t : nat) (ps : list (list A)) : option (A * list (list A)) :=
  match ps, t with
  | [], _ => None
  | p :: r, O => match p with [] => None | x :: p' => Some (x, p' :: r) end
  | p :: r, S t' => match pick t' r with Some (x, r') => Some (x, p :: r') | None => None end
  end.

(* the interleaving chosen by a schedule; a turn given to a thread that has finished
   (or does not exist) is a no-op, so that every list of numbers is a schedule *)
Fixpoint merge_by (sched : list nat) (ps : list (list A)) : list (nat * A) :=
  match sched with
  | [] => []
  | t :: r => match pick t ps with
              | Some (x, ps') => (t, x) :: merge_by r ps'
              | None => merge_by r ps
              end
  end.

(* what is left of the programs after a schedule *)
Fixpoint rest_by (sched : list nat) (ps : list (list A)) : list (list A) :=
  match sched with
  | [] => ps
  | t :: r => match pick t ps with
              | Some (_, ps') => rest_by r ps'
              | None => rest_by r ps
              end
  end.

(* the interleavings of the programs [ps], as a relation: all programs run to their end *)
Inductive is_merge : list (list A) -> list (nat * A) -> Prop :=
| merge_done ps : Forall (fun p => p = []) ps -> is_merge ps []
| merge_step t x ps ps' l : pick t ps = Some (x, ps') -> is_merge ps' l -> is_merge ps ((t, x) :: l).

(* the operations of thread [t] in an interleaving, in order *)
Definition proj (t : nat) (l : list (nat * A)) : list A :=
  map snd (filter (fun x => fst x =? t) l).
End Merge.

(* a concurrent life of a writer: construction, the interleaved calls, the final drop *)
Definition conc_run (c : nat) (e : str) (script : list outcome) (ps : list (list op)) (sched : list nat)
  : list ores * st :=
  run c e script (map snd (merge_by sched ps)).

(* the thread that issued the operation a ghost identity refers to *)
Definition owner (l : list (nat * op)) (t : nat) (g : nat * str) : bool :=
  match nth_error l (fst g) with Some (u, _) => u =? t | None => false end.

(* the metrics a program emits, in program order *)
Fixpoint emits_of (p : list op) : list str :=
  match p with
  | Emit m :: r => m :: emits_of r
  | Flush :: r => emits_of r
  | [] => []
  end.

(* results of the interleaved calls handed back to the threads that made them *)
Definition results_of (t : nat) (l : list (nat * op)) (rs : list ores) : list ores :=
  map snd (filter (fun x => fst (fst x) =? t) (combine l rs)).

(* the harness's view: the buffered sinks of the crate (newline, 512 unless configured),
   driven in the observed lock order *)
Definition conc_sink (c : option nat) (script : list outcome) (ps : list (list op)) (sched : list nat)
  : list (nat * op) * list ores * st :=
  let l := merge_by sched ps in
  let '(rs, s) := run_from (sink_init c script) 0 (map snd l) in
  (l, rs, mlw_drop s (length l)).
