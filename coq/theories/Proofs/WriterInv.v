(* The invariant of the Writer model and the specification of each API call
   (framing of what it appends to the log, the ghost ledger, why it wrote). *)
Require Import Cadence.Base.Prelude.
Require Import Cadence.Model.Writer.
Require Import Cadence.Proofs.WriterBase.

Record Inv (s : st) : Prop := {
  inv_le : written s <= cap s;
  inv_sync : length (bbuf s) = written s \/ (bbuf s = [] /\ written s = cap s);
  inv_buf : bbuf s = render (ending s) (bids s) }.

Lemma inv_init c e script : Inv (init c e script).
Proof. constructor; cbn; auto; lia. Qed.

Lemma inv_len s : Inv s -> length (bbuf s) <= cap s.
Proof. intros [A [B|[B C]] _]; [lia | rewrite B; cbn; lia]. Qed.

(* ------------------------------------------------------------------ BufWriter::write
   when the data fits in the spare room (the only situation MultiLineWriter creates) *)
Lemma bw_write_fits s b g first op r s' :
  length (bbuf s) <= cap s ->
  length b <= cap s - length (bbuf s) ->
  bw_write s b g first op = (r, s') ->
  (length b < cap s /\ r = ROk (length b) /\
   s' = set_buf s (bbuf s ++ b) (if first then bids s ++ [g] else bids s))
  \/
  (length b = cap s /\ bbuf s = [] /\
   direct (if first then s else set_buf s (bbuf s) (removelast (bids s))) b (Lines [g]) op = (r, s')).
Proof.
  intros Hlen Hfit. unfold bw_write.
  destruct (length b <? cap s - length (bbuf s)) eqn:E1.
  - apply Nat.ltb_lt in E1. intros H; inversion H; subst. left. repeat split; auto. lia.
  - apply Nat.ltb_ge in E1.
    assert (E2 : (cap s - length (bbuf s) <? length b) = false) by (apply Nat.ltb_ge; lia).
    rewrite E2.
    destruct (cap s <=? length b) eqn:E3.
    + apply Nat.leb_le in E3. intros H. right.
      assert (length (bbuf s) = 0) by lia.
      repeat split; auto; try lia. now apply length_zero_iff_nil.
    + apply Nat.leb_gt in E3. intros H; inversion H; subst. left. repeat split; auto.
Qed.

Lemma render_removelast_nil e l : render e l = [] -> render e (removelast l) = [].
Proof.
  induction l as [|g l IH]; cbn; auto. intros H.
  apply app_eq_nil in H. destruct H as [H1 H2].
  destruct l as [|g' l']; [reflexivity|].
  change (removelast (g :: g' :: l')) with (g :: removelast (g' :: l')).
  unfold render in *. cbn [map concat]. rewrite H1. cbn. apply IH. exact H2.
Qed.

(* ------------------------------------------------------------------ the buffered path of
   MultiLineWriter::write, after the decision whether to flush *)
Definition mlw_tail (s0 : st) (m : str) (op : nat) : res nat * st :=
  let g := (op, m) in
  match bw_write s0 m g true op with
  | (ROk w1, s1) =>
    let s1 := set_written s1 (written s1 + w1) in
    match bw_write s1 (ending s1) g false op with
    | (ROk w2, s2) => (ROk w1, set_written s2 (written s2 + w2))
    | (RErr e, s2) => (RErr e, s2) | (RIntr, s2) => (RIntr, s2) | (RPanic, s2) => (RPanic, s2)
    end
  | (RErr e, s1) => (RErr e, s1) | (RIntr, s1) => (RIntr, s1) | (RPanic, s1) => (RPanic, s1)
  end.

(* the error (if any) an API call returns is the outcome of the last underlying write it made *)
Definition err_last (atts : list attempt) (o : outcome) : Prop :=
  exists pre a, atts = pre ++ [a] /\ a_out a = o.

Definition tail_post (s0 : st) (m : str) (op : nat) (r : res nat) (s' : st) : Prop :=
  let g := (op, m) in let e := ending s0 in
  Inv s' /\ same_cfg s0 s' /\
  exists atts, ext s0 s' op atts /\ Forall (frame_ok (cap s0) e) atts /\
    Forall (fun a => a_lab a = Lines [g]) atts /\
    (atts <> [] -> length m = cap s0 \/ length e = cap s0) /\
    sentA atts = [] /\
    match r with
    | ROk n => n = length m /\ filter (nzb e) (sentL atts ++ bids s') = filter (nzb e) (bids s0 ++ [g])
    | RErr x => filter (nzb e) (sentL atts ++ bids s') = filter (nzb e) (bids s0) /\ err_last atts (WErr x)
    | RIntr => filter (nzb e) (sentL atts ++ bids s') = filter (nzb e) (bids s0) /\ err_last atts WIntr
    | RPanic => False
    end.

Lemma length_nil_inv {A} (l : list A) : length l = 0 -> l = [].
Proof. destruct l; cbn; [auto|discriminate]. Qed.

Lemma filter_nz_one_nil e g : snd g = [] -> e = [] -> filter (nzb e) [g] = [].
Proof. intros A B. destruct g as [i b]. cbn in *. subst. reflexivity. Qed.

Lemma ledger_swap e (l : list gm) g :
  filter (nzb e) l = [] -> filter (nzb e) (g :: l) = filter (nzb e) (l ++ [g]).
Proof. intros H. rewrite filter_app, H. cbn. destruct (nzb e g); now rewrite ?H. Qed.

Lemma tail_spec s0 (m : str) op r s' :
  Inv s0 -> length m + length (ending s0) <= cap s0 - written s0 ->
  mlw_tail s0 m op = (r, s') -> tail_post s0 m op r s'.
Proof.
  intros I Hreq. unfold mlw_tail. cbv zeta.
  pose proof (inv_len _ I) as Hlen.
  destruct I as [Ile Isync Ibuf].
  assert (Hsp : length m + length (ending s0) <= cap s0 - length (bbuf s0)).
  { destruct Isync as [Hs|[Hs1 Hs2]]; [lia|]. rewrite Hs1. cbn. lia. }
  destruct (bw_write s0 m (op, m) true op) as [r1 s1] eqn:W1.
  apply bw_write_fits in W1; [|lia|lia].
  destruct W1 as [(Hm & Hr1 & Hs1)|(Hm & Hb0 & D1)].
  - (* the metric part is buffered *)
    subst r1 s1. cbn [set_buf set_written written cap bbuf bids ending sc lg].
    match goal with |- context [bw_write ?x (ending s0) ?g0 false op] => set (s1 := x); set (g := g0) in * end.
    destruct (bw_write s1 (ending s0) g false op) as [r2 s2] eqn:W2.
    apply bw_write_fits in W2; subst s1; cbn [set_buf set_written written cap bbuf bids ending sc lg] in *;
      [| rewrite app_length; lia | rewrite app_length; lia].
    destruct W2 as [(He & Hr2 & Hs2)|(He & Hb1 & D2)].
    + (* ... and so is the terminator *)
      subst r2 s2. intros H; inversion H; subst r s'. clear H.
      unfold tail_post. cbn [set_buf set_written written cap bbuf bids ending sc lg].
      split.
      { constructor; cbn [set_buf set_written written cap bbuf bids ending sc lg].
        - lia.
        - destruct Isync as [Hs|[Hs1 Hs2]].
          + left. rewrite !app_length. lia.
          + assert (length m = 0 /\ length (ending s0) = 0) as [Z1 Z2] by lia.
            apply length_nil_inv in Z1, Z2. right. rewrite Hs1, Z1, Z2. cbn. split; [auto|lia].
        - rewrite render_app, render_one, <- Ibuf. cbn [snd]. now rewrite app_assoc. }
      split; [split; reflexivity|].
      exists []. split; [split; [cbn; now rewrite app_nil_r|constructor]|].
      split; [constructor|]. split; [constructor|]. split; [congruence|]. split; [reflexivity|].
      split; reflexivity.
    + (* ... the terminator alone fills the whole (empty) buffer and goes straight out *)
      cbn [set_buf set_written written cap bbuf bids ending sc lg] in He, Hb1.
      apply app_eq_nil in Hb1. destruct Hb1 as [Hb0 Hm0]. subst m.
      rewrite removelast_last in D2. cbn [length] in *.
      assert (Hw0 : written s0 = 0) by lia.
      apply direct_spec in D2. unfold same_cfg, ext in D2.
      cbn [set_buf set_written written cap bbuf bids ending sc lg] in D2.
      rewrite Hb0, Nat.add_0_r in D2. cbn [app] in D2.
      destruct D2 as (Dw & [Dc De] & Db & Di & o & [Dl Df] & Dr).
      set (a := {| a_bytes := ending s0; a_out := o; a_lab := Lines [g]; a_op := op |}) in *.
      assert (Fa : frame_ok (cap s0) (ending s0) a).
      { unfold frame_ok, a; cbn [a_lab a_bytes]. split; [discriminate|].
        split; [rewrite render_one; reflexivity|lia]. }
      assert (Hnil : filter (nzb (ending s0)) (bids s0) = []).
      { apply filter_nz_render_nil. now rewrite <- Ibuf. }
      destruct r2; intros H; inversion H; subst; clear H.
      * destruct Dr as [Dn Do]. subst a0. unfold tail_post.
        cbn [set_buf set_written written cap bbuf bids ending sc lg].
        split.
        { constructor; cbn [set_buf set_written written cap bbuf bids ending sc lg];
            rewrite ?Dw, ?Dc, ?De, ?Db, ?Di.
          - lia.
          - right. split; [auto|lia].
          - now rewrite <- Ibuf. }
        split; [split; cbn; auto|].
        exists [a]. split; [split; [cbn; exact Dl| exact Df]|].
        split; [constructor; [exact Fa|constructor]|]. split; [repeat constructor|].
        split; [intros _; right; lia|].
        split; [cbn; unfold ok_alone; cbn; now destruct o|].
        split; [reflexivity|].
        rewrite Di. unfold sentL; cbn. unfold ok_ids; cbn. rewrite Do. cbn [app].
        apply ledger_swap, Hnil.
      * unfold tail_post. split.
        { constructor; rewrite ?Dw, ?Dc, ?De, ?Db, ?Di.
          - lia.
          - left. cbn. lia.
          - now rewrite <- Ibuf. }
        split; [split; auto|].
        exists [a]. split; [split; [exact Dl| exact Df]|].
        split; [constructor; [exact Fa|constructor]|]. split; [repeat constructor|].
        split; [intros _; right; lia|].
        split; [reflexivity|].
        split; [rewrite Di; reflexivity | exists [], a; split; reflexivity].
      * unfold tail_post. split.
        { constructor; rewrite ?Dw, ?Dc, ?De, ?Db, ?Di.
          - lia.
          - left. cbn. lia.
          - now rewrite <- Ibuf. }
        split; [split; auto|].
        exists [a]. split; [split; [exact Dl| exact Df]|].
        split; [constructor; [exact Fa|constructor]|]. split; [repeat constructor|].
        split; [intros _; right; lia|].
        split; [reflexivity|].
        split; [rewrite Di; reflexivity | exists [], a; split; reflexivity].
      * contradiction.
  - (* the metric alone fills the whole (empty) buffer and goes straight out: the terminator is empty *)
    rewrite Hb0 in Hsp. cbn [length] in Hsp.
    assert (He0 : ending s0 = []) by (apply length_nil_inv; lia).
    assert (Hw0 : written s0 = 0).
    { destruct Isync as [Hs|[_ Hs]]; [rewrite Hb0 in Hs; cbn in Hs; lia | lia]. }
    match goal with |- context [bw_write _ _ ?g0 false op] => set (g := g0) in * end.
    apply direct_spec in D1. unfold same_cfg, ext in D1.
    destruct D1 as (Dw & [Dc De] & Db & Di & o & [Dl Df] & Dr).
    set (a := {| a_bytes := m; a_out := o; a_lab := Lines [g]; a_op := op |}) in *.
    assert (Fa : frame_ok (cap s0) (ending s0) a).
    { unfold frame_ok, a; cbn [a_lab a_bytes]. split; [discriminate|].
      split; [rewrite render_one, He0; cbn; now rewrite app_nil_r | lia]. }
    assert (Hrn : render (ending s0) (bids s0) = []) by (now rewrite <- Ibuf).
    assert (Hnil : filter (nzb (ending s0)) (bids s0) = []) by (now apply filter_nz_render_nil).
    destruct r1 as [w1| | |].
    + destruct Dr as [Dn Do]. subst w1.
      match goal with |- context [bw_write ?x _ g false op] => set (s1' := x) end.
      destruct (bw_write s1' (ending s1') g false op) as [r2 s2] eqn:W2.
      apply bw_write_fits in W2; subst s1'; cbn [set_buf set_written written cap bbuf bids ending sc lg] in *;
        [| rewrite ?De, ?He0, ?Db, ?Dc; cbn [length]; lia | rewrite ?De, ?He0, ?Db, ?Dc; cbn [length]; lia].
      rewrite De, He0, Db, Dc in W2. cbn [length app] in W2.
      destruct W2 as [(Hc & Hr2 & Hs2)|(Hc & _ & D2)].
      * subst r2 s2. intros H; inversion H; subst r s'. clear H.
        unfold tail_post. cbn [set_buf set_written written cap bbuf bids ending sc lg].
        split.
        { constructor; cbn [set_buf set_written written cap bbuf bids ending sc lg];
            rewrite ?Dw, ?Dc, ?De, ?Db, ?Di, ?He0, ?Hb0.
          - lia.
          - right. split; [reflexivity|lia].
          - cbn. rewrite He0 in Hrn. now rewrite Hrn. }
        split; [split; cbn; auto|].
        exists [a]. split; [split; [cbn; exact Dl| exact Df]|].
        split; [constructor; [exact Fa|constructor]|]. split; [repeat constructor|].
        split; [intros _; left; lia|].
        split; [cbn; unfold ok_alone; cbn; now destruct o|].
        split; [reflexivity|].
        rewrite Di. unfold sentL; cbn. unfold ok_ids; cbn. rewrite Do. cbn [app].
        apply ledger_swap, Hnil.
      * (* capacity 0: the empty terminator is written directly as well *)
        assert (Hm0 : m = []) by (apply length_nil_inv; lia).
        apply direct_spec in D2. unfold same_cfg, ext in D2.
        cbn [set_buf set_written written cap bbuf bids ending sc lg] in D2.
        destruct D2 as (Ew & [Ec Ee] & Eb & Ei & o2 & [El Ef] & Er).
        set (a2 := {| a_bytes := []; a_out := o2; a_lab := Lines [g]; a_op := op |}) in *.
        assert (Fa2 : frame_ok (cap s0) (ending s0) a2).
        { unfold frame_ok, a2; cbn [a_lab a_bytes]. split; [discriminate|].
          split; [rewrite render_one, He0; subst g; cbn; now rewrite Hm0 | cbn; lia]. }
        assert (Hrl : render (ending s0) (removelast (bids s0)) = []) by (now apply render_removelast_nil).
        assert (Hnl : filter (nzb (ending s0)) (removelast (bids s0)) = []) by (now apply filter_nz_render_nil).
        assert (Hg : filter (nzb (ending s0)) [g] = []) by (apply filter_nz_one_nil; subst g; auto).
        assert (Hext : lg s2 = lg s0 ++ [a; a2]) by (rewrite El, Dl, <- app_assoc; reflexivity).
        assert (Hlab : Forall (fun a0 : attempt => a_lab a0 = Lines [g]) [a; a2]) by (repeat constructor).
        assert (Hops : Forall (fun a0 : attempt => a_op a0 = op) [a; a2]) by (repeat constructor).
        assert (HsA : sentA [a; a2] = []) by (cbn; unfold ok_alone; cbn; destruct o, o2; reflexivity).
        assert (HL : filter (nzb (ending s0)) (sentL [a; a2] ++ removelast (bids s0)) = []).
        { rewrite filter_app, Hnl, app_nil_r. unfold sentL; cbn. unfold ok_ids; cbn.
          destruct o, o2; cbn [app]; rewrite ?app_nil_r;
            try reflexivity; try exact Hg;
            change [g; g] with ([g] ++ [g]); rewrite filter_app, Hg; reflexivity. }
        assert (HR : filter (nzb (ending s0)) (bids s0 ++ [g]) = []) by (rewrite filter_app, Hnil, Hg; reflexivity).
        destruct r2; intros H; inversion H; subst; clear H.
        -- unfold tail_post. cbn [set_buf set_written written cap bbuf bids ending sc lg].
           split.
           { constructor; cbn [set_buf set_written written cap bbuf bids ending sc lg];
               rewrite ?Ew, ?Ec, ?Ee, ?Eb, ?Ei, ?Dw, ?Dc, ?De, ?Db, ?Di, ?He0, ?Hb0.
             - destruct Er as [Er _]. subst. cbn. lia.
             - destruct Er as [Er _]. subst. cbn. left. lia.
             - rewrite <- He0. now rewrite Hrl. }
           split; [split; cbn; congruence|].
           exists [a; a2]. split; [split; [cbn; exact Hext| exact Hops]|].
           split; [constructor; [exact Fa|constructor; [exact Fa2|constructor]]|]. split; [exact Hlab|].
           split; [intros _; left; lia|]. split; [exact HsA|]. split; [reflexivity|].
           fold g. rewrite Ei, HR, Di. exact HL.
        -- unfold tail_post. split.
           { constructor; rewrite ?Ew, ?Ec, ?Ee, ?Eb, ?Ei, ?Dw, ?Dc, ?De, ?Db, ?Di, ?He0, ?Hb0;
               cbn [set_buf set_written written cap bbuf bids ending sc lg length].
             - lia.
             - left. lia.
             - rewrite <- He0. now rewrite Hrl. }
           split; [split; cbn; congruence|].
           exists [a; a2]. split; [split; [exact Hext| exact Hops]|].
           split; [constructor; [exact Fa|constructor; [exact Fa2|constructor]]|]. split; [exact Hlab|].
           split; [intros _; left; lia|]. split; [exact HsA|].
           split; [rewrite Ei, Hnil, Di; exact HL | exists [a], a2; split; reflexivity].
        -- unfold tail_post. split.
           { constructor; rewrite ?Ew, ?Ec, ?Ee, ?Eb, ?Ei, ?Dw, ?Dc, ?De, ?Db, ?Di, ?He0, ?Hb0;
               cbn [set_buf set_written written cap bbuf bids ending sc lg length].
             - lia.
             - left. lia.
             - rewrite <- He0. now rewrite Hrl. }
           split; [split; cbn; congruence|].
           exists [a; a2]. split; [split; [exact Hext| exact Hops]|].
           split; [constructor; [exact Fa|constructor; [exact Fa2|constructor]]|]. split; [exact Hlab|].
           split; [intros _; left; lia|]. split; [exact HsA|].
           split; [rewrite Ei, Hnil, Di; exact HL | exists [a], a2; split; reflexivity].
        -- contradiction.
    + intros H; inversion H; subst; clear H. unfold tail_post. split.
      { constructor; rewrite ?Dw, ?Dc, ?De, ?Db, ?Di, ?Hb0.
        - lia.
        - left. cbn. lia.
        - now rewrite Hrn. }
      split; [split; auto|].
      exists [a]. split; [split; [exact Dl| exact Df]|].
      split; [constructor; [exact Fa|constructor]|]. split; [repeat constructor|].
      split; [intros _; left; lia|].
      split; [reflexivity|].
      split; [rewrite Di; reflexivity | exists [], a; split; reflexivity].
    + intros H; inversion H; subst; clear H. unfold tail_post. split.
      { constructor; rewrite ?Dw, ?Dc, ?De, ?Db, ?Di, ?Hb0.
        - lia.
        - left. cbn. lia.
        - now rewrite Hrn. }
      split; [split; auto|].
      exists [a]. split; [split; [exact Dl| exact Df]|].
      split; [constructor; [exact Fa|constructor]|]. split; [repeat constructor|].
      split; [intros _; left; lia|].
      split; [reflexivity|].
      split; [rewrite Di; reflexivity | exists [], a; split; reflexivity].
    + contradiction.
Qed.

(* ------------------------------------------------------------------ flush_buf under the invariant *)
Definition flushbuf_post (s : st) (op : nat) (r : res unit) (s' : st) : Prop :=
  let e := ending s in
  same_cfg s s' /\ written s' = written s /\
  exists atts, ext s s' op atts /\ Forall (frame_ok (cap s) e) atts /\ sentA atts = [] /\
    Forall (flush_att s op) atts /\ (bbuf s = [] -> atts = []) /\
    filter (nzb e) (sentL atts ++ bids s') = filter (nzb e) (bids s) /\
    match r with
    | ROk _ => bbuf s' = [] /\ bids s' = []
    | RErr x => err_last atts (WErr x) /\ bbuf s' = bbuf s /\ bids s' = bids s
    | _ => False
    end.

Lemma last_split {A} (l : list A) (a : A) : In a l -> last l a = a -> exists pre, l = pre ++ [a].
Proof.
  intros Hin Hl. destruct l as [|x l]; [contradiction|].
  exists (removelast (x :: l)).
  pose proof (app_removelast_last a (l:=x :: l)) as H. rewrite Hl in H. apply H. discriminate.
Qed.

Lemma flushbuf_spec s op r s' :
  Inv s -> flush_buf s op = (r, s') -> flushbuf_post s op r s'.
Proof.
  intros I H. pose proof (inv_len _ I) as Hlen. destruct I as [Ile Isync Ibuf].
  apply flush_buf_spec in H.
  destruct H as (Hw & Hc & atts & Hext & Hfl & HsA & Hnil & M).
  unfold flushbuf_post. split; [exact Hc|]. split; [exact Hw|].
  exists atts. split; [exact Hext|].
  assert (Hne : atts <> [] -> bbuf s <> []) by (intros N E; apply N, Hnil, E).
  assert (Hfr : Forall (frame_ok (cap s) (ending s)) atts).
  { apply Forall_forall. intros a Ha.
    assert (Hb : bbuf s <> []) by (apply Hne; intro; subst; contradiction).
    rewrite Forall_forall in Hfl. destruct (Hfl a Ha) as (A1 & A2 & A3).
    unfold frame_ok. rewrite A2, A1. split; [|split].
    - apply (render_ne (ending s)). now rewrite <- Ibuf.
    - exact Ibuf.
    - exact Hlen. }
  split; [exact Hfr|]. split; [exact HsA|]. split; [exact Hfl|]. split; [exact Hnil|].
  destruct r; try contradiction.
  - destruct M as (M1 & M2 & M3). split; [|split; assumption].
    rewrite M2, app_nil_r.
    destruct atts as [|a0 atts0].
    + cbn. symmetry. apply filter_nz_render_nil. rewrite <- Ibuf.
      destruct (bbuf s) as [|x xs]; [reflexivity|]. destruct M3 as [_ M3]; [discriminate|]. congruence.
    + destruct M3 as [M3 _]; [apply Hne; discriminate|]. now rewrite M3.
  - destruct M as (M1 & M2 & M3 & M4 & a & La & Oa & Ia).
    split; [rewrite M4, M2; reflexivity|]. split; [|split; assumption].
    destruct (last_split _ _ Ia La) as [pre Hp]. exists pre, a. split; assumption.
Qed.

(* ------------------------------------------------------------------ MultiLineWriter::flush *)
Definition flush_post (s : st) (op : nat) (r : res unit) (s' : st) : Prop :=
  let e := ending s in
  Inv s' /\ same_cfg s s' /\
  exists atts, ext s s' op atts /\ Forall (frame_ok (cap s) e) atts /\ sentA atts = [] /\
    Forall (flush_att s op) atts /\ (bbuf s = [] -> atts = []) /\
    filter (nzb e) (sentL atts ++ bids s') = filter (nzb e) (bids s) /\
    match r with
    | ROk _ => bbuf s' = [] /\ bids s' = [] /\ written s' = 0
    | RErr x => err_last atts (WErr x) /\ bbuf s' = bbuf s /\ bids s' = bids s /\ written s' = written s
    | _ => False
    end.

Lemma mlw_flush_spec s op r s' :
  Inv s -> mlw_flush s op = (r, s') -> flush_post s op r s'.
Proof.
  intros I. unfold mlw_flush. destruct (flush_buf s op) as [r0 s0] eqn:F.
  apply flushbuf_spec in F; [|exact I].
  destruct F as ([Fc Fe] & Fw & atts & Fx & Ffr & FA & Ffl & Fn & FL & M).
  destruct I as [Ile Isync Ibuf].
  destruct r0; try contradiction.
  - intros H; inversion H; subst; clear H. destruct M as [M1 M2].
    unfold flush_post. cbn [set_buf set_written written cap bbuf bids ending sc lg].
    split.
    { constructor; cbn [set_buf set_written written cap bbuf bids ending sc lg].
      - lia.
      - left. now rewrite M1.
      - now rewrite M1, M2. }
    split; [split; assumption|].
    exists atts. split; [exact Fx|]. split; [exact Ffr|]. split; [exact FA|]. split; [exact Ffl|].
    split; [exact Fn|]. split; [exact FL|]. repeat split; assumption.
  - intros H; inversion H; subst; clear H. destruct M as (M0 & M1 & M2).
    unfold flush_post. split.
    { constructor.
      - now rewrite Fw, Fc.
      - now rewrite M1, Fw, Fc.
      - now rewrite M1, M2, Fe. }
    split; [split; assumption|].
    exists atts. split; [exact Fx|]. split; [exact Ffr|]. split; [exact FA|]. split; [exact Ffl|].
    split; [exact Fn|]. split; [exact FL|]. repeat split; assumption.
Qed.

(* ------------------------------------------------------------------ MultiLineWriter::write *)
Definition fitsb (c : nat) (e : str) (m : str) : bool := negb (c <? length m + length e).

Definition emit_post (s : st) (m : str) (op : nat) (r : res nat) (s' : st) : Prop :=
  let g := (op, m) in let e := ending s in
  Inv s' /\ same_cfg s s' /\
  exists atts, ext s s' op atts /\ Forall (frame_ok (cap s) e) atts /\
    (* it wrote only because it had to *)
    (atts <> [] -> cap s <= length (bbuf s) + length m + length e) /\
    (* whatever it flushed could not have taken the new metric *)
    (forall a ms, In a atts -> a_lab a = Lines ms -> ~ In g ms ->
                  cap s < length (a_bytes a) + length m + length e) /\
    match r with
    | ROk n => n = length m /\
        if fitsb (cap s) e m
        then sentA atts = [] /\ filter (nzb e) (sentL atts ++ bids s') = filter (nzb e) (bids s ++ [g])
        else sentA atts = [g] /\ sentL atts = [] /\ bids s' = bids s
    | RErr x => sentA atts = [] /\ filter (nzb e) (sentL atts ++ bids s') = filter (nzb e) (bids s) /\
                err_last atts (WErr x)
    | RIntr => sentA atts = [] /\ filter (nzb e) (sentL atts ++ bids s') = filter (nzb e) (bids s) /\
                err_last atts WIntr
    | RPanic => False
    end.

Lemma mlw_write_unfold s m op :
  mlw_write s m op =
  if cap s <? written s then (RPanic, s) else
  if cap s <? length m + length (ending s) then direct s m (Alone (op, m)) op
  else
    let '(r0, s0) := if cap s - written s <? length m + length (ending s) then mlw_flush s op else (ROk tt, s) in
    match r0 with
    | ROk _ => mlw_tail s0 m op
    | RErr e => (RErr e, s0) | RIntr => (RIntr, s0) | RPanic => (RPanic, s0)
    end.
Proof. reflexivity. Qed.

Lemma err_last_app pre atts o : err_last atts o -> err_last (pre ++ atts) o.
Proof. intros (p & a & H1 & H2). exists (pre ++ p), a. split; [now rewrite H1, app_assoc|exact H2]. Qed.

Lemma fitsb_true c e m : fitsb c e m = true <-> length m + length e <= c.
Proof. unfold fitsb. rewrite negb_true_iff, Nat.ltb_ge. reflexivity. Qed.
Lemma fitsb_false c e m : fitsb c e m = false <-> c < length m + length e.
Proof. unfold fitsb. rewrite negb_false_iff, Nat.ltb_lt. reflexivity. Qed.

Lemma mlw_write_spec s (m : str) op r s' :
  Inv s -> mlw_write s m op = (r, s') -> emit_post s m op r s'.
Proof.
  intros I H. rewrite mlw_write_unfold in H.
  pose proof (inv_len _ I) as Hlen.
  destruct (cap s <? written s) eqn:E0.
  { apply Nat.ltb_lt in E0. destruct I. lia. }
  clear E0.
  destruct (cap s <? length m + length (ending s)) eqn:E1.
  - (* bypass *)
    apply Nat.ltb_lt in E1.
    apply direct_spec in H. destruct H as (Dw & [Dc De] & Db & Di & o & [Dl Df] & Dr).
    set (a := {| a_bytes := m; a_out := o; a_lab := Alone (op, m); a_op := op |}) in *.
    assert (Fa : frame_ok (cap s) (ending s) a) by (unfold frame_ok, a; cbn; split; [reflexivity|lia]).
    assert (I' : Inv s').
    { destruct I as [Ile Isync Ibuf]. constructor; rewrite ?Dw, ?Dc, ?Db, ?Di, ?De; assumption. }
    unfold emit_post. split; [exact I'|]. split; [split; assumption|].
    exists [a]. split; [split; assumption|]. split; [constructor; [exact Fa|constructor]|].
    split; [intros _; lia|].
    split. { intros a' ms [Ha|[]] Hl. subst a'. discriminate. }
    assert (Hf : fitsb (cap s) (ending s) m = false) by (now apply fitsb_false).
    rewrite Hf.
    destruct r.
    + destruct Dr as [Dn Do]. split; [exact Dn|]. subst a. rewrite Do. repeat split; auto.
    + subst a. rewrite Dr. split; [reflexivity|]. split; [rewrite Di; reflexivity|]. eexists [], _. split; reflexivity.
    + subst a. rewrite Dr. split; [reflexivity|]. split; [rewrite Di; reflexivity|]. eexists [], _. split; reflexivity.
    + contradiction.
  - (* buffered path *)
    apply Nat.ltb_ge in E1.
    assert (Hf : fitsb (cap s) (ending s) m = true) by (now apply fitsb_true).
    destruct (cap s - written s <? length m + length (ending s)) eqn:E2.
    + (* flush first *)
      apply Nat.ltb_lt in E2.
      destruct (mlw_flush s op) as [r0 s0] eqn:F.
      apply mlw_flush_spec in F; [|exact I].
      destruct F as (I0 & [Fc Fe] & atts1 & Fx & Ffr & FA & Ffl & Fn & FL & M).
      (* any flush attempt carried the whole buffer, which could not take the new metric *)
      assert (Hbig : atts1 <> [] -> cap s < length (bbuf s) + length m + length (ending s)).
      { intros N. assert (Hb : bbuf s <> []) by (intros Eb; apply N, Fn, Eb).
        destruct I as [Ile [Hs|[Hs _]] Ibuf]; [lia|contradiction]. }
      assert (Hmax1 : forall a ms, In a atts1 -> a_lab a = Lines ms -> ~ In (op, m) ms ->
                                   cap s < length (a_bytes a) + length m + length (ending s)).
      { intros a' ms Ha _ _. rewrite Forall_forall in Ffl. destruct (Ffl a' Ha) as (A1 & _ & _).
        rewrite A1. apply Hbig. intro; subst; contradiction. }
      destruct r0; try contradiction.
      * destruct M as (M1 & M2 & M3).
        apply tail_spec in H; [|exact I0|rewrite Fc, Fe, M3; lia].
        destruct H as (I' & [Tc Te] & atts2 & Tx & Tfr & Tlab & Tmust & TA & TR).
        rewrite Fc, Fe in *.
        unfold emit_post. split; [exact I'|]. split; [split; congruence|].
        exists (atts1 ++ atts2). split; [eapply ext_trans; eassumption|].
        split; [apply Forall_app; split; assumption|].
        split.
        { intros N. destruct atts1 as [|a1 l1].
          - cbn in N. specialize (Tmust N). lia.
          - assert (a1 :: l1 <> []) as N1 by discriminate. specialize (Hbig N1). lia. }
        split.
        { intros a' ms Ha Hl Hni. apply in_app_or in Ha. destruct Ha as [Ha|Ha].
          - eapply Hmax1; eassumption.
          - rewrite Forall_forall in Tlab. rewrite (Tlab a' Ha) in Hl. inversion Hl; subst.
            exfalso. apply Hni. left. reflexivity. }
        assert (HL1 : filter (nzb (ending s)) (sentL atts1) = filter (nzb (ending s)) (bids s)).
        { rewrite <- FL, M2, app_nil_r. reflexivity. }
        rewrite Hf, M2 in *. cbn [app] in TR.
        destruct r.
        -- destruct TR as [Tn TL]. split; [exact Tn|]. split; [rewrite sentA_app, FA, TA; reflexivity|].
           rewrite sentL_app, <- app_assoc, filter_app, TL, HL1, <- filter_app. reflexivity.
        -- destruct TR as [TL TE]. split; [rewrite sentA_app, FA, TA; reflexivity|].
           split; [|apply err_last_app; exact TE].
           rewrite sentL_app, <- app_assoc, filter_app, TL, HL1. cbn. now rewrite app_nil_r.
        -- destruct TR as [TL TE]. split; [rewrite sentA_app, FA, TA; reflexivity|].
           split; [|apply err_last_app; exact TE].
           rewrite sentL_app, <- app_assoc, filter_app, TL, HL1. cbn. now rewrite app_nil_r.
        -- contradiction.
      * inversion H; subst; clear H. destruct M as (M0 & M1 & M2 & M3).
        unfold emit_post. split; [exact I0|]. split; [split; assumption|].
        exists atts1. split; [exact Fx|]. split; [exact Ffr|].
        split; [intros N; specialize (Hbig N); lia|]. split; [exact Hmax1|].
        split; [exact FA|]. split; [exact FL|exact M0].
    + (* room is left: no flush *)
      apply Nat.ltb_ge in E2.
      apply tail_spec in H; [|exact I|lia].
      destruct H as (I' & [Tc Te] & atts2 & Tx & Tfr & Tlab & Tmust & TA & TR).
      unfold emit_post. split; [exact I'|]. split; [split; congruence|].
      exists atts2. split; [exact Tx|]. split; [exact Tfr|].
      split; [intros N; specialize (Tmust N); lia|].
      split.
      { intros a ms Ha Hl Hni. rewrite Forall_forall in Tlab. rewrite (Tlab a Ha) in Hl. inversion Hl; subst.
        exfalso. apply Hni. left. reflexivity. }
      rewrite Hf. destruct r; try contradiction.
      * destruct TR as [Tn TL]. auto.
      * destruct TR as [TL TE]. auto.
      * destruct TR as [TL TE]. auto.
Qed.
