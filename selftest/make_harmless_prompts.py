#!/usr/bin/env python3
"""Write /tmp/mut/H<family><letter>.prompt: the false-alarm brief (selftest/HARMLESS_PROMPT.tmpl) with the texts of all
properties of one family.  usage: make_harmless_prompts.py <letter>"""
import json, os, sys
letter = sys.argv[1]
props = {}
for l in open('/verif/properties.jsonl'):
    p = json.loads(l); props[p['id']] = p
FAM = {'wire': ['C01', 'C02', 'C03', 'C04'], 'writer': ['C05', 'C06', 'C07', 'C19'], 'queue': ['C08', 'C09', 'C10', 'C11', 'C15', 'C16'],
       'sock': ['C13', 'C14'], 'conc': ['C12'], 'mac': ['C17'], 'singleton': ['C18'], 'hostile': ['C20']}
tmpl = open('/verif/selftest/HARMLESS_PROMPT.tmpl').read()
os.makedirs('/tmp/mut', exist_ok=True)
for fam, ids in FAM.items():
    txt = []
    for i in ids:
        p = props[i]
        txt.append("Property %s - %s\n\nStatement: %s\n\nQuantifier: %s\n\nWhere in the code: %s" % (
            i, p['title'], p['statement'], p['quantifier']['text'],
            "; ".join("%s (%s)" % (m['name'], m['where']) for m in p['anchors']['mechanism'])))
    t = tmpl.replace('@ID@', 'H' + fam + letter).replace('@PROPS@', "\n\n-----\n\n".join(txt))
    open('/tmp/mut/H%s%s.prompt' % (fam, letter), 'w').write(t)
print("harmless prompts written for letter", letter)
