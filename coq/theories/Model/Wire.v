(* Model of cadence/src/builder.rs (MetricFormatter::format, MetricBuilder) and of the
   per-kind [*_with_tags] methods of cadence/src/client.rs: the exact text handed to the
   sink for every call, plus — independently of the formatter — a server-side parser of
   DogStatsD lines used to state the round trip.  Definitions only. *)
Require Import Cadence.Base.Prelude.
Require Import Cadence.Base.Decimal.
Require Import Cadence.Model.Convert.

(* the delimiter bytes *)
Definition b_colon : N := 58.   Definition b_pipe : N := 124.  Definition b_hash : N := 35.
Definition b_comma : N := 44.   Definition b_at : N := 64.     Definition b_nl : N := 10.
Definition b_dot : N := 46.     Definition b_T : N := 84.      Definition b_c : N := 99.

Definition is_delim (b : N) : bool :=
  N.eqb b b_colon || N.eqb b b_pipe || N.eqb b b_hash || N.eqb b b_comma || N.eqb b b_at || N.eqb b b_nl.
Definition clean (s : str) : bool := forallb (fun b => negb (is_delim b)) s.

(* MetricType's Display *)
Definition code (k : kind) : str :=
  match k with
  | Counter => [99] | Timer => [109; 115] | Gauge => [103] | Meter => [109]
  | Histogram => [104] | Distribution => [100] | SetK => [115]
  end%N.

Fixpoint join (sep : N) (parts : list str) : str :=
  match parts with
  | [] => []
  | [p] => p
  | p :: r => p ++ sep :: join sep r
  end.

(* the rendered values of a MetricValue, one text per value *)
Definition value_texts (v : mvalue) : list str :=
  match v with
  | Signed z => [render_Z z] | PackedSigned l => map render_Z l
  | Unsigned n => [render_N n] | PackedUnsigned l => map render_N l
  | Float t => [t] | PackedFloat l => l
  end.

Definition tag := (option str * str)%type.
Definition render_tag (t : tag) : str :=
  match t with (Some k, v) => k ++ b_colon :: v | (None, v) => v end.

Record formatter := {
  f_prefix : str;                (* already formatted: "" or "<trimmed>." *)
  f_key : str;
  f_val : mvalue;
  f_kind : kind;
  f_tags : list tag;
  f_timestamp : option N;
  f_rate : option str;           (* std Display text of the f64 rate *)
  f_container : option str
}.

(* MetricFormatter::format: base, sampling rate, tags, container id, timestamp — in the
   order of the push calls of the code *)
Definition format (f : formatter) : str :=
  f_prefix f ++ f_key f ++ b_colon :: join b_colon (value_texts (f_val f)) ++ b_pipe :: code (f_kind f)
  ++ match f_rate f with Some r => b_pipe :: b_at :: r | None => [] end
  ++ match f_tags f with [] => [] | ts => b_pipe :: b_hash :: join b_comma (map render_tag ts) end
  ++ match f_container f with Some c => b_pipe :: b_c :: b_colon :: c | None => [] end
  ++ match f_timestamp f with Some t => b_pipe :: b_T :: render_N t | None => [] end.

(* str::trim_end_matches('.') *)
Fixpoint trim_end_dots (s : str) : str :=
  match s with
  | [] => []
  | b :: r => match trim_end_dots r with
              | [] => if N.eqb b b_dot then [] else [b]
              | r' => b :: r'
              end
  end.

(* StatsdClientBuilder::formatted_prefix *)
Definition formatted_prefix (p : str) : str :=
  match p with [] => [] | _ => trim_end_dots p ++ [b_dot] end.

(* ------------------------------------------------------------------ builder operations *)
Inductive bop :=
| WithTag (k v : str) | WithTagValue (v : str) | WithContainerId (c : str)
| WithTimestamp (t : N) | WithSamplingRate (r : str).

Definition apply_bop (f : formatter) (o : bop) : formatter :=
  match o with
  | WithTag k v => {| f_prefix := f_prefix f; f_key := f_key f; f_val := f_val f; f_kind := f_kind f;
                      f_tags := f_tags f ++ [(Some k, v)]; f_timestamp := f_timestamp f;
                      f_rate := f_rate f; f_container := f_container f |}
  | WithTagValue v => {| f_prefix := f_prefix f; f_key := f_key f; f_val := f_val f; f_kind := f_kind f;
                      f_tags := f_tags f ++ [(None, v)]; f_timestamp := f_timestamp f;
                      f_rate := f_rate f; f_container := f_container f |}
  | WithContainerId c => {| f_prefix := f_prefix f; f_key := f_key f; f_val := f_val f; f_kind := f_kind f;
                      f_tags := f_tags f; f_timestamp := f_timestamp f;
                      f_rate := f_rate f; f_container := Some c |}
  | WithTimestamp t => {| f_prefix := f_prefix f; f_key := f_key f; f_val := f_val f; f_kind := f_kind f;
                      f_tags := f_tags f; f_timestamp := Some t;
                      f_rate := f_rate f; f_container := f_container f |}
  | WithSamplingRate r => {| f_prefix := f_prefix f; f_key := f_key f; f_val := f_val f; f_kind := f_kind f;
                      f_tags := f_tags f; f_timestamp := f_timestamp f;
                      f_rate := Some r; f_container := f_container f |}
  end.

(* ------------------------------------------------------------------ the client *)
Record config := {
  c_prefix : str;               (* as given to StatsdClient::builder / from_sink *)
  c_tags : list tag;            (* default tags, in the order configured *)
  c_container : option str      (* default container id *)
}.

Record call := {
  k_kind : kind;                (* which of the seven methods *)
  k_key : str;
  k_arg : arg;
  k_ops : list bop              (* builder calls before the send, in order *)
}.

(* <kind>_with_tags followed by the builder calls: an error builder ignores them *)
Definition build (cfg : config) (c : call) : option (merror + formatter) :=
  match to_value (k_kind c) (k_arg c) with
  | None => None
  | Some (inl e) => Some (inl e)
  | Some (inr v) =>
    match mv_count v with
    | O => Some (inl EInvalid)             (* MetricBuilder::from_fmt: empty packed value *)
    | _ =>
      Some (inr (fold_left apply_bop (k_ops c)
        {| f_prefix := formatted_prefix (c_prefix cfg); f_key := k_key c; f_val := v; f_kind := k_kind c;
           f_tags := c_tags cfg; f_timestamp := None; f_rate := None;
           f_container := c_container cfg |}))
    end
  end.

(* the text handed to the sink, or the error the call reports *)
Definition client_line (cfg : config) (c : call) : option (merror + str) :=
  match build cfg c with
  | None => None
  | Some (inl e) => Some (inl e)
  | Some (inr f) => Some (inr (format f))
  end.

(* the faithful model of the pinned tree before the fix of defect D1: no check of the count *)
Definition client_line_v0 (cfg : config) (c : call) : option (merror + str) :=
  match to_value (k_kind c) (k_arg c) with
  | None => None
  | Some (inl e) => Some (inl e)
  | Some (inr v) =>
      Some (inr (format (fold_left apply_bop (k_ops c)
        {| f_prefix := formatted_prefix (c_prefix cfg); f_key := k_key c; f_val := v; f_kind := k_kind c;
           f_tags := c_tags cfg; f_timestamp := None; f_rate := None;
           f_container := c_container cfg |})))
  end.

(* the standalone constructors Counter::new .. Set::new, Gauge::new_f64 ...: they take the
   full prefix text as is *)
Definition ctor_line (k : kind) (prefix key : str) (v : mvalue) : str :=
  format {| f_prefix := prefix; f_key := key; f_val := v; f_kind := k; f_tags := [];
            f_timestamp := None; f_rate := None; f_container := None |}.

(* ------------------------------------------------------------------ a server-side parser *)
(* split at every occurrence of [sep]; always at least one part *)
Fixpoint split_on (sep : N) (s : str) : list str :=
  match s with
  | [] => [[]]
  | b :: r =>
    if N.eqb b sep then [] :: split_on sep r
    else match split_on sep r with
         | p :: ps => (b :: p) :: ps
         | [] => [[b]]       (* unreachable *)
         end
  end.

(* split at the first occurrence of [sep] *)
Fixpoint split_first (sep : N) (s : str) : option (str * str) :=
  match s with
  | [] => None
  | b :: r =>
    if N.eqb b sep then Some ([], r)
    else match split_first sep r with Some (a, z) => Some (b :: a, z) | None => None end
  end.

Definition parse_tag (s : str) : tag :=
  match split_first b_colon s with Some (k, v) => (Some k, v) | None => (None, s) end.

Record parsed := {
  p_name : str; p_values : list str; p_type : str;
  p_rate : option str; p_tags : list tag; p_container : option str; p_timestamp : option N
}.

(* optional sections, each at most once and in this order: @rate, #tags, c:container, Ttimestamp *)
Definition take_rate (fs : list str) : option str * list str :=
  match fs with (b :: r) :: rest => if N.eqb b b_at then (Some r, rest) else (None, fs) | _ => (None, fs) end.
Definition take_tags (fs : list str) : list tag * list str :=
  match fs with
  | (b :: r) :: rest => if N.eqb b b_hash then (map parse_tag (split_on b_comma r), rest) else ([], fs)
  | _ => ([], fs)
  end.
Definition take_container (fs : list str) : option str * list str :=
  match fs with
  | (b :: b' :: r) :: rest => if N.eqb b b_c && N.eqb b' b_colon then (Some r, rest) else (None, fs)
  | _ => (None, fs)
  end.
Definition take_timestamp (fs : list str) : option (option N) * list str :=
  match fs with
  | (b :: r) :: rest => if N.eqb b b_T then (match parse_N r with Some n => Some (Some n) | None => None end, rest)
                        else (Some None, fs)
  | _ => (Some None, fs)
  end.

Definition parse_line (l : str) : option parsed :=
  match split_on b_pipe l with
  | f0 :: ty :: opt =>
    match split_first b_colon f0 with
    | None => None
    | Some (name, vals) =>
      let '(rate, o1) := take_rate opt in
      let '(tags, o2) := take_tags o1 in
      let '(cid, o3) := take_container o2 in
      match take_timestamp o3 with
      | (Some ts, []) =>
        Some {| p_name := name; p_values := split_on b_colon vals; p_type := ty; p_rate := rate;
                p_tags := tags; p_container := cid; p_timestamp := ts |}
      | _ => None
      end
    end
  | _ => None
  end.
