(* C18 — The global default client is set once and read race-free.

   Pinned statements.  The model is Cadence.Model.Singleton: SingletonHolder<T> of
   cadence-macros/src/state.rs on a release/acquire view machine (one atomic [state] whose
   messages carry views, one non-atomic [cell]; loads may read stale messages; a cell access
   races iff an earlier conflicting access is not known to happen-before it).
     [os : ords]     the four Ordering arguments written in state.rs — a PARAMETER, each ranging
                     over Relaxed | Release | Acquire | AcqRel | SeqCst;
     [progs]         ANY number of threads, each with ANY list of calls  CSet v | CGet | CIsSet;
     [sched]         ANY schedule: a list of (thread id, read choice); the read choice picks which
                     message a load / compare_exchange reads (0 = latest, larger = staler).
   [sg_run os progs sched] is the state after the schedule; its [g_trace] lists every executed
   instruction (thread, operation with the message index and value read / written, and the API
   result when the instruction ends a call), [g_accs] every access to the cell with the set
   [acc_hb] of accesses known to happen-before it, [g_raced] whether some access raced.
   Nothing below bounds the number of threads, the programs or the schedule.

   Side condition  ord_ok os :  the COMPLETE store is at least Release and is_set's load is at
   least Acquire; the two compare_exchange orderings are unconstrained.  c18_ord_needed shows the
   condition is also necessary, so for this code:  race-free for all programs and schedules
   <->  ord_ok. *)
Require Import Cadence.Base.Prelude.
Require Import Cadence.Model.Singleton.
Require Import Cadence.Proofs.SingletonThms.

(* the orderings written in the source satisfy the side condition *)
Theorem c18_source_orderings :
  ord_ok {| o_cas_ok := AcqRel; o_cas_fail := Relaxed; o_store := Release; o_load := Acquire |} = true.
Proof. reflexivity. Qed.

(* (a) no access to the cell ever races; the cell is written at most once; and, spelled out on the
   recorded happens-before sets: of any two conflicting accesses the earlier one is known to
   happen-before the later one *)
Theorem c18_race_free : forall (os : ords) (progs : list (list sg_call)) (sched : list (nat * nat)),
  ord_ok os = true ->
  let s := sg_run os progs sched in
  g_raced s = false /\
  length (filter acc_write (g_accs s)) <= 1 /\
  (forall i j ai aj, i < j ->
     nth_error (g_accs s) i = Some ai -> nth_error (g_accs s) j = Some aj ->
     acc_write ai || acc_write aj = true -> In i (acc_hb aj)).
Proof. exact thm_race_free. Qed.

(* (b) the first set wins — for EVERY orderings record (this rests on RMW atomicity only):
   at most one compare_exchange ever succeeds; only the thread whose compare_exchange succeeded
   writes the cell; what the cell holds is the argument of a set call of that thread's program;
   and once COMPLETE has been stored no continuation of the schedule (later sets included)
   changes [state] or the cell *)
Theorem c18_first_wins : forall (os : ords) (progs : list (list sg_call)) (sched : list (nat * nat)),
  let s := sg_run os progs sched in
  length (filter is_cas_ok (g_trace s)) <= 1 /\
  (forall a, In a (g_accs s) -> acc_write a = true ->
     exists r, In r (g_trace s) /\ is_cas_ok r = true /\ r_tid r = acc_tid a) /\
  (forall v, g_cell s = Some v ->
     exists w p r, nth_error progs w = Some p /\ In (CSet v) p /\
                   In r (g_trace s) /\ is_cas_ok r = true /\ r_tid r = w) /\
  (forall more, In COMPLETE (map mval (g_msgs s)) ->
     let s' := sg_run os progs (sched ++ more) in
     g_msgs s' = g_msgs s /\ g_cell s' = g_cell s).
Proof. exact thm_first_wins. Qed.

(* (c) what reads report.  A get that returns a value x (trace position k): x is what the cell
   holds (so every get returns the same value — c18_get_same — and by (b) it is the winner's),
   and strictly before it, in this order, the winner w wrote x into the cell (position h), w
   executed store(COMPLETE) creating message 2 (position i), and the getter itself loaded
   COMPLETE from that very message (position j): the store is executed AND visible to the getter.
   An is_set that returns true read message 2 after the cell write and the store.  Hence until
   the winner's set has stored COMPLETE every read reports "not set". *)
Theorem c18_get : forall (os : ords) (progs : list (list sg_call)) (sched : list (nat * nat)),
  ord_ok os = true ->
  let s := sg_run os progs sched in
  forall k r, nth_error (g_trace s) k = Some r ->
  (forall x, r_ret r = Some (RGet (Some x)) ->
     g_cell s = Some x /\
     exists h i j w, h < i /\ i < j /\ j < k /\
       nth_error (g_trace s) h = Some {| r_tid := w; r_op := OpCell true (Some x); r_ret := None |} /\
       nth_error (g_trace s) i = Some {| r_tid := w; r_op := OpStore (o_store os) 2 COMPLETE; r_ret := Some RUnit |} /\
       nth_error (g_trace s) j = Some {| r_tid := r_tid r; r_op := OpLoad (o_load os) 2 COMPLETE; r_ret := None |}) /\
  (r_ret r = Some (RIsSet true) ->
     exists h i w x, h < i /\ i < k /\
       nth_error (g_trace s) h = Some {| r_tid := w; r_op := OpCell true (Some x); r_ret := None |} /\
       nth_error (g_trace s) i = Some {| r_tid := w; r_op := OpStore (o_store os) 2 COMPLETE; r_ret := Some RUnit |} /\
       read_of r = Some (2, COMPLETE)).
Proof. exact thm_get. Qed.

Theorem c18_get_same : forall (os : ords) (progs : list (list sg_call)) (sched : list (nat * nat)),
  ord_ok os = true ->
  let s := sg_run os progs sched in
  forall k1 k2 r1 r2 x1 x2,
    nth_error (g_trace s) k1 = Some r1 -> nth_error (g_trace s) k2 = Some r2 ->
    r_ret r1 = Some (RGet (Some x1)) -> r_ret r2 = Some (RGet (Some x2)) -> x1 = x2.
Proof. exact thm_get_same. Qed.

(* (d) once a thread has observed COMPLETE it observes it forever — for EVERY orderings record
   (coherence): a later load / compare_exchange of the same thread reads COMPLETE whichever
   message it picks, and at the API: after is_set returned true or get returned a value, no later
   is_set of that thread returns false and no later get of that thread returns None *)
Theorem c18_complete_stable : forall (os : ords) (progs : list (list sg_call)) (sched : list (nat * nat)),
  let s := sg_run os progs sched in
  forall i j ri rj, i < j ->
    nth_error (g_trace s) i = Some ri -> nth_error (g_trace s) j = Some rj -> r_tid ri = r_tid rj ->
    (forall x y v, read_of ri = Some (x, COMPLETE) -> read_of rj = Some (y, v) -> v = COMPLETE) /\
    (r_ret ri = Some (RIsSet true) \/ (exists x, r_ret ri = Some (RGet (Some x))) ->
     r_ret rj <> Some (RIsSet false) /\ r_ret rj <> Some (RGet None)).
Proof. exact thm_complete_stable. Qed.

(* the side condition is not stronger than necessary: for EVERY orderings record that violates it
   (625 records, 400 of them violate it) the two-thread program  T0: set 7   T1: get  has a racy
   execution — the same five steps: T0 runs set to the end, T1 loads COMPLETE and reads the cell *)
Theorem c18_ord_needed : forall os : ords,
  ord_ok os = false ->
  g_raced (sg_run os [[CSet 7%N]; [CGet]] [(0, 0); (0, 0); (0, 0); (1, 0); (1, 0)]) = true.
Proof. exact thm_ord_needed. Qed.

(* in particular each of the two required orderings of the source, weakened to Relaxed *)
Example c18_ord_needed_store :
  g_raced (sg_run {| o_cas_ok := AcqRel; o_cas_fail := Relaxed; o_store := Relaxed; o_load := Acquire |}
                  [[CSet 7%N]; [CGet]] [(0, 0); (0, 0); (0, 0); (1, 0); (1, 0)]) = true.
Proof. vm_compute. reflexivity. Qed.

Example c18_ord_needed_load :
  g_raced (sg_run {| o_cas_ok := AcqRel; o_cas_fail := Relaxed; o_store := Release; o_load := Relaxed |}
                  [[CSet 7%N]; [CGet]] [(0, 0); (0, 0); (0, 0); (1, 0); (1, 0)]) = true.
Proof. vm_compute. reflexivity. Qed.

(* non-vacuity: a concrete 3-thread execution under the source orderings with two racing setters,
   a reader inside the initialisation window reading a STALE message (read choice 1), and a get
   that returns the winner's value *)
Example c18_witness :
  let s := sg_run source_ords [[CSet 7%N; CGet]; [CGet; CIsSet; CGet]; [CSet 8%N]]
                  [(0, 0); (2, 0); (1, 0); (0, 0); (0, 0); (1, 1); (1, 0); (1, 0); (0, 0); (0, 0)] in
  (map (fun r => (r_tid r, r_op r, r_ret r)) (g_trace s), g_cell s, g_raced s, sg_finished s) =
  ([(0, OpCas AcqRel Relaxed 0 0 true, None);
    (2, OpCas AcqRel Relaxed 1 1 false, Some RUnit);
    (1, OpLoad Acquire 1 1, Some (RGet None));
    (0, OpCell true (Some 7%N), None);
    (0, OpStore Release 2 2, Some RUnit);
    (1, OpLoad Acquire 1 1, Some (RIsSet false));
    (1, OpLoad Acquire 2 2, None);
    (1, OpCell false (Some 7%N), Some (RGet (Some 7%N)));
    (0, OpLoad Acquire 2 2, None);
    (0, OpCell false (Some 7%N), Some (RGet (Some 7%N)))],
   Some 7%N, false, true).
Proof. vm_compute. reflexivity. Qed.

(* non-vacuity of the explorer used by the search step: all 2 021 executions (stale reads
   included) of that program are race-free under the source orderings, and the explorer does find
   the race when the store is Relaxed *)
Example c18_explorer :
  sg_search source_ords [[CSet 7%N; CGet]; [CGet; CIsSet]; [CSet 8%N]] = (None, 2021%N) /\
  fst (sg_search {| o_cas_ok := AcqRel; o_cas_fail := Relaxed; o_store := Relaxed; o_load := Acquire |}
                 [[CSet 7%N]; [CGet]]) = Some [(0, 0); (0, 0); (0, 0); (1, 0); (1, 0)].
Proof. vm_compute. split; reflexivity. Qed.

(* ==== added after the audit of 2026-10-02 (selftest/audit/REPORT-2026-10-02.md) ==== *)
Require Import Cadence.Proofs.AuditM2.

(* ---- A.15: the explorer (roots sg_search / sg_explore) and source_ords ---- *)

(* the record the checker hands to the explorer IS the literal record of c18_source_orderings *)
Theorem c18_source_ords :
  source_ords = {| o_cas_ok := AcqRel; o_cas_fail := Relaxed; o_store := Release; o_load := Acquire |} /\
  ord_ok source_ords = true.
Proof. exact source_ords_literal. Qed.

(* soundness: a witness returned by sg_search really is a racy execution of the machine *)
Theorem c18_search_sound : forall os progs w n,
  sg_search os progs = (Some w, n) -> g_raced (sg_run os progs w) = true.
Proof. exact search_sound. Qed.

(* completeness, the fuel taken into account: the fuel of sg_search, 3 * (number of calls), bounds
   the number of enabled steps of EVERY execution (a set is at most 3 instructions, a get 2, an
   is_set 1; disabled steps change nothing), and the candidates tried at a state cover every enabled
   step (every thread, every message a load / CAS may read).  So the answer None is never a fuel
   artefact: it means that NO schedule, of any length and with any read choices, reaches a race. *)
Theorem c18_search_complete : forall os progs,
  fst (sg_search os progs) = None -> forall sched, g_raced (sg_run os progs sched) = false.
Proof. exact search_complete. Qed.

(* the explorer decides race-freedom of the given programs under the given orderings *)
Theorem c18_search_decides : forall os progs,
  (fst (sg_search os progs) = None <-> forall sched, g_raced (sg_run os progs sched) = false) /\
  (forall w, fst (sg_search os progs) = Some w -> g_raced (sg_run os progs w) = true).
Proof. exact search_decides. Qed.

(* with the side condition the explorer answers None for all programs (by c18_search_decides this is
   c18_race_free, not a consequence of running out of fuel) *)
Theorem c18_search_none : forall os progs, ord_ok os = true -> fst (sg_search os progs) = None.
Proof. exact search_none. Qed.

(* the worker sg_explore with an ARBITRARY fuel: a witness is always genuine; None is conclusive
   only if  fuel >= 3 * (number of calls)  - c18_explore_fuel_needed shows the condition is needed *)
Theorem c18_explore_any_fuel : forall os progs fuel,
  (forall w n, sg_explore os fuel (sg_init progs) [] = (Some w, n) -> g_raced (sg_run os progs w) = true) /\
  (3 * sg_total_calls progs <= fuel ->
   fst (sg_explore os fuel (sg_init progs) []) = None ->
   forall sched, g_raced (sg_run os progs sched) = false).
Proof. exact explore_any_fuel. Qed.

(* with the store weakened to Relaxed,  T0: set 7, T1: get  races after five steps: fuel 4 answers
   None, the fuel of sg_search (6) finds the race, and the witness does race *)
Example c18_explore_fuel_needed :
  let os := {| o_cas_ok := AcqRel; o_cas_fail := Relaxed; o_store := Relaxed; o_load := Acquire |} in
  fst (sg_explore os 4 (sg_init [[CSet 7%N]; [CGet]]) []) = None /\
  fst (sg_search os [[CSet 7%N]; [CGet]]) = Some [(0, 0); (0, 0); (0, 0); (1, 0); (1, 0)] /\
  g_raced (sg_run os [[CSet 7%N]; [CGet]] [(0, 0); (0, 0); (0, 0); (1, 0); (1, 0)]) = true.
Proof. vm_compute. repeat split; reflexivity. Qed.

(* Note after the second read-only review of these pins (selftest/audit/REVIEW-2-2026-10-02.md): c18_search_sound and c18_search_complete are the two halves of c18_search_decides. *)
