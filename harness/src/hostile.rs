//! `hostile`: hostile inputs through the public API, every call under catch_unwind (this crate is built with
//! overflow checks and debug assertions in both profiles).
//!
//! case:  H <sink> <prefix> <dtags> <dcid> <ncalls> { <form> <kind> <arg> <key> <ops> }*     (calls as in bin `wire`)
//!          sink = nop | spy | bspy:<cap> | udp | budp:<cap> | unix | bunix:<cap> | q<qcap|u>:<sink>
//!        HS <updates>      SocketStats::update with extreme lengths:  k<written>/<len> | e/<len>   (decimal, up to usize::MAX)
//!        HQ <qcap|u> <n>   QueuingMetricSink over a NopMetricSink: n emits, the counters, flush, drop
//!        HW <cap> <ending-hex> <ops>    MultiLineWriter::with_ending over a sink that accepts everything (ops: E<hex> | F)
//! observation (H):  per call ok | einv | eio | panic | notype, joined by ","  then |F:<ok|err|panic>|D:<ok|panic>|Z:<per call: the
//!   size hint MetricFormatter::format computed (hook H3), "-" when the call did not get as far as formatting>
//!   (F = client.flush(), D = dropping client and sink)
use crate::util::{catch, unhex};
use crate::wire::{do_call, parse_arg, parse_form, parse_ops, unhex0};
use cadence::ext::{MultiLineWriter, SocketStats};
use cadence::{
    BufferedSpyMetricSink, BufferedUdpMetricSink, BufferedUnixMetricSink, ErrorKind, MetricSink, NopMetricSink,
    QueuingMetricSink, SinkStats, SpyMetricSink, StatsdClient, UdpMetricSink, UnixMetricSink,
};
use std::net::UdpSocket;
use std::os::unix::net::UnixDatagram;
use std::panic::RefUnwindSafe;
use std::sync::atomic::{AtomicU64, Ordering};

static COUNTER: AtomicU64 = AtomicU64::new(0);

type DynSink = Box<dyn MetricSink + Send + Sync + RefUnwindSafe>;

struct Boxed(DynSink);
impl MetricSink for Boxed {
    fn emit(&self, m: &str) -> std::io::Result<usize> {
        self.0.emit(m)
    }
    fn flush(&self) -> std::io::Result<()> {
        self.0.flush()
    }
    fn stats(&self) -> SinkStats {
        self.0.stats()
    }
}

/// keeps the receiving ends alive for the duration of the case
enum Keep {
    None,
    Spy(crossbeam_channel::Receiver<Vec<u8>>),
    Udp(UdpSocket),
    Unix(UnixDatagram, std::path::PathBuf),
}

/// every sink implements Debug: formatting one (plain and pretty) is a public call like any other and must not panic
fn dbg<T: std::fmt::Debug>(x: T) -> T {
    std::hint::black_box(format!("{:?}", x).len() + format!("{:#?}", x).len());
    x
}

fn make_sink(spec: &str, keep: &mut Vec<Keep>) -> DynSink {
    if let Some(rest) = spec.strip_prefix('q') {
        let (qc, inner) = rest.split_once(':').expect("queuing spec");
        let inner = Boxed(make_sink(inner, keep));
        return if qc == "u" {
            Box::new(dbg(QueuingMetricSink::from(inner)))
        } else {
            Box::new(dbg(QueuingMetricSink::with_capacity(inner, qc.parse().unwrap())))
        };
    }
    let (name, cap) = match spec.split_once(':') {
        Some((n, c)) => (n, Some(c.parse::<usize>().unwrap())),
        None => (spec, None),
    };
    match name {
        "nop" => Box::new(dbg(NopMetricSink)),
        "spy" => {
            let (rx, s) = SpyMetricSink::new();
            keep.push(Keep::Spy(rx));
            Box::new(dbg(s))
        }
        "bspy" => {
            let (rx, s) = BufferedSpyMetricSink::with_capacity(None, cap);
            keep.push(Keep::Spy(rx));
            Box::new(dbg(s))
        }
        "udp" | "budp" => {
            let r = UdpSocket::bind("127.0.0.1:0").expect("bind");
            r.set_nonblocking(true).unwrap();
            let addr = r.local_addr().unwrap();
            let s = UdpSocket::bind("127.0.0.1:0").expect("bind");
            s.set_nonblocking(true).unwrap();
            keep.push(Keep::Udp(r));
            if name == "udp" {
                Box::new(dbg(UdpMetricSink::from(addr, s).expect("sink")))
            } else {
                match cap {
                    Some(c) => Box::new(dbg(BufferedUdpMetricSink::with_capacity(addr, s, c).expect("sink"))),
                    None => Box::new(dbg(BufferedUdpMetricSink::from(addr, s).expect("sink"))),
                }
            }
        }
        "unix" | "bunix" => {
            let n = COUNTER.fetch_add(1, Ordering::Relaxed);
            let base = std::env::var("VERIF_TMP").unwrap_or_else(|_| "/tmp".to_string());
            let p = std::path::PathBuf::from(format!("{}/cadence-verif-h-{}-{}.sock", base, std::process::id(), n));
            let _ = std::fs::remove_file(&p);
            let r = UnixDatagram::bind(&p).expect("bind unix");
            r.set_nonblocking(true).unwrap();
            let s = UnixDatagram::unbound().expect("unbound");
            s.set_nonblocking(true).unwrap();
            let sink: DynSink = if name == "unix" {
                Box::new(dbg(UnixMetricSink::from(&p, s)))
            } else {
                match cap {
                    Some(c) => Box::new(dbg(BufferedUnixMetricSink::with_capacity(&p, s, c))),
                    None => Box::new(dbg(BufferedUnixMetricSink::from(&p, s))),
                }
            };
            keep.push(Keep::Unix(r, p));
            sink
        }
        _ => panic!("bad sink spec {}", spec),
    }
}

fn drain(keep: &[Keep]) {
    let mut buf = vec![0u8; 70_000];
    for k in keep {
        match k {
            Keep::Udp(s) => while s.recv(&mut buf).is_ok() {},
            Keep::Unix(s, _) => while s.recv(&mut buf).is_ok() {},
            Keep::Spy(rx) => while rx.try_recv().is_ok() {},
            Keep::None => {}
        }
    }
}

fn run_h(t: &[&str]) -> String {
    let mut keep = vec![];
    let sink = match catch(|| {
        let mut k = vec![];
        let s = make_sink(t[1], &mut k);
        (s, k)
    }) {
        Ok((s, k)) => {
            keep = k;
            s
        }
        Err(m) => return format!("ctor-panic:{}", m.replace(['|', ','], " ")),
    };
    let prefix = unhex0(t[2]);
    let handled: std::sync::Arc<std::sync::Mutex<Vec<&'static str>>> = Default::default();
    let h2 = handled.clone();
    let built = catch(move || {
        let mut b = StatsdClient::builder(&prefix, Boxed(sink)).with_error_handler(move |e| {
            h2.lock().unwrap().push(if e.kind() == ErrorKind::InvalidInput { "einv" } else { "eio" });
        });
        if t[3] != "-" {
            for d in t[3].split(',') {
                let (h, r) = d.split_at(1);
                if h == "k" {
                    let (k, v) = r.split_once(':').expect("dtag");
                    b = b.with_tag(unhex0(k), unhex0(v));
                } else {
                    b = b.with_tag_value(unhex0(r));
                }
            }
        }
        if t[4] != "~" {
            b = b.with_container_id(unhex0(t[4]));
        }
        b.build()
    });
    let client = match built {
        Ok(c) => c,
        Err(m) => return format!("ctor-panic:{}", m.replace(['|', ','], " ")),
    };
    let n: usize = t[5].parse().unwrap();
    let mut out = vec![];
    // hook H3: the size hint MetricFormatter::format computed for the call (if it got that far)
    let hints: std::sync::Arc<std::sync::Mutex<Vec<u64>>> = Default::default();
    let h3 = hints.clone();
    cadence::verif::install_value(std::sync::Arc::new(move |site, v| {
        if site == "fmt.size_hint" {
            h3.lock().unwrap().push(v);
        }
    }));
    let mut zs: Vec<String> = vec![];
    for i in 0..n {
        let f = &t[6 + 5 * i..11 + 5 * i];
        let form = parse_form(f[0]);
        let arg = parse_arg(f[2]);
        let key = unhex0(f[3]);
        let ops = parse_ops(f[4]);
        handled.lock().unwrap().clear();
        hints.lock().unwrap().clear();
        let r = catch(|| do_call(&client, form, f[1], &arg, &key, &ops));
        zs.push({
            let h = hints.lock().unwrap();
            match h.len() {
                0 => "-".to_string(),
                1 => h[0].to_string(),
                k => format!("{}x{}", h[0], k),
            }
        });
        out.push(match r {
            Ok(Some(s)) => {
                if s == "unit" {
                    // the quiet form: the outcome is what the error handler saw
                    handled.lock().unwrap().first().copied().unwrap_or("ok")
                } else if s.starts_with("ok:") {
                    "ok"
                } else if s == "einv" {
                    "einv"
                } else {
                    "eio"
                }
            }
            Ok(None) => "notype",
            Err(_) => "panic",
        });
        if i % 8 == 7 {
            drain(&keep);
        }
    }
    // Debug of the client (between the calls and the flush, i.e. with whatever is buffered or queued)
    if catch(|| std::hint::black_box(format!("{:?}", client).len() + format!("{:#?}", client).len())).is_err() {
        out.push("panic");
    }
    let fl = match catch(|| client.flush()) {
        Ok(Ok(())) => "ok",
        Ok(Err(_)) => "err",
        Err(_) => "panic",
    };
    drain(&keep);
    let dr = match catch(move || drop(client)) {
        Ok(()) => "ok",
        Err(_) => "panic",
    };
    std::thread::sleep(std::time::Duration::from_millis(if t[1].starts_with('q') { 5 } else { 0 }));
    drain(&keep);
    for k in &keep {
        if let Keep::Unix(_, p) = k {
            let _ = std::fs::remove_file(p);
        }
    }
    cadence::verif::uninstall_value();
    format!("{}|F:{}|D:{}|Z:{}", out.join(","), fl, dr, zs.join(","))
}

struct Swallow;
impl std::io::Write for Swallow {
    fn write(&mut self, b: &[u8]) -> std::io::Result<usize> {
        Ok(b.len())
    }
    fn flush(&mut self) -> std::io::Result<()> {
        Ok(())
    }
}

pub fn run_case(line: &str) -> String {
    let t: Vec<&str> = line.split_whitespace().collect();
    match t[0] {
        "H" => run_h(&t),
        "HS" => {
            let stats = SocketStats::default();
            let mut res = vec![];
            for u in t[1].split(',') {
                let (r, len) = u.split_once('/').unwrap();
                let len: usize = len.parse().unwrap();
                let arg: std::io::Result<usize> = match r.strip_prefix('k') {
                    Some(w) => Ok(w.parse().unwrap()),
                    None => Err(std::io::Error::from(std::io::ErrorKind::Other)),
                };
                res.push(match catch(|| stats.update(arg, len)) {
                    Ok(Ok(_)) => "ok",
                    Ok(Err(_)) => "eio",
                    Err(_) => "panic",
                });
            }
            let got: SinkStats = (&stats).into();
            format!(
                "{}|S:{}.{}.{}.{}",
                res.join(","),
                got.bytes_sent,
                got.packets_sent,
                got.bytes_dropped,
                got.packets_dropped
            )
        }
        "HQ" => {
            let n: usize = t[2].parse().unwrap();
            let r = catch(|| {
                let q = if t[1] == "u" {
                    QueuingMetricSink::from(NopMetricSink)
                } else {
                    QueuingMetricSink::with_capacity(NopMetricSink, t[1].parse().unwrap())
                };
                let mut ok = 0;
                for i in 0..n {
                    if q.emit(&format!("m{}:1|c", i)).is_ok() {
                        ok += 1;
                    }
                    let _ = q.queued();
                }
                let fl = q.flush().is_ok();
                let c = q.clone();
                drop(q);
                let _ = c.emit("last:1|c");
                let _ = (c.submitted(), c.drained(), c.queued(), c.panics());
                drop(c);
                (ok, fl)
            });
            match r {
                Ok((ok, fl)) => format!("ok:{}|F:{}", if ok <= n { "le" } else { "gt" }, fl),
                Err(_) => "panic".to_string(),
            }
        }
        "HW" => {
            let cap: usize = t[1].parse().unwrap();
            let ending = String::from_utf8(unhex(t[2])).expect("utf8");
            let r = catch(|| {
                let mut w = MultiLineWriter::with_ending(Swallow, cap, &ending);
                let mut res = vec![];
                if t[3] != "-" {
                    for op in t[3].split(',') {
                        use std::io::Write;
                        if op == "F" {
                            res.push(if w.flush().is_ok() { "ok" } else { "eio" });
                        } else {
                            res.push(if w.write(&unhex(&op[1..])).is_ok() { "ok" } else { "eio" });
                        }
                    }
                }
                drop(w);
                res.join(",")
            });
            match r {
                Ok(s) => s,
                Err(_) => "panic".to_string(),
            }
        }
        _ => panic!("bad hostile case"),
    }
}

#[allow(dead_code)]
fn _unused(_: ErrorKind) {}
