#!/bin/bash
# Self-test of the checks: applies hand-made mutations to /repo one at a time (working tree
# only, never committed), runs the given checks, reverts.  usage: run_mutations.sh <file.tsv> <ids...>
# tsv: name <TAB> file <TAB> python-regex <TAB> replacement
tsv=$1; shift
while IFS=$'\t' read -r name file pat rep; do
  [ -z "$name" ] && continue
  case "$name" in \#*) continue;; esac
  python3 - "$file" "$pat" "$rep" <<'PY'
import re,sys
f,pat,rep=sys.argv[1:4]
s=open(f).read()
n=len(re.findall(pat,s,flags=re.S))
if n<1: print("PATTERN NOT FOUND",pat); sys.exit(1)
s=re.sub(pat,rep,s,count=1,flags=re.S)
open(f,'w').write(s)
PY
  echo "=== $name"
  (cd /repo && cargo test --workspace --offline --no-fail-fast 2>&1 | grep -E "^test result" | awk '{p+=$4; f+=$6} END {print "  suite: passed",p,"failed",f}')
  for id in "$@"; do
    out=$(cd /verif && VERIF_DEV_SKIP_AUDIT=$SKIP_AUDIT ./check $id 2>&1 | grep -E "^(VIOLATION|OK|KNOWN)" | head -2 | tr '\n' ' ')
    echo "  $id: $out"
  done
  git -C /repo checkout -- .
done < "$tsv"
