#!/usr/bin/env python3
"""Write /tmp/mut/<id><letter>.prompt for every property: the mutation brief (selftest/MUTATION_PROMPT.tmpl) with the
property text and one-line descriptions of every change already submitted for it (seeds + hand mutations), so that a
fresh sub-agent produces something different.  usage: make_prompts.py <letter>"""
import json, os, sys
letter = sys.argv[1]
plain = len(sys.argv) > 2 and sys.argv[2] == "plain"     # no list of earlier submissions: measures detection of ordinary seeds
props = {}
for l in open('/verif/properties.jsonl'):
    p = json.loads(l); props[p['id']] = p
tried = {}
for d in sorted(os.listdir('/verif/seeded')):
    m = json.load(open('/verif/seeded/%s/meta.json' % d))
    tried.setdefault(m['property'], []).append(m['summary'].split('.  MISSED')[0].split('.  First')[0].split('.  WOULD')[0])
hand = {}
for f in os.listdir('/verif/selftest'):
    if f.endswith('.tsv') and f != 'harmless.tsv':
        for line in open('/verif/selftest/' + f):
            if line.strip() and not line.startswith('#'):
                hand.setdefault(f[:-4], []).append(line.split('\t')[0].replace('_', ' '))
FAM = {'wire': ['C01', 'C02', 'C03', 'C04'], 'writer': ['C05', 'C06', 'C07', 'C19'], 'queue': ['C08', 'C09', 'C10', 'C11', 'C15', 'C16'],
       'sock': ['C13', 'C14'], 'conc': ['C12'], 'mac': ['C17'], 'singleton': ['C18'], 'hostile': ['C20']}
tmpl = open('/verif/selftest/MUTATION_PROMPT.tmpl').read()
os.makedirs('/tmp/mut', exist_ok=True)
for i, p in props.items():
    txt = "Title: %s\n\nStatement: %s\n\nQuantifier: %s\n\nWhy the existing tests cannot settle it: %s\n\nWhere in the code: %s" % (
        p['title'], p['statement'], p['quantifier']['text'], p['why_tests_cant'],
        "; ".join("%s (%s)" % (m['name'], m['where']) for m in p['anchors']['mechanism']))
    t = tmpl.replace('@ID@', i + letter).replace('@PROP@', txt)
    fam = [k for k, v in FAM.items() if i in v][0]
    lst = tried.get(i, []) + ["(hand-made) " + x for x in hand.get(fam, [])]
    extra = ("\n\nIMPORTANT - be different: other reviewers have ALREADY submitted the following changes for this property or its "
             "neighbours; yours must differ from all of them in mechanism AND in what it needs to manifest (prefer a different "
             "function / code path, a different clause of the property, a different public entry point, or two cooperating "
             "edits):\n" + "\n".join(" - " + x for x in lst) +
             "\nAlso prefer a change whose effect shows up only for a narrow class of inputs, configurations or schedules (one "
             "value type, one sink type, one constructor or builder order, one capacity relation, one error kind, one ordering of "
             "two events, one thread doing two things in a particular order) rather than broadly.  Think about which public entry "
             "points, constructor variants, argument shapes, platform facts and orders of operations a checker written from the "
             "property text alone would be least likely to exercise.\n")
    if not plain:
        t = t.replace("\nAlso produce a demonstration:", extra + "\nAlso produce a demonstration:")
    open('/tmp/mut/%s%s.prompt' % (i, letter), 'w').write(t)
print("prompts written for letter", letter)
