(* Singleton (C18): the theorems, for every orderings record / programs / schedule. *)
Require Import Cadence.Base.Prelude.
Require Import Cadence.Model.Singleton.
Require Import Cadence.Proofs.SingletonBase.
Require Import Cadence.Proofs.SingletonInv.

Lemma reads_no_write (P : sg_access -> Prop) reads :
  Forall (fun a => acc_write a = false /\ P a) reads -> filter acc_write reads = [].
Proof.
  induction 1 as [|a l [Ha _] _ IH]; cbn; auto. now rewrite Ha.
Qed.

Lemma Forall_nth {A} (P : A -> Prop) l n x : Forall P l -> nth_error l n = Some x -> P x.
Proof. intros H Hn. rewrite Forall_forall in H. apply H. eapply nth_error_In; eauto. Qed.

Lemma filter_one_In {A} (f : A -> bool) l r : filter f l = [r] -> In r l /\ f r = true.
Proof.
  intros H. assert (In r (filter f l)) as Hin by (rewrite H; now left).
  now apply filter_In in Hin.
Qed.

(* ------------------------------------------------------------------ (a) race freedom *)

Theorem thm_race_free os progs sched :
  ord_ok os = true ->
  let s := sg_run os progs sched in
  g_raced s = false /\
  length (filter acc_write (g_accs s)) <= 1 /\
  (forall i j ai aj, i < j ->
     nth_error (g_accs s) i = Some ai -> nth_error (g_accs s) j = Some aj ->
     acc_write ai || acc_write aj = true -> In i (acc_hb aj)).
Proof.
  intros Hok s. destruct (run_inv os progs sched) as [ph [G P]]. fold s in G, P.
  split; [exact (gi_norace _ _ _ G Hok)|].
  destruct ph as [|w v|w v|w v]; cbn [pinv] in P.
  - destruct P as (_ & Ha & _). rewrite Ha. cbn. split; [lia|]. intros [|i] j ai aj _ H; discriminate.
  - destruct P as (_ & Ha & _). rewrite Ha. cbn. split; [lia|]. intros [|i] j ai aj _ H; discriminate.
  - destruct P as (_ & (hb & Ha) & _). rewrite Ha. cbn. split; [lia|].
    intros i [|[|j]] ai aj Hij Hi Hj; cbn in Hj; try discriminate; lia.
  - destruct P as (_ & _ & (hb & reads & Ha & Hreads) & _). rewrite Ha.
    split.
    + cbn [filter acc_write]. rewrite (reads_no_write _ _ Hreads). cbn. lia.
    + intros i [|j] ai aj Hij Hi Hj Hw; [lia|]. cbn in Hj.
      destruct (Forall_nth _ _ _ _ Hreads Hj) as (Hwj & _ & Hin).
      destruct i as [|i]; [auto|]. cbn in Hi.
      destruct (Forall_nth _ _ _ _ Hreads Hi) as (Hwi & _).
      rewrite Hwi, Hwj in Hw. discriminate.
Qed.

(* ------------------------------------------------------------------ (b) the first set wins *)

Theorem thm_first_wins os progs sched :
  let s := sg_run os progs sched in
  length (filter is_cas_ok (g_trace s)) <= 1 /\
  (forall a, In a (g_accs s) -> acc_write a = true ->
     exists r, In r (g_trace s) /\ is_cas_ok r = true /\ r_tid r = acc_tid a) /\
  (forall v, g_cell s = Some v ->
     exists w p r, nth_error progs w = Some p /\ In (CSet v) p /\
                   In r (g_trace s) /\ is_cas_ok r = true /\ r_tid r = w) /\
  (forall more, In COMPLETE (map mval (g_msgs s)) ->
     let s' := sg_run os progs (sched ++ more) in
     g_msgs s' = g_msgs s /\ g_cell s' = g_cell s).
Proof.
  intros s. destruct (run_inv os progs sched) as [ph [G P]]. fold s in G, P.
  destruct ph as [|w v|w v|w v]; cbn [pinv] in P.
  - destruct P as (Hv & Ha & Hc & _ & Hf & _). rewrite Hf, Ha, Hc. cbn.
    repeat apply conj; try lia; try tauto; try discriminate.
    intros more H. exfalso. fold (vals s) in H. rewrite Hv in H. cbn in H.
    unfold UNSET, COMPLETE in H. intuition discriminate.
  - destruct P as (Hv & Ha & Hc & _ & _ & (r & Hf & Hr) & _). rewrite Hf, Ha, Hc. cbn.
    repeat apply conj; try lia; try tauto; try discriminate.
    intros more H. exfalso. fold (vals s) in H. rewrite Hv in H. cbn in H.
    unfold UNSET, LOADING, COMPLETE in H. intuition discriminate.
  - destruct P as (Hv & (hb & Ha) & Hc & _ & _ & (r & Hf & Hr) & _ & (p & Hp & Hin) & _).
    destruct (filter_one_In _ _ _ Hf) as [Hrin Hrok].
    rewrite Hf, Ha, Hc. cbn [length]. repeat apply conj; try lia.
    + intros a [<-|[]] _. exists r. cbn. auto.
    + intros v0 E. inversion E; subst v0. exists w, p, r. auto.
    + intros more H. exfalso. fold (vals s) in H. rewrite Hv in H. cbn in H.
      unfold UNSET, LOADING, COMPLETE in H. intuition discriminate.
  - pose proof P as P3.
    destruct P as (Hv & _ & (hb & reads & Ha & Hreads) & Hc & _ & (r & Hf & Hr) & (p & Hp & Hin) & _).
    destruct (filter_one_In _ _ _ Hf) as [Hrin Hrok].
    rewrite Hf, Ha, Hc. cbn [length]. repeat apply conj; try lia.
    + intros a [<-|Hain] Hw; [exists r; cbn; auto|].
      rewrite Forall_forall in Hreads. destruct (Hreads _ Hain) as [Hw' _]. congruence.
    + intros v0 E. inversion E; subst v0. exists w, p, r. auto.
    + intros more _. rewrite sg_run_app. fold s.
      destruct (p3_forever os progs w v more s G P3) as (_ & _ & Em & Ec). cbv zeta in *.
      rewrite Em, Ec. split; auto.
Qed.

(* ------------------------------------------------------------------ (c) what get / is_set report *)

Theorem thm_get os progs sched :
  ord_ok os = true ->
  let s := sg_run os progs sched in
  forall k r, nth_error (g_trace s) k = Some r ->
  (forall x, r_ret r = Some (RGet (Some x)) ->
     g_cell s = Some x /\
     exists h i j w, h < i /\ i < j /\ j < k /\
       nth_error (g_trace s) h = Some {| r_tid := w; r_op := OpCell true (Some x); r_ret := None |} /\
       nth_error (g_trace s) i = Some {| r_tid := w; r_op := OpStore (o_store os) 2 COMPLETE; r_ret := Some RUnit |} /\
       nth_error (g_trace s) j = Some {| r_tid := r_tid r; r_op := OpLoad (o_load os) 2 COMPLETE; r_ret := None |}) /\
  (r_ret r = Some (RIsSet true) ->
     exists h i w x, h < i /\ i < k /\
       nth_error (g_trace s) h = Some {| r_tid := w; r_op := OpCell true (Some x); r_ret := None |} /\
       nth_error (g_trace s) i = Some {| r_tid := w; r_op := OpStore (o_store os) 2 COMPLETE; r_ret := Some RUnit |} /\
       read_of r = Some (2, COMPLETE)).
Proof.
  intros _ s k r Hk. destruct (run_inv os progs sched) as [ph [G P]]. fold s in G, P.
  fold (rec_at s k r) in Hk.
  assert (Hq : quiet_trace s ->
               (forall x, r_ret r <> Some (RGet (Some x))) /\ r_ret r <> Some (RIsSet true)).
  { intros Q. destruct (Q _ _ Hk) as [Hn1 Hn2]. split; auto.
    intros E. pose proof (gi_ret _ _ _ G _ _ Hk) as W. red in W. rewrite E in W.
    destruct W as (i & v & Hr & Hb). symmetry in Hb. apply Nat.eqb_eq in Hb. subst v.
    eapply Hn1; eauto. }
  destruct ph as [|w v|w v|w v]; cbn [pinv] in P.
  - destruct P as (_ & _ & _ & _ & _ & Q). destruct (Hq Q) as [H1 H2].
    split; [intros x E; exfalso; eapply H1; eauto|intros E; contradiction].
  - destruct P as (_ & _ & _ & _ & _ & _ & Q & _). destruct (Hq Q) as [H1 H2].
    split; [intros x E; exfalso; eapply H1; eauto|intros E; contradiction].
  - destruct P as (_ & _ & _ & _ & _ & _ & Q & _). destruct (Hq Q) as [H1 H2].
    split; [intros x E; exfalso; eapply H1; eauto|intros E; contradiction].
  - destruct P as (_ & _ & _ & Hc & _ & _ & _ & (h & i & Hhi & Hh & Hi & Hafter) & Hget).
    split.
    + intros x E. destruct (Hget _ _ _ Hk E) as [-> (j & Hjk & Hj)].
      split; [exact Hc|]. exists h, i, j, w. repeat apply conj; auto.
      eapply Hafter; eauto. reflexivity.
    + intros E. pose proof (gi_ret _ _ _ G _ _ Hk) as W. red in W. rewrite E in W.
      destruct W as (i' & v' & Hr & Hb). symmetry in Hb. apply Nat.eqb_eq in Hb. subst v'.
      pose proof (gi_shape _ _ _ G _ _ (gi_read _ _ _ G _ _ _ _ Hk Hr)) as Ei. unfold COMPLETE in Ei at 1.
      subst i'. exists h, i, w, v. repeat apply conj; auto. eapply Hafter; eauto.
Qed.

(* every get that returns a value returns the same value *)
Corollary thm_get_same os progs sched :
  ord_ok os = true ->
  let s := sg_run os progs sched in
  forall k1 k2 r1 r2 x1 x2,
    nth_error (g_trace s) k1 = Some r1 -> nth_error (g_trace s) k2 = Some r2 ->
    r_ret r1 = Some (RGet (Some x1)) -> r_ret r2 = Some (RGet (Some x2)) -> x1 = x2.
Proof.
  intros Hok s k1 k2 r1 r2 x1 x2 H1 H2 E1 E2.
  destruct (thm_get os progs sched Hok k1 r1 H1) as [A _].
  destruct (thm_get os progs sched Hok k2 r2 H2) as [B _].
  destruct (A _ E1) as [C1 _]. destruct (B _ E2) as [C2 _]. fold s in C1, C2. congruence.
Qed.

(* ------------------------------------------------------------------ (d) COMPLETE is stable per thread *)

Theorem thm_complete_stable os progs sched :
  let s := sg_run os progs sched in
  forall i j ri rj, i < j ->
    nth_error (g_trace s) i = Some ri -> nth_error (g_trace s) j = Some rj -> r_tid ri = r_tid rj ->
    (* the atomic level *)
    (forall x y v, read_of ri = Some (x, COMPLETE) -> read_of rj = Some (y, v) -> v = COMPLETE) /\
    (* the API level *)
    (r_ret ri = Some (RIsSet true) \/ (exists x, r_ret ri = Some (RGet (Some x))) ->
     r_ret rj <> Some (RIsSet false) /\ r_ret rj <> Some (RGet None)).
Proof.
  intros s i j ri rj Hij Hi Hj Ht. destruct (run_inv os progs sched) as [ph [G P]]. fold s in G, P.
  fold (rec_at s i ri) in Hi. fold (rec_at s j rj) in Hj.
  split.
  { intros x y v Hri Hrj. exact (gi_stable _ _ _ G _ _ _ _ _ _ _ Hij Hi Hj Ht Hri Hrj). }
  intros Hset.
  (* some record of the same thread at a position <= i read COMPLETE *)
  assert (exists i' ri' x, i' <= i /\ rec_at s i' ri' /\ r_tid ri' = r_tid ri /\ read_of ri' = Some (x, COMPLETE))
    as (i' & ri' & x & Hle & Hi' & Ht' & Hr').
  { destruct Hset as [E|[x E]].
    - pose proof (gi_ret _ _ _ G _ _ Hi) as W. red in W. rewrite E in W.
      destruct W as (i' & v' & Hr & Hb). symmetry in Hb. apply Nat.eqb_eq in Hb. subst v'.
      exists i, ri, i'. auto.
    - destruct ph as [|w v|w v|w v]; cbn [pinv] in P.
      + destruct P as (_ & _ & _ & _ & _ & Q). destruct (Q _ _ Hi) as [_ Hn]. exfalso; eapply Hn; eauto.
      + destruct P as (_ & _ & _ & _ & _ & _ & Q & _). destruct (Q _ _ Hi) as [_ Hn]. exfalso; eapply Hn; eauto.
      + destruct P as (_ & _ & _ & _ & _ & _ & Q & _). destruct (Q _ _ Hi) as [_ Hn]. exfalso; eapply Hn; eauto.
      + destruct P as (_ & _ & _ & _ & _ & _ & _ & _ & Hget).
        destruct (Hget _ _ _ Hi E) as [_ (j0 & Hj0 & Hrec)].
        exists j0, (lrec os (r_tid ri)), 2. repeat apply conj; auto. lia. }
  assert (forall y v, read_of rj = Some (y, v) -> v = COMPLETE) as Hst.
  { intros y v Hrj. eapply (gi_stable _ _ _ G i' j); eauto; [lia|congruence]. }
  pose proof (gi_ret _ _ _ G _ _ Hj) as W. red in W.
  split; intros E; rewrite E in W; destruct W as (y & v & Hr & Hb).
  - rewrite (Hst _ _ Hr) in Hb. discriminate.
  - apply Hb. eapply Hst; eauto.
Qed.

(* ------------------------------------------------------------------ the side condition is necessary *)

Definition witness_progs : list (list sg_call) := [[CSet 7%N]; [CGet]].
Definition witness_sched : list (nat * nat) := [(0, 0); (0, 0); (0, 0); (1, 0); (1, 0)].

Theorem thm_ord_needed os :
  ord_ok os = false -> g_raced (sg_run os witness_progs witness_sched) = true.
Proof.
  destruct os as [a b c d]. unfold ord_ok. cbn [o_store o_load].
  destruct c; cbn [releases andb]; intros H; try discriminate H;
    destruct a, b, d; try discriminate H; vm_compute; reflexivity.
Qed.
