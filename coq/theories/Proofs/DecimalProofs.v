(* Decimal rendering (Base/Decimal.v): round trip with the parser, canonical form,
   injectivity, cleanliness.  Unbounded: every N, every Z. *)
Require Import Cadence.Base.Prelude.
Require Import Cadence.Base.Decimal.
Require Import Cadence.Model.Convert.
Require Import Cadence.Model.Wire.
Require Import Cadence.Proofs.SplitProofs.
From Coq Require Import Decimal DecimalFacts DecimalPos DecimalN DecimalZ.

(* ------------------------------------------------------------------ bytes <-> uint *)
Lemma bytes_uint_bytes : forall u, bytes_uint (uint_bytes u) = Some u.
Proof. induction u as [|u IH|u IH|u IH|u IH|u IH|u IH|u IH|u IH|u IH|u IH];
  cbn [uint_bytes bytes_uint]; try rewrite IH; reflexivity. Qed.

Lemma uint_bytes_inj : forall u v, uint_bytes u = uint_bytes v -> u = v.
Proof.
  intros u v H. apply (f_equal bytes_uint) in H. rewrite !bytes_uint_bytes in H. congruence.
Qed.

Lemma uint_bytes_digits : forall u, forallb is_digit (uint_bytes u) = true.
Proof. induction u; cbn [uint_bytes forallb]; try rewrite IHu; reflexivity. Qed.

Lemma uint_bytes_nonnil : forall u, u <> Nil -> uint_bytes u <> [].
Proof. intros u H. destruct u; cbn [uint_bytes]; congruence. Qed.

Lemma is_digit_not_delim : forall b, is_digit b = true -> is_delim b = false.
Proof.
  intros b H. unfold is_digit in H. apply andb_true_iff in H. destruct H as [H1 H2].
  apply N.leb_le in H1. apply N.leb_le in H2.
  unfold is_delim, b_colon, b_pipe, b_hash, b_comma, b_at, b_nl.
  repeat match goal with |- context [N.eqb b ?k] =>
    let E := fresh "E" in destruct (N.eqb b k) eqn:E; [apply N.eqb_eq in E; lia|] end.
  reflexivity.
Qed.

Lemma is_digit_not_minus : forall b, is_digit b = true -> N.eqb b minus_sign = false.
Proof.
  intros b H. unfold is_digit in H. apply andb_true_iff in H. destruct H as [H1 H2].
  apply N.leb_le in H1. apply N.leb_le in H2. apply N.eqb_neq. unfold minus_sign. lia.
Qed.

Lemma digits_clean : forall s, forallb is_digit s = true -> clean s = true.
Proof.
  intros s H. unfold clean. rewrite forallb_forall in *. intros b Hb.
  rewrite is_digit_not_delim; [reflexivity|]. apply H. exact Hb.
Qed.

(* ------------------------------------------------------------------ N *)
Lemma N_to_uint_nonnil : forall n, N.to_uint n <> Nil.
Proof. intros [|p]; cbn [N.to_uint]; [discriminate|apply Unsigned.to_uint_nonnil]. Qed.

Lemma render_N_nonempty : forall n, render_N n <> [].
Proof. intros n. unfold render_N. apply uint_bytes_nonnil. apply N_to_uint_nonnil. Qed.

Theorem render_parse_N : forall n, parse_N (render_N n) = Some n.
Proof.
  intros n. unfold parse_N. destruct (render_N n) as [|b r] eqn:E.
  - exfalso. exact (render_N_nonempty n E).
  - rewrite <- E. unfold render_N. rewrite bytes_uint_bytes. cbn [option_map].
    rewrite DecimalN.Unsigned.of_to. reflexivity.
Qed.

Theorem render_N_inj : forall n m, render_N n = render_N m -> n = m.
Proof.
  intros n m H. apply (f_equal parse_N) in H. rewrite !render_parse_N in H. congruence.
Qed.

Theorem render_N_digits : forall n, forallb is_digit (render_N n) = true.
Proof. intros n. apply uint_bytes_digits. Qed.

Theorem render_N_clean : forall n, clean (render_N n) = true.
Proof. intros n. apply digits_clean. apply render_N_digits. Qed.

(* no leading zero: the numeral is exactly "0", or it does not start with '0' *)
Lemma nzhead_shape : forall d, nzhead d = Nil \/ (exists d', nzhead d = d' /\ d' <> Nil /\ forall u, d' <> D0 u).
Proof.
  induction d; cbn [nzhead]; try (right; eexists; split; [reflexivity|split; intros; discriminate]).
  - left. reflexivity.
  - exact IHd.
Qed.

Lemma unorm_shape : forall d, unorm d = D0 Nil \/ (unorm d <> Nil /\ forall u, unorm d <> D0 u).
Proof.
  intros d. unfold unorm. destruct (nzhead_shape d) as [E|[d' [E [Hn H0]]]].
  - rewrite E. left. reflexivity.
  - rewrite E. right. destruct d'; try congruence; split; intros; try discriminate.
Qed.

Lemma N_to_uint_norm : forall n, N.to_uint n = unorm (N.to_uint n).
Proof.
  intros n. rewrite <- (DecimalN.Unsigned.to_of (N.to_uint n)).
  rewrite DecimalN.Unsigned.of_to. reflexivity.
Qed.

Theorem render_N_no_leading_zero : forall n,
  render_N n = [48%N] \/ (exists b r, render_N n = b :: r /\ b <> 48%N).
Proof.
  intros n. unfold render_N. rewrite N_to_uint_norm.
  destruct (unorm_shape (N.to_uint n)) as [E|[Hn H0]].
  - rewrite E. left. reflexivity.
  - right. destruct (unorm (N.to_uint n)) as [|u|u|u|u|u|u|u|u|u|u]; cbn [uint_bytes];
      try (eexists; eexists; split; [reflexivity|discriminate]).
    + congruence.
    + exfalso. exact (H0 _ eq_refl).
Qed.

Theorem render_N_zero : render_N 0 = [48%N].
Proof. reflexivity. Qed.

(* "0" is rendered only for zero *)
Theorem render_N_zero_iff : forall n, render_N n = [48%N] <-> n = 0%N.
Proof.
  intros n. split; [|intros ->; reflexivity]. intros H. apply render_N_inj. rewrite H. reflexivity.
Qed.

(* ------------------------------------------------------------------ Z *)
(* a negative value is '-' followed by the numeral of its magnitude; others have no sign *)
Theorem render_Z_sign : forall z,
  render_Z z = if (z <? 0)%Z then minus_sign :: render_N (Z.abs_N z) else render_N (Z.abs_N z).
Proof. intros [|p|p]; reflexivity. Qed.

Theorem render_Z_nonneg : forall z, (0 <= z)%Z -> render_Z z = render_N (Z.to_N z).
Proof. intros [|p|p] H; try reflexivity. lia. Qed.

Theorem render_Z_neg : forall z, (z < 0)%Z -> render_Z z = minus_sign :: render_N (Z.to_N (- z)).
Proof. intros [|p|p] H; try lia. reflexivity. Qed.

Theorem render_Z_of_N : forall n, render_Z (Z.of_N n) = render_N n.
Proof. intros [|p]; reflexivity. Qed.

Lemma render_N_head_digit : forall n, exists b r, render_N n = b :: r /\ is_digit b = true.
Proof.
  intros n. pose proof (render_N_digits n) as Hd. pose proof (render_N_nonempty n) as Hn.
  destruct (render_N n) as [|b r]; [congruence|]. exists b, r. split; [reflexivity|].
  cbn [forallb] in Hd. apply andb_true_iff in Hd. tauto.
Qed.

Theorem render_parse_Z : forall z, parse_Z (render_Z z) = Some z.
Proof.
  intros z. destruct z as [|p|p].
  - reflexivity.
  - change (render_Z (Z.pos p)) with (render_N (N.pos p)).
    destruct (render_N_head_digit (N.pos p)) as [b [r [E Hb]]].
    unfold parse_Z. rewrite E. rewrite (is_digit_not_minus b Hb). rewrite <- E.
    unfold render_N. rewrite bytes_uint_bytes. cbn [option_map].
    change (Pos (N.to_uint (N.pos p))) with (Z.to_int (Z.pos p)).
    rewrite DecimalZ.of_to. reflexivity.
  - change (render_Z (Z.neg p)) with (minus_sign :: render_N (N.pos p)).
    unfold parse_Z. rewrite N.eqb_refl.
    destruct (render_N (N.pos p)) as [|b r] eqn:E; [exfalso; exact (render_N_nonempty _ E)|].
    rewrite <- E. unfold render_N. rewrite bytes_uint_bytes. cbn [option_map].
    change (Neg (N.to_uint (N.pos p))) with (Z.to_int (Z.neg p)).
    rewrite DecimalZ.of_to. reflexivity.
Qed.

Theorem render_Z_inj : forall a b, render_Z a = render_Z b -> a = b.
Proof.
  intros a b H. apply (f_equal parse_Z) in H. rewrite !render_parse_Z in H. congruence.
Qed.

Theorem render_Z_nonempty : forall z, render_Z z <> [].
Proof.
  intros z. rewrite render_Z_sign. destruct (z <? 0)%Z; [discriminate|apply render_N_nonempty].
Qed.

Lemma minus_not_delim : is_delim minus_sign = false.
Proof. reflexivity. Qed.

Theorem render_Z_clean : forall z, clean (render_Z z) = true.
Proof.
  intros z. rewrite render_Z_sign. destruct (z <? 0)%Z.
  - rewrite clean_cons, minus_not_delim, render_N_clean. reflexivity.
  - apply render_N_clean.
Qed.

(* canonical form of a signed numeral: optional '-', then digits only *)
Theorem render_Z_digits : forall z,
  exists sign, (sign = [] \/ sign = [minus_sign]) /\ (sign = [minus_sign] <-> (z < 0)%Z) /\
               render_Z z = sign ++ render_N (Z.abs_N z).
Proof.
  intros z. rewrite render_Z_sign. destruct (z <? 0)%Z eqn:E.
  - exists [minus_sign]. apply Z.ltb_lt in E. repeat split; auto.
  - exists []. apply Z.ltb_ge in E. repeat split; auto; try discriminate. lia.
Qed.
