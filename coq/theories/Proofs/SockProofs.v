(* Scenario-level facts about the socket sinks (Model/Sock.v: sc_unbuffered, sc_buffered): what is
   on the wire, what the calls answered and what the statistics say, for every script of emits,
   flushes and listener outages. *)
Require Import Cadence.Base.Prelude.
Require Import Cadence.Model.Writer.
Require Import Cadence.Model.Stats.
Require Import Cadence.Model.Sock.
Require Import Cadence.Proofs.WriterBase.
Require Import Cadence.Proofs.WriterInv.
Require Import Cadence.Proofs.WriterRun.
Require Import Cadence.Proofs.WriterThms.
Require Import Cadence.Proofs.StatsProofs.

(* ------------------------------------------------------------------ unbuffered sinks *)
(* the emits of a scenario, each with the listener's state at the time *)
Fixpoint sc_emits (up : bool) (ops : list sop) : list (str * bool) :=
  match ops with
  | [] => []
  | SEmit m :: r => (m, up) :: sc_emits up r
  | SFlush :: r => sc_emits up r
  | SDown :: r => sc_emits false r
  | SUp :: r => sc_emits true r
  end.

(* the answers the sink must give: Ok(len) for a metric that went out, the socket's error for one
   that did not (behind a queue: Ok(len) in either case), Ok for flush *)
Fixpoint sc_answers (queued up : bool) (ops : list sop) : list sres :=
  match ops with
  | [] => []
  | SEmit m :: r => (if up || queued then SK (N.of_nat (length m)) else SE) :: sc_answers queued up r
  | SFlush :: r => SK 0 :: sc_answers queued up r
  | SDown :: r => SNone :: sc_answers queued false r
  | SUp :: r => SNone :: sc_answers queued true r
  end.

Definition att_of (x : str * bool) : attempt1 := attempt_of (fst x) (os_of (snd x)).

Lemma sc_unbuf_spec queued : forall ops up st,
  sc_unbuf queued up st ops =
  (sc_answers queued up ops,
   map (fun x => {| sd_dest := 0; sd_payload := fst x |}) (filter snd (sc_emits up ops)),
   updates st (map att_of (sc_emits up ops))).
Proof.
  induction ops as [|o ops IH]; intros up st; [reflexivity|].
  destruct o as [m| | |]; cbn [sc_unbuf sc_answers sc_emits].
  - rewrite sock_emit_spec, IH. destruct up, queued; reflexivity.
  - now rewrite IH.
  - now rewrite IH.
  - now rewrite IH.
Qed.

(* C13/C14 for a whole scenario on an unbuffered sink: the wire carries exactly the metrics emitted
   while the listener was there - their bytes, unchanged, one datagram each, in order; every call
   answered truthfully; the four counters are the totals of what was sent and what was refused *)
Theorem sc_unbuffered_spec queued ops :
  let es := sc_emits true ops in
  sc_unbuffered queued ops =
  (sc_answers queued true ops, map fst (filter snd es), updates stats0 (map att_of es)).
Proof.
  cbn. unfold sc_unbuffered. rewrite sc_unbuf_spec. rewrite map_map. reflexivity.
Qed.

Lemma att_sent_bytes es :
  sent_bytes (map att_of es) = fold_right N.add 0%N (map (fun x => N.of_nat (length (fst x))) (filter snd es)) /\
  sent_count (map att_of es) = N.of_nat (length (filter snd es)) /\
  dropped_bytes (map att_of es) =
    fold_right N.add 0%N (map (fun x => N.of_nat (length (fst x))) (filter (fun x => negb (snd x)) es)) /\
  dropped_count (map att_of es) = N.of_nat (length (filter (fun x => negb (snd x)) es)).
Proof.
  induction es as [|[m [|]] es (A & B & C & D)]; [repeat split| |];
    cbn [map att_of attempt_of os_of fst snd sent_bytes sent_count dropped_bytes dropped_count at_res at_len
         filter negb fold_right length]; rewrite A, B, C, D; repeat split; lia.
Qed.

Theorem sc_unbuffered_totals queued ops rs dg st :
  sc_unbuffered queued ops = (rs, dg, st) ->
  let lost := map fst (filter (fun x => negb (snd x)) (sc_emits true ops)) in
  bytes_sent st = (fold_right N.add 0 (map (fun d => N.of_nat (length d)) dg) mod 2 ^ 64)%N /\
  packets_sent st = (N.of_nat (length dg) mod 2 ^ 64)%N /\
  bytes_dropped st = (fold_right N.add 0 (map (fun d => N.of_nat (length d)) lost) mod 2 ^ 64)%N /\
  packets_dropped st = (N.of_nat (length lost) mod 2 ^ 64)%N /\
  length dg + length lost = length (sc_emits true ops).
Proof.
  rewrite sc_unbuffered_spec. intros H. inversion H; subst; clear H. cbn zeta.
  destruct (updates_totals (map att_of (sc_emits true ops))) as (A & B & C & D).
  destruct (att_sent_bytes (sc_emits true ops)) as (E1 & E2 & E3 & E4).
  rewrite A, B, C, D, E1, E2, E3, E4, !map_map, !map_length. repeat split; try reflexivity.
  generalize (sc_emits true ops). intros l. induction l as [|[m [|]] l IH]; cbn; lia.
Qed.

(* ------------------------------------------------------------------ buffered sinks *)
Lemma inv_with_script s up : Inv s -> Inv (with_script s up).
Proof. intros [A B C]. constructor; assumption. Qed.

Definition sop_calls (ops : list sop) : nat :=
  length (filter (fun o => match o with SEmit _ | SFlush => true | _ => false end) ops).

Lemma sc_buf_inv queued : forall ops up s n rs s' n' up',
  Inv s -> LogOk s -> sc_buf queued up s n ops = (rs, s', n', up') ->
  Inv s' /\ same_cfg s s' /\ LogOk s' /\ n' = n + sop_calls ops /\ length rs = length ops /\
  (exists atts, lg s' = lg s ++ atts /\ Forall (fun a => n <= a_op a < n') atts).
Proof.
  induction ops as [|o ops IH]; intros up s n rs s' n' up' I L H.
  - inversion H; subst. split; [exact I|]. split; [apply same_cfg_refl|]. split; [exact L|].
    split; [unfold sop_calls; cbn; lia|]. split; [reflexivity|]. exists []. split; [now rewrite app_nil_r|constructor].
  - assert (step_case : forall wo x s1 rs0,
      step (with_script s up) n wo = (x, s1) -> sc_buf queued up s1 (S n) ops = (rs0, s', n', up') ->
      Inv s' /\ same_cfg s s' /\ LogOk s' /\ n' = n + S (sop_calls ops) /\ length rs0 = length ops /\
      (exists atts, lg s' = lg s ++ atts /\ Forall (fun a => n <= a_op a < n') atts)).
    { intros wo x s1 rs0 S1 R.
      destruct (step_spec _ _ _ _ _ (inv_with_script s up I) S1) as [a1 P1].
      destruct P1 as [I1 [C1 E1] [X1 O1] F1 _ _ _ _ _ _ _]. cbn [with_script set_io cap ending lg] in *.
      assert (L1 : LogOk s1).
      { unfold LogOk in *. rewrite X1, C1, E1. apply Forall_app; split; assumption. }
      destruct (IH _ _ _ _ _ _ _ I1 L1 R) as (I2 & [C2 E2] & L2 & N2 & Len & atts & X2 & O2).
      split; [exact I2|]. split; [split; congruence|]. split; [exact L2|]. split; [lia|]. split; [exact Len|].
      exists (a1 ++ atts). split; [rewrite X2, X1; now rewrite app_assoc|].
      apply Forall_app; split.
      - eapply Forall_impl; [|exact O1]. cbn. intros a Ha. lia.
      - eapply Forall_impl; [|exact O2]. cbn. intros a Ha. lia. }
    destruct o as [m| | |]; cbn [sc_buf] in H.
    + destruct (step (with_script s up) n (Emit m)) as [x s1] eqn:S1.
      destruct (sc_buf queued up s1 (S n) ops) as [[[rs0 s2] n2] up2] eqn:R.
      inversion H; subst; clear H.
      destruct (step_case _ _ _ _ S1 R) as (A & B & C & D & E & F).
      unfold sop_calls in *. cbn [filter length].
      split; [exact A|]. split; [exact B|]. split; [exact C|]. split; [lia|]. split; [cbn [length]; lia|exact F].
    + destruct (step (with_script s up) n Flush) as [x s1] eqn:S1.
      destruct (sc_buf queued up s1 (S n) ops) as [[[rs0 s2] n2] up2] eqn:R.
      inversion H; subst; clear H.
      destruct (step_case _ _ _ _ S1 R) as (A & B & C & D & E & F).
      unfold sop_calls in *. cbn [filter length].
      split; [exact A|]. split; [exact B|]. split; [exact C|]. split; [lia|]. split; [cbn [length]; lia|exact F].
    + destruct (sc_buf queued false s n ops) as [[[rs0 s2] n2] up2] eqn:R.
      inversion H; subst; clear H.
      destruct (IH _ _ _ _ _ _ _ I L R) as (A & B & C & D & E & F).
      unfold sop_calls in *. cbn [filter length].
      split; [exact A|]. split; [exact B|]. split; [exact C|]. split; [exact D|]. split; [cbn [length]; lia|exact F].
    + destruct (sc_buf queued true s n ops) as [[[rs0 s2] n2] up2] eqn:R.
      inversion H; subst; clear H.
      destruct (IH _ _ _ _ _ _ _ I L R) as (A & B & C & D & E & F).
      unfold sop_calls in *. cbn [filter length].
      split; [exact A|]. split; [exact B|]. split; [exact C|]. split; [exact D|]. split; [cbn [length]; lia|exact F].
Qed.

(* C05/C13 for a whole scenario on a buffered sink, whatever the listener does and whenever: every
   datagram that reaches the wire - those of the final drop included - is a non-empty run of whole
   lines "metric\n" within the capacity (512 unless configured), or one oversized metric alone *)
Theorem sc_buffered_frames co queued ops rs dg st :
  sc_buffered co queued ops = (rs, dg, st) ->
  let c := match co with Some n => n | None => 512 end in
  length rs = length ops /\
  Forall (fun d => (exists ms : list str, ms <> [] /\ d = concat (map (fun m => m ++ [10%N]) ms) /\ length d <= c) \/
                   (c < length d + 1)) dg.
Proof.
  unfold sc_buffered. destruct (sc_buf queued true (sink_init co []) 0 ops) as [[[rs0 s] n] up] eqn:R.
  intros H; inversion H; subst; clear H. cbn zeta.
  assert (I0 : Inv (sink_init co [])) by apply inv_init.
  assert (L0 : LogOk (sink_init co [])) by constructor.
  destruct (sc_buf_inv queued _ _ _ _ _ _ _ _ I0 L0 R) as (I & [C E] & L & _ & Len & _).
  split; [exact Len|].
  unfold mlw_drop. destruct (flush_buf (with_script s up) n) as [r s2] eqn:F. cbn [snd].
  apply flushbuf_spec in F; [|apply inv_with_script, I].
  destruct F as (_ & _ & datts & [X _] & Ffr & _). cbn [with_script set_io lg cap ending] in *.
  rewrite X. unfold datagrams. rewrite Forall_forall. intros d Hd. apply in_map_iff in Hd.
  destruct Hd as (sd & <- & Hd). apply in_flat_map in Hd. destruct Hd as (a & Ia & Hd).
  assert (Fa : frame_ok (cap s) (ending s) a).
  { apply in_app_or in Ia. destruct Ia as [Ia|Ia].
    - unfold LogOk in L. rewrite Forall_forall in L. auto.
    - rewrite Forall_forall in Ffr. auto. }
  destruct (a_out a); try contradiction. destruct Hd as [<-|[]]. cbn [sd_payload].
  rewrite C, E in Fa. unfold sink_init, init in Fa. cbn [cap ending] in Fa.
  unfold frame_ok in Fa. destruct (a_lab a) as [ms|m].
  - destruct Fa as (Nz & B & Le). left. exists (map snd ms). repeat split.
    + destruct ms; [contradiction|discriminate].
    + rewrite B. unfold render, line, newline. now rewrite map_map.
    + destruct co; exact Le.
  - destruct Fa as (B & Lt). right. rewrite B. unfold newline in Lt. cbn [length] in Lt. destruct co; exact Lt.
Qed.

(* C14 for a whole scenario on a buffered sink: the statistics read after the last call count the
   underlying sends made so far, each exactly once, as sent or as dropped with its full size *)
Theorem sc_buffered_stats co queued ops rs s n up :
  sc_buf queued true (sink_init co []) 0 ops = (rs, s, n, up) ->
  let st := buffered_stats (lg s) in
  let l := map attempt_of_log (lg s) in
  snd (sc_buffered co queued ops) = st /\
  packets_sent st = (sent_count l mod 2 ^ 64)%N /\ bytes_sent st = (sent_bytes l mod 2 ^ 64)%N /\
  packets_dropped st = (dropped_count l mod 2 ^ 64)%N /\ bytes_dropped st = (dropped_bytes l mod 2 ^ 64)%N /\
  (sent_count l + dropped_count l = N.of_nat (length (lg s)))%N.
Proof.
  intros R. cbn zeta. unfold sc_buffered. rewrite R. cbn [snd].
  destruct (updates_totals (map attempt_of_log (lg s))) as (A & B & C & D).
  repeat split; auto. rewrite counts_add, map_length. reflexivity.
Qed.

(* ------------------------------------------------------------------ histories whose fault script is
   re-dictated before every call (what a listener that comes and goes does to a buffered socket
   sink): the specification of whole histories (WriterRun.run_post) holds of them too, because the
   specification of one call never looks at the script. *)
Fixpoint wsteps (s : st) (n : nat) (ops : list (op * bool)) : list ores * st :=
  match ops with
  | [] => ([], s)
  | (o, up) :: r =>
    let '(x, s1) := step (with_script s up) n o in
    let '(xs, s2) := wsteps s1 (S n) r in (x :: xs, s2)
  end.

Lemma wsteps_spec ops : forall s n rs s',
  Inv s -> wsteps s n ops = (rs, s') -> exists atts, run_post s n (map fst ops) rs s' atts.
Proof.
  induction ops as [|[o up] ops IH]; intros s n rs s' I H; cbn [wsteps map fst] in H |- *.
  - inversion H; subst. exists []. constructor; auto using same_cfg_refl.
    + now rewrite app_nil_r.
    + cbn. now rewrite app_nil_r.
    + intros i x Hn. destruct i; discriminate.
  - destruct (step (with_script s up) n o) as [x s1] eqn:S1.
    destruct (wsteps s1 (S n) ops) as [xs s2] eqn:R. inversion H; subst; clear H.
    destruct (step_spec _ _ _ _ _ (inv_with_script s up I) S1) as [a1 P1].
    destruct P1 as [I1 [C1 E1] [X1 O1] F1 R1 Er1 L1 A1 _ _ _].
    cbn [with_script set_io cap ending lg bids] in C1, E1, X1, F1, L1, A1.
    destruct (IH _ _ _ _ I1 R) as [a2 P2].
    destruct P2 as [I2 [C2 E2] X2 O2 F2 Len2 R2 L2 A2 Err2 Own2].
    rewrite C1, E1 in *.
    exists (a1 ++ a2). constructor.
    + exact I2.
    + split; congruence.
    + rewrite X2, X1. now rewrite app_assoc.
    + apply Forall_app; split.
      * eapply Forall_impl; [|exact O1]. cbn. intros a Ha. cbn [length]. lia.
      * eapply Forall_impl; [|exact O2]. cbn. intros a Ha. cbn [length]. lia.
    + apply Forall_app; split; assumption.
    + cbn. now rewrite Len2.
    + constructor; assumption.
    + cbn [acked].
      rewrite sentL_app, <- app_assoc, (filter_app _ (sentL a1)), L2, <- filter_app.
      rewrite app_assoc, (filter_app _ (sentL a1 ++ bids s1)), L1, <- filter_app.
      rewrite (filter_app _ (acked1 n o x)). now rewrite !app_assoc.
    + cbn [acked]. rewrite sentA_app, A1, A2, filter_app. reflexivity.
    + intros i y Hn. destruct i as [|i]; cbn in Hn.
      * inversion Hn; subst y. rewrite Nat.add_0_r.
        assert (Hin : forall o', err_last a1 o' -> exists a, In a (a1 ++ a2) /\ a_op a = n /\ a_out a = o').
        { intros o' El. destruct (err_last_in _ _ El) as (a & Ia & Oa). exists a.
          split; [apply in_or_app; left; exact Ia|]. split; [|exact Oa].
          rewrite Forall_forall in O1. now apply O1. }
        destruct x; cbn in Er1; auto.
      * specialize (Err2 i y Hn).
        replace (n + S i) with (S n + i) by lia.
        destruct y; auto; destruct Err2 as (a & Ia & Oa & Ua); exists a;
          (split; [apply in_or_app; right; exact Ia|split; assumption]).
    + apply Forall_app; split; [|exact Own2].
      apply Forall_forall. intros a Ha g Hg.
      pose proof (sentA_in _ _ _ Ha Hg) as Hs. rewrite A1 in Hs.
      apply filter_In in Hs. destruct Hs as [Hs _].
      rewrite Forall_forall in O1. rewrite (O1 a Ha).
      unfold acked1 in Hs. destruct o; [|contradiction]. destruct x; try contradiction.
      destruct Hs as [Hs|[]]. subst g. reflexivity.
Qed.

(* the writer calls of a scenario, each with the listener's state at the time *)
Fixpoint sc_wops (up : bool) (ops : list sop) : list (op * bool) :=
  match ops with
  | [] => []
  | SEmit m :: r => (Emit m, up) :: sc_wops up r
  | SFlush :: r => (Flush, up) :: sc_wops up r
  | SDown :: r => sc_wops false r
  | SUp :: r => sc_wops true r
  end.

Fixpoint sc_final_up (up : bool) (ops : list sop) : bool :=
  match ops with
  | [] => up
  | SDown :: r => sc_final_up false r
  | SUp :: r => sc_final_up true r
  | _ :: r => sc_final_up up r
  end.

Lemma sc_buf_wsteps queued : forall ops up s n rs s' n' up',
  sc_buf queued up s n ops = (rs, s', n', up') ->
  snd (wsteps s n (sc_wops up ops)) = s' /\ n' = n + length (sc_wops up ops) /\ up' = sc_final_up up ops.
Proof.
  induction ops as [|o ops IH]; intros up s n rs s' n' up' H.
  - inversion H; subst. cbn. repeat split; lia.
  - destruct o as [m| | |]; cbn [sc_buf sc_wops wsteps sc_final_up length] in H |- *.
    + destruct (step (with_script s up) n (Emit m)) as [x s1] eqn:S1.
      destruct (sc_buf queued up s1 (S n) ops) as [[[rs0 s2] n2] up2] eqn:R. inversion H; subst; clear H.
      destruct (IH _ _ _ _ _ _ _ R) as (A & B & C).
      destruct (wsteps s1 (S n) (sc_wops up ops)) as [xs sx]. cbn [snd] in *. repeat split; auto; lia.
    + destruct (step (with_script s up) n Flush) as [x s1] eqn:S1.
      destruct (sc_buf queued up s1 (S n) ops) as [[[rs0 s2] n2] up2] eqn:R. inversion H; subst; clear H.
      destruct (IH _ _ _ _ _ _ _ R) as (A & B & C).
      destruct (wsteps s1 (S n) (sc_wops up ops)) as [xs sx]. cbn [snd] in *. repeat split; auto; lia.
    + destruct (sc_buf queued false s n ops) as [[[rs0 s2] n2] up2] eqn:R. inversion H; subst; clear H.
      exact (IH _ _ _ _ _ _ _ R).
    + destruct (sc_buf queued true s n ops) as [[[rs0 s2] n2] up2] eqn:R. inversion H; subst; clear H.
      exact (IH _ _ _ _ _ _ _ R).
Qed.

(* C07 for a whole scenario on a buffered socket sink, whatever the listener does and whenever:
   with [xs] the writer's own answers to the calls and [s] the sink before it goes away,
   - an answer that is an error is the error of a send that was refused during that very call,
   - the lines that were sent plus the lines still buffered are exactly the metrics that fit and whose
     emit was answered Ok - nothing reported lost is sent later, nothing answered Ok is missing,
   - the oversized metrics that went out alone are exactly those whose emit was answered Ok,
   - and when the listener is there at the end, the final drop empties the buffer *)
Theorem sc_buffered_ledger co queued ops rs s n up xs :
  sc_buf queued true (sink_init co []) 0 ops = (rs, s, n, up) ->
  fst (wsteps (sink_init co []) 0 (sc_wops true ops)) = xs ->
  let c := match co with Some k => k | None => default_capacity end in
  let wops := map fst (sc_wops true ops) in
  (forall i er, nth_error xs i = Some (OErr er) ->
     exists a, In a (lg s) /\ a_op a = i /\ a_out a = WErr er) /\
  filter (nzb newline) (sentL (lg s) ++ bids s) = filter (nzb newline) (fit_ids c newline (acked 0 wops xs)) /\
  sentA (lg s) = big_ids c newline (acked 0 wops xs) /\
  (up = true -> bids (mlw_drop (with_script s up) n) = []).
Proof.
  intros R X c wops.
  destruct (sc_buf_wsteps queued _ _ _ _ _ _ _ _ R) as (S' & N' & U').
  destruct (wsteps (sink_init co []) 0 (sc_wops true ops)) as [xs0 s0] eqn:W. cbn [fst snd] in *. subst xs0 s0.
  destruct (wsteps_spec _ _ _ _ _ (inv_init _ _ _) W) as [atts P].
  destruct P as [I [C E] Lg _ _ _ _ L A Err _].
  cbn [sink_init init lg cap ending bids app] in Lg, L, A, C, E. fold c in L, A.
  split; [|split; [|split]].
  - intros i er Hn. specialize (Err i (OErr er) Hn). cbn in Err. rewrite Lg. exact Err.
  - rewrite Lg. exact L.
  - rewrite Lg. exact A.
  - clear U'. intros Up. subst up. unfold mlw_drop.
    destruct (flush_buf (with_script s true) n) as [r s2] eqn:F. cbn [snd].
    pose proof F as F0. apply flushbuf_spec in F; [|apply inv_with_script, I].
    destruct F as (_ & _ & datts & [X _] & _ & _ & _ & _ & _ & M).
    destruct r; try contradiction.
    + now destruct M.
    + (* an error is impossible: the script only answers Ok *)
      exfalso. destruct M as [M _].
      assert (Ok : Forall (fun a => a_out a = WOk) datts).
      { clear - F0 X. unfold flush_buf in F0. cbn [with_script set_io bbuf sc] in F0.
        destruct (bbuf s) eqn:B.
        - inversion F0.
        - unfold up_script in F0. cbn [repeat length flush_loop under set_io sc lg] in F0. inversion F0. }
      eapply err_last_not_ok; [exact Ok| |exact M]. discriminate.
Qed.
