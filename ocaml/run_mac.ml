(* model: macro *)
(* include: wireparse *)
(* model side of harness bin `mac` (formats: harness/src/mac.rs); float arguments arrive as the hex of std's
   Display text.  The parsing helpers are those of run_wire.ml. *)


let show_expr = function
  | XKey -> "k" | XVal -> "v"
  | XTagKey i -> "tk" ^ string_of_int (int_of_nat i)
  | XTagVal i -> "tv" ^ string_of_int (int_of_nat i)

let parse_macro = function
  | "c" -> StatsdCount | "ms" -> StatsdTime | "g" -> StatsdGauge | "m" -> StatsdMeter
  | "h" -> StatsdHistogram | "d" -> StatsdDistribution | "s" -> StatsdSet | k -> failwith ("bad macro " ^ k)

let parse_tags s =
  List.map (fun t -> let (k, v) = split2 ':' t in (unhex0 k, unhex0 v)) (split_on ',' s)

let run_case line =
  match tokens line with
  | ["M"; prefix; dtags; dcid; script; steps] ->
    let cfg = { c_prefix = unhex0 prefix; c_tags = parse_dtags dtags;
                c_container = (if dcid = "~" then None else Some (unhex0 dcid)) } in
    let global = ref None and script = ref (parse_script script) and out = ref [] and mine = ref true in
    List.iter (fun step ->
      match String.split_on_char '|' step with
      | ["S"] -> if !global = None then global := Some cfg
      | ["Z"] -> if !global = None then begin
          (* another client (its own always-accepting sink, not observed by the harness) became the global one *)
          mine := false;
          global := Some { c_prefix = unhex0 "7a7a"; c_tags = []; c_container = None } end
      | [("I" | "T"); kind; arg; key; tags] ->
        let inv = { i_macro = parse_macro kind; i_key = unhex0 key; i_arg = parse_arg arg; i_tags = parse_tags tags } in
        let s = run_macro !global inv (if !mine then !script else []) in
        if !mine then script := s.m_script;
        let ret = if s.m_panicked then "panic" else if s.m_stuck then "notype" else "unit" in
        let em = if s.m_emitted = [] || not !mine then "~" else String.concat "+" (List.map hex0 s.m_emitted) in
        let hd = if s.m_handled = [] || not !mine then "~" else String.concat "+" (List.map show_err s.m_handled) in
        let ev = if s.m_evals = [] then "~" else String.concat "." (List.map show_expr s.m_evals) in
        out := (ret ^ "," ^ em ^ "," ^ hd ^ "," ^ ev) :: !out
      | _ -> failwith ("bad step " ^ step)) (String.split_on_char '%' steps);
    String.concat "|" (List.rev !out)
  | _ -> failwith ("bad mac case: " ^ line)
