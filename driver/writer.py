"""C05, C06, C07, C19: the line-buffering writer (cadence/src/io.rs) and the buffered
sinks built on it.  Case generation, the property clauses evaluated directly on
what the *implementation* did, and the check entry points."""
import itertools
import re
import random
from multiprocessing import Pool

from . import common
from .common import Report, case_hash

ENDINGS = ["-", "0a", "0d0a"]


def hexs(b):
    return b.hex() if b else "-"


def unhex(s):
    return b"" if s == "-" else bytes.fromhex(s)


# ------------------------------------------------------------------ case generation

def metric(j, n, tail=None):
    """metric emitted by operation j: n copies of a letter that identifies j; with [tail], the last byte is that one
    (a space, a tab, a carriage return: a metric's bytes are the writer's to carry, not to tidy)"""
    m = bytes([0x61 + (j % 26)]) * n
    return m[:-len(tail)] + tail if tail and n > len(tail) else m


def rand_tail(rng, ending=b""):
    """a metric may end in anything - white space, a line feed, the very bytes of the writer's line terminator"""
    if rng.random() >= 0.14:
        return None
    return rng.choice([b" ", b"\t", b"\r", b"\x0b", b"\n", b"\n"] + ([ending, ending] if ending else []))


def mk_case(cap, ending, ops, script):
    """ops: list of ('E', bytes) | ('F',); script: list of 'o' | 'i' | 'e<k>'"""
    o = ",".join("F" if x[0] == "F" else "E" + hexs(x[1]) for x in ops) or "-"
    s = ",".join(script) or "-"
    return "W %d %s %s %s" % (cap, ending, o, s)


def gen_exhaustive(maxcap, maxops, maxlen_over, script_len, faults):
    """every (capacity <= maxcap, terminator in ENDINGS, <= maxops operations each a flush or
    an emit of length 0..capacity+maxlen_over, every fault script of length <= script_len
    over {ok, error, interrupted})"""
    scripts = [[]]
    if faults:
        scripts = []
        for n in range(script_len + 1):
            for t in itertools.product(["o", "e", "i"], repeat=n):
                if n and t[-1] == "o":
                    continue  # trailing Ok = exhausted script
                sc = []
                k = 0
                for x in t:
                    if x == "e":
                        k += 1
                        sc.append("e%d" % k)
                    else:
                        sc.append(x)
                scripts.append(sc)
    out = []
    for cap in range(maxcap + 1):
        for e in ENDINGS:
            choices = [("F",)] + [("E", n) for n in range(cap + maxlen_over + 1)]
            for nops in range(1, maxops + 1):
                for combo in itertools.product(choices, repeat=nops):
                    ops = [("F",) if c[0] == "F" else ("E", metric(j, c[1])) for j, c in enumerate(combo)]
                    for sc in scripts:
                        out.append(mk_case(cap, e, ops, sc))
    return out


def gen_boundary(rng, n, faults):
    """histories whose metric lengths sit at the branch points of the writer: around the
    space left in the buffer (exact fit, one less, one more) and around the capacity"""
    out = []
    for _ in range(n):
        cap = rng.choice([0, 1, 2, 3, 5, 8, 16, 31, 64, 512])
        # terminators of 0, 1, 2 and 3 bytes; U+2028 and U+00E9 are one character but several bytes
        e = rng.choice(ENDINGS + ["0a", "0a", "e280a8", "c3a9", "0d0a0d0a"])
        el = len(unhex(e))
        ops = []
        fill = 0
        for j in range(rng.randint(1, 12)):
            r = rng.random()
            if r < 0.15:
                ops.append(("F",))
                fill = 0
                continue
            left = cap - fill
            target = rng.choice([left - el - 1, left - el, left - el + 1, cap - el, cap - el + 1, cap - el - 1,
                                 cap, cap + 1, 0, 1, rng.randint(0, max(1, cap))])
            ln = max(0, target)
            ops.append(("E", metric(j, ln, rand_tail(rng, unhex(e)))))
            if ln + el > cap:
                pass
            elif ln + el > left:
                fill = ln + el
            else:
                fill += ln + el
        sc = []
        if faults:
            k = 0
            for _ in range(rng.randint(0, 6)):
                x = rng.choice(["o", "o", "e", "i"])
                if x == "e":
                    k += rng.randint(1, 12)       # the id also selects the io::ErrorKind the scripted writer answers with
                    x = "e%d" % k
                sc.append(x)
        out.append(mk_case(cap, e, ops, sc))
    return out


def gen_large(rng, n, faults):
    """capacities around and above 8192 (std's default BufWriter size, which a constructor slip would substitute for the
    configured capacity): unflushed data crossing byte 8192 exactly at the end of a metric's text, single metrics of
    8192.. bytes that still fit, random long histories"""
    out = []
    caps = [8190, 8191, 8192, 8193, 8200, 9000, 16384, 65536]
    for cap in caps:
        for e in ("0a", "0d0a", "-"):
            el = len(unhex(e))
            # seven lines of 1024 bytes in total each, then a metric whose text ends exactly at byte 8192 of the unflushed data
            ops = [("E", metric(j, 1024 - el)) for j in range(7)]
            ops += [("E", metric(7, 1024)), ("E", metric(8, 5)), ("E", metric(9, 700)), ("F",), ("E", metric(10, 3))]
            out.append(mk_case(cap, e, ops, []))
            for ln in (8191, 8192, 8193, 9000, cap - el, cap - el - 1, cap - el + 1):
                if ln >= 0:
                    out.append(mk_case(cap, e, [("E", metric(0, 10)), ("E", metric(1, ln)), ("E", metric(2, 10)), ("F",),
                                                ("E", metric(3, ln)), ("E", metric(4, 1))], []))
    for _ in range(n):
        cap = rng.choice(caps + [10000, 12288, 20000, 32768])
        e = rng.choice(["0a", "0a", "0d0a", "-", "e280a8"])
        el = len(unhex(e))
        ops = []
        tot = 0
        for j in range(rng.randint(5, 40)):
            if rng.random() < 0.05:
                ops.append(("F",))
                tot = 0
                continue
            room = 8192 - tot
            ln = rng.choice([rng.randint(0, 3000), rng.randint(0, 300), max(0, room), max(0, room - el), max(0, room - 1), 1024 - el])
            ops.append(("E", metric(j, ln)))
            tot += ln + el
        sc = []
        if faults and rng.random() < 0.5:
            sc = [rng.choice(["o", "o", "e%d" % (k + 1), "i"]) for k in range(rng.randint(1, 5))]
        out.append(mk_case(cap, e, ops, sc))
    return out


def gen_qf(rng, n):
    """client -> queuing sink -> buffered sink: emits, flushes through the queuing sink (F) and through the client (C),
    with the worker parked (P .. G) so that a backlog exists while a flush is called"""
    out = ["QF 16 E613a317c63,F,E623a327c63,P,E633a337c63,E643a347c63,F,G,C", "QF d E613a317c63,C",
           "QF 8 E613a317c63,P,E62623a327c63,F,C,G,F", "QF 0 E61,F,P,E62,C,G"]
    for i in range(n):
        cap = rng.choice(["d", "0", "1", "8", "16", "24", "64"])
        c = 512 if cap == "d" else int(cap)
        ops, parked, armed = [], False, False
        for j in range(rng.randint(2, 14)):
            r = rng.random()
            if r < 0.5:
                ln = rng.choice([1, 3, c // 3, c - 2, c - 1, c, c + 3, 5])
                m = ("m%d." % j).encode() + b"x" * max(0, ln - 4)
                ops.append("E" + hexs(m))
                if armed:
                    parked, armed = True, False
            elif r < 0.7:
                ops.append(rng.choice("FC"))
            elif r < 0.85 and not armed and not parked:
                ops.append("P")
                armed = True
            elif parked or armed:
                ops.append("G")
                parked = armed = False
            else:
                ops.append(rng.choice("FC"))
        out.append("QF %s %s" % (cap, ",".join(ops)))
    return out


def check_qf(case, obs):
    """C06 through the wrappers: when a flush (on the queuing sink or through the client) returns Ok, every metric the
    buffered sink had accepted before the flush was called is among the messages written so far"""
    if obs.startswith("HARNESS-PANIC"):
        return "the stack panicked: " + obs[:200]
    t = case.split()
    ops = t[2].split(",")
    parts = dict(x.split(":", 1) for x in obs.split("|"))
    res = parts["R"].split(",")
    inner = parts["I"].split(",") if parts["I"] else []
    msgs = [unhex(x) for x in parts["M"].split(";")] if parts["M"] else []
    ns = [int(x) for x in parts["N"].split(",")]
    accs = [int(x) for x in parts["A"].split(",")]
    for j, op in enumerate(ops):
        if op in ("F", "C") and res[j] == "k0":
            before = accs[j - 1] if j else 0
            accepted = [unhex(x[1:].split("=")[0]) for x in inner[:before] if x[0] == "E" and "=k" in x]
            have = b"".join(msgs[:ns[j]])
            for m in accepted:
                if m and m not in have:
                    return ("operation %d: flush %s returned Ok, but %r, which the buffered sink had accepted before, has not "
                            "been written (%d messages so far)" % (j, "through the client" if op == "C" else "on the queuing sink",
                                                                   m[:40], ns[j]))
    return None


def qf_model_case(case, obs):
    """the calls that reached the buffered sink, in their real order, as an S case of the model"""
    parts = dict(x.split(":", 1) for x in obs.split("|"))
    inner = parts["I"].split(",") if parts.get("I") else []
    ops = ",".join("F" if x[0] == "F" else x.split("=")[0] for x in inner) or "-"
    return "S %s u %s" % (case.split()[1], ops)


def gen_random(rng, n, faults, maxops=200):
    out = []
    for _ in range(n):
        cap = rng.choice([0, 1, 2, 8, 16, 64, 512])
        e = rng.choice(ENDINGS + ["0a"])
        ops = []
        nops = rng.choice([3, 8, 20, 60, maxops]) if rng.random() < 0.7 else rng.randint(1, maxops)
        for j in range(nops):
            if rng.random() < 0.1:
                ops.append(("F",))
            else:
                ln = rng.choice([rng.randint(0, cap + 2), rng.randint(0, max(1, cap // 3)), rng.randint(0, 40)])
                ops.append(("E", metric(j, ln, rand_tail(rng, unhex(e)))))
        sc = []
        if faults:
            k = 0
            for _ in range(rng.randint(0, nops)):
                x = rng.choice(["o", "o", "o", "e", "i"])
                if x == "e":
                    k += rng.randint(1, 12)       # the id also selects the io::ErrorKind the scripted writer answers with
                    x = "e%d" % k
                sc.append(x)
        out.append(mk_case(cap, e, ops, sc))
    return out


def gen_spy(rng, n, faults):
    """BufferedSpyMetricSink; with [faults] its bounded, never-drained queue is the fault injector"""
    out = []
    for _ in range(n):
        cap = rng.choice(["d", "d", "0", "1", "2", "8", "16", "64", "512"])
        c = 512 if cap == "d" else int(cap)
        q = rng.choice([0, 1, 2, 3, 50]) if faults else "u"
        ops = []
        for j in range(rng.randint(1, 30)):
            if rng.random() < 0.15:
                ops.append("F")
            else:
                ln = rng.choice([rng.randint(0, c + 2), rng.randint(1, 20), max(0, c - 1), max(0, c - 2)])
                ops.append("E" + hexs(metric(j, ln)))
        out.append("S %s %s %s" % (cap, q, ",".join(ops)))
    return out


# ------------------------------------------------------------------ parsing

def parse_case(line):
    t = line.split()
    assert t[0] == "W"
    cap = int(t[1])
    ending = unhex(t[2])
    ops = []
    if t[3] != "-":
        for x in t[3].split(","):
            ops.append(("F",) if x == "F" else ("E", unhex(x[1:])))
    script = [] if t[4] == "-" else t[4].split(",")
    return cap, ending, ops, script


def parse_obs(obs):
    r, l = obs.split("|L:")
    results = r[2:].split(",") if len(r) > 2 else []
    log = []
    if l:
        for a in l.split(";"):
            op, b, o = a.split(":")
            log.append((int(op), unhex(b), o))
    return results, log


# ------------------------------------------------------------------ property clauses

def segment(data, lines, used):
    """ids of the complete lines [data] is the concatenation of, or None.  [lines] maps id -> line bytes.
    Metrics may contain or end in the terminator, so a datagram can have several readings ("jjj\n\n" is the line of
    "jjj\n", or the lines of "jjj" and ""): the reading that re-uses the fewest metrics already written successfully
    ([used]) is taken (dynamic programme over the positions; ties: longest line first).  Among metrics with
    identical bytes the oldest one not yet written is chosen (falling back to an already written one, which the
    exactly-once clause then reports); zero-length lines match only an empty write."""
    if not data:
        ids = [i for i, ln in sorted(lines.items()) if not ln]
        return ids[:1] if ids else None
    byline = {}
    for i, ln in sorted(lines.items()):
        if ln:
            byline.setdefault(ln, []).append(i)
    fresh = {ln: sum(1 for i in ids if i not in used) for ln, ids in byline.items()}
    byfirst = {}
    for ln in byline:
        byfirst.setdefault(ln[0], []).append(ln)
    n = len(data)
    best = [None] * (n + 1)
    best[n] = (0, None)
    for pos in range(n - 1, -1, -1):
        b = None
        for ln in byfirst.get(data[pos], ()):
            nxt = best[pos + len(ln)] if pos + len(ln) <= n else None
            if nxt is not None and data.startswith(ln, pos):
                cost = nxt[0] + (0 if fresh[ln] > 0 else 1)
                if b is None or cost < b[0] or (cost == b[0] and len(ln) > len(b[1])):
                    b = (cost, ln)
        best[pos] = b
    if best[0] is None:
        return None
    out = []
    pos = 0
    mine = set()
    while pos < n:
        ln = best[pos][1]
        ids = byline[ln]
        cand = [i for i in ids if i not in used and i not in mine] or [i for i in ids if i not in mine] or ids
        mine.add(cand[0])
        out.append(cand[0])
        pos += len(ln)
    return out


def analyse(case, obs):
    """Decode what the implementation did into identities.  Returns a dict, or a string
    describing why the observation cannot be decoded (itself a framing violation)."""
    cap, ending, ops, script = parse_case(case)
    results, log = parse_obs(obs)
    fits = {}
    lines = {}
    big = {}
    for j, op in enumerate(ops):
        if op[0] == "E":
            if len(op[1]) + len(ending) > cap:
                big[j] = op[1]
            else:
                fits[j] = op[1]
                lines[j] = op[1] + ending
    atts = []
    used = set()
    okres = set(j for j, r in enumerate(results) if r.startswith("k"))
    last_of = {}
    for k, (opi, _, _) in enumerate(log):
        last_of[opi] = k
    for k, (opi, data, out) in enumerate(log):
        # an attempt made during operation opi can only carry metrics emitted so far; among metrics with
        # identical bytes prefer those whose emit was acknowledged (the others must never be written, and
        # identical bytes cannot tell them apart)
        avail = {i: ln for i, ln in lines.items() if i <= opi and i in okres}
        if segment(data, avail, used) is None:
            avail = {i: ln for i, ln in lines.items() if i <= opi}
        alone = [i for i, m in big.items() if m == data and i <= opi and i in okres] or \
                [i for i, m in big.items() if m == data and i <= opi]
        ids = segment(data, avail, used)
        kind = None
        if ids is not None and len(data) <= cap and opi in big and big[opi] == data and last_of[opi] == k:
            # the bytes are both this operation's own oversized metric and the line(s) of earlier metrics (a metric may
            # END in the terminator): identical bytes cannot tell the two apart.  The writer flushes what is buffered
            # before it passes an oversized metric through, so the LAST write of the operation is read as the metric
            # itself and any earlier one as buffered lines
            kind = ("alone", opi)
        elif ids is not None and len(data) <= cap:
            kind = ("lines", ids)
            if out == "o":
                used.update(ids)
        elif alone:
            own = [i for i in alone if i == opi]
            kind = ("alone", own[0] if own else alone[-1])
        atts.append({"op": opi, "data": data, "out": out, "kind": kind})
    return {"cap": cap, "ending": ending, "ops": ops, "script": script, "results": results,
            "atts": atts, "fits": fits, "big": big, "lines": lines}


def clause_frame(a):
    """C05: every write is whole lines within the capacity, or one oversized metric alone"""
    for i, at in enumerate(a["atts"]):
        if at["kind"] is None:
            return "attempt %d (during op %d) %r is neither whole lines <= capacity nor an oversized metric alone" % (
                i, at["op"], at["data"])
    return None


def clause_no_panic(a):
    if "p" in a["results"]:
        return "operation %d panicked" % a["results"].index("p")
    return None


def clause_conserve(a, faults, c06_under_faults=False):
    """C06 / C07: acknowledged <=> written exactly once, in order; errors lose only their own metric.
    c06_under_faults: the clauses of C06 that speak about failing writes too (c06_flush_point, c06_flush_idem,
    c06_own_emit are proved for every fault script): exactly once, order, own emit, "a flush that returns Ok has written
    everything acknowledged before it", "flushing again writes nothing" - without C07's clauses about what an error means"""
    ops, results = a["ops"], a["results"]
    if len(results) != len(ops):
        return "only %d results for %d operations" % (len(results), len(ops))
    acked, failed = [], []
    for j, (op, r) in enumerate(zip(ops, results)):
        if op[0] == "E":
            if r.startswith("k"):
                if int(r[1:]) != len(op[1]):
                    return "emit %d returned Ok(%s) for a metric of %d bytes" % (j, r[1:], len(op[1]))
                acked.append(j)
            else:
                failed.append(j)
        # every result is Ok or the error of an attempt made during that very operation
        if not r.startswith("k") and not c06_under_faults:
            errs = [at["out"] for at in a["atts"] if at["op"] == j and at["out"] != "o"]
            if not faults:
                return "operation %d failed (%s) although the underlying writer never fails" % (j, r)
            if r not in errs:
                return "operation %d returned %s, which no underlying write made during it produced (%s)" % (j, r, errs)
            if errs[-1] != r:
                return "operation %d returned %s but the last failure during it was %s" % (j, r, errs[-1])
    sent = []       # ids in successful whole-line writes, in order
    count = {}
    sent_at = {}
    for at in a["atts"]:
        if at["out"] != "o" or at["kind"] is None:
            continue
        if at["kind"][0] == "lines":
            for i in at["kind"][1]:
                if a["lines"][i]:
                    count[i] = count.get(i, 0) + 1
                    sent.append(i)
                    sent_at.setdefault(i, at["op"])
        else:
            i = at["kind"][1]
            count[i] = count.get(i, 0) + 1
            sent_at.setdefault(i, at["op"])
            if at["op"] != i:
                return "oversized metric %d was written during operation %d, not during its own emit" % (i, at["op"])
    for i, c in count.items():
        if c > 1:
            return "metric %d was written %d times" % (i, c)
    for i in ([] if c06_under_faults else failed):
        if count.get(i) and (i in a["big"] or a["lines"][i]):
            return "emit %d returned an error but its metric was written" % i
    for i in count:
        if i not in acked and i not in failed:
            return "metric %d written but never emitted" % i
    # order of the metrics that fit
    fit_acked = [i for i in acked if i in a["fits"] and a["lines"][i]]
    if c06_under_faults:
        sent = [i for i in sent if i in acked]       # what became of refused emits is C07's business
    if sent != [i for i in fit_acked if i in count]:
        return "buffered metrics left in order %s, acknowledged in order %s" % (sent, fit_acked)
    # oversized acknowledged metrics were written (during their own emit, checked above)
    for i in acked:
        if i in a["big"] and not count.get(i):
            return "oversized metric %d acknowledged but not written" % i
    # by the time a flush returns Ok everything acknowledged before it has been written;
    # the final drop plays the same role when its write succeeded
    checkpoints = [j for j, (op, r) in enumerate(zip(ops, results)) if op[0] == "F" and r.startswith("k")]
    final_ok = True
    drop_atts = [at for at in a["atts"] if at["op"] == len(ops)]
    if drop_atts and drop_atts[-1]["out"] != "o":
        final_ok = False
    if final_ok:
        checkpoints.append(len(ops))
    for cp in checkpoints:
        for i in fit_acked:
            if i < cp and (i not in sent_at or sent_at[i] > cp):
                return "metric %d was acknowledged before the successful flush/drop at %d but not written by then" % (i, cp)
    # a flush right after a successful flush writes nothing
    for j in range(1, len(ops)):
        if ops[j][0] == "F" and ops[j - 1][0] == "F" and results[j - 1].startswith("k"):
            if any(at["op"] == j for at in a["atts"]):
                return "flush %d right after a successful flush still wrote something" % j
    if drop_atts and ops and ops[-1][0] == "F" and results[-1].startswith("k"):
        return "drop right after a successful flush still wrote something"
    return None


def clause_greedy(a):
    """C19: an emit writes to the socket only when it must (buffered + new bytes >= capacity), every datagram it
    flushes could not have taken the new metric - both also under faults, where a failed attempt leaves the data
    buffered - and, for fault-free segments between flushes, the number of datagrams is the optimum of in-order packing"""
    cap, el = a["cap"], len(a["ending"])
    pending = 0
    n_datagrams_segment = 0
    sizes_segment = []
    faulty_segment = False
    results = a["results"]

    def greedy_count(sizes):
        n, cur = 0, None
        for s in sizes:
            if cur is None or cur + s > cap:
                n += 1
                cur = s
            else:
                cur += s
        return n

    for j, op in enumerate(a["ops"] + [("D",)]):
        atts = [at for at in a["atts"] if at["op"] == j]
        acked = j < len(results) and results[j].startswith("k")
        if any(at["out"] != "o" for at in atts) or (op[0] != "D" and j < len(results) and not acked):
            faulty_segment = True
        if op[0] == "E":
            m = op[1]
            need = len(m) + el
            if atts and not (pending + need >= cap):
                return "emit %d wrote to the socket although %d buffered + %d new bytes fit in %d with room to spare" % (
                    j, pending, need, cap)
            for at in atts:
                if at["kind"] and at["kind"][0] == "lines" and at["data"] and j not in at["kind"][1]:
                    if not (len(at["data"]) + need > cap):
                        return "emit %d flushed a datagram of %d bytes although the %d new bytes still fitted in %d" % (
                            j, len(at["data"]), need, cap)
            if j in a["fits"] and acked:
                sizes_segment.append(need)
        ok_lines = [at for at in atts if at["out"] == "o" and at["kind"] and at["kind"][0] == "lines"]
        flushed = sum(len(at["data"]) for at in ok_lines)
        n_datagrams_segment += sum(1 for at in ok_lines if at["data"])
        if op[0] == "E" and j in a["fits"] and acked:
            pending += len(op[1]) + el
        pending -= flushed
        if pending < 0:
            return "more bytes flushed than buffered at operation %d" % j
        if op[0] in ("F", "D") and (op[0] == "D" or acked) and not any(at["out"] != "o" for at in atts):
            if pending != 0 and not faulty_segment:
                return "%d bytes still buffered after flush/drop %d" % (pending, j)
            want = greedy_count([s for s in sizes_segment if s])
            if n_datagrams_segment != want and not faulty_segment:
                return "%d datagrams used before flush/drop %d where in-order packing of sizes %s into %d needs %d" % (
                    n_datagrams_segment, j, sizes_segment, cap, want)
            if pending == 0:
                sizes_segment = []
                n_datagrams_segment = 0
                faulty_segment = False
    return None


def check_spy(case, obs):
    """framing of the messages a BufferedSpyMetricSink put on its channel (capacity 512 when none given)"""
    t = case.split()
    cap = 512 if t[1] == "d" else int(t[1])
    ops = [("F",) if x == "F" else ("E", unhex(x[1:])) for x in t[3].split(",")]
    r, m = obs.split("|M:")
    msgs = [unhex(x) for x in m.split(";")] if m else []
    lines = {j: op[1] + b"\n" for j, op in enumerate(ops) if op[0] == "E" and len(op[1]) + 1 <= cap}
    big = [op[1] for op in ops if op[0] == "E" and len(op[1]) + 1 > cap]
    used = set()
    for k, data in enumerate(msgs):
        ids = segment(data, lines, used)
        if ids is not None and len(data) <= cap:
            used.update(ids)
        elif data in big:
            pass
        else:
            return "frame: message %d (%d bytes) on the spy channel is neither whole lines within %d bytes nor an oversized metric alone" % (k, len(data), cap)
    if "p" in r:
        return "panic"
    # results: Ok carries the metric's length (flush: 0); an oversized metric whose emit returned Ok was written,
    # alone, during that emit (c07_results / c06_own_emit) - so it must be among the messages, once
    res = r[2:].split(",") if r[2:] else []
    for j, (op, x) in enumerate(zip(ops, res)):
        if x.startswith("k"):
            want = len(op[1]) if op[0] == "E" else 0
            if int(x[1:]) != want:
                return "result: operation %d returned Ok(%s), expected Ok(%d)" % (j, x[1:], want)
            if op[0] == "E" and len(op[1]) + 1 > cap and msgs.count(op[1]) < sum(
                    1 for o2, x2 in zip(ops, res) if o2 == op and x2.startswith("k")):
                return "result: operation %d: an oversized metric was acknowledged with Ok but never reached the channel" % j
    return None


CLAUSES = {
    "C05": lambda a: clause_frame(a),
    "C06": lambda a: clause_no_panic(a) or clause_frame(a) or clause_conserve(a, False),
    "C07": lambda a: clause_no_panic(a) or clause_frame(a) or clause_conserve(a, True),
    "C06f": lambda a: clause_no_panic(a) or clause_frame(a) or clause_conserve(a, True, True),
    "C19": lambda a: clause_frame(a) or clause_greedy(a),
}


def _check_one(args):
    prop, case, obs = args
    try:
        a = analyse(case, obs)
        return CLAUSES[prop](a)
    except Exception as e:  # undecodable observation
        return "observation cannot be decoded: %r" % (e,)


def case_size(case):
    t = case.split()
    return (len(t[3].split(",")), len(t[3]) + len(t[4]), int(t[1]))


def nontrivial(case, obs):
    """a case is non-trivial when the implementation made at least one underlying write
    before the final drop (i.e. an automatic flush, bypass, exact fill or explicit flush fired)"""
    _, log = parse_obs(obs)
    nops = 0 if case.split()[3] == "-" else len(case.split()[3].split(","))
    return any(op < nops for (op, _, _) in log)


# ------------------------------------------------------------------ the checks

def run_writer_check(prop, tier, seed, faults, design_ref):
    rep = Report(prop, tier, seed, level="proof")
    rep.cov["trusted_base"] = TRUSTED
    rep.assumptions = ASSUMPTIONS
    rep.add_audit(common.audit_proofs(prop))
    if not common.ensure_built(rep):
        return rep.finish()
    rng = random.Random(seed)
    thorough = tier == "thorough"
    cases = []
    corpus = load_corpus(prop)
    cases += corpus
    if thorough:
        scope = (5, 5 if not faults else 4, 4 if faults else 0)
    else:
        scope = (3, 4 if not faults else 3, 4 if faults else 0)
    ex = gen_exhaustive(scope[0], scope[1], 1, scope[2], faults)
    cases += ex
    cases += gen_boundary(rng, 300000 if thorough else 3000, faults)
    cases += gen_random(rng, 100000 if thorough else 1500, faults)
    cases += gen_large(rng, 3000 if thorough else 40, faults)
    spy = gen_spy(rng, 50000 if thorough else 500, faults)
    try:
        impl = common.run_harness("mlw", cases)
        model = common.run_model("mlw", cases)
        impl_spy = common.run_harness("mlw", spy)
        model_spy = common.run_model("mlw", spy)
    except common.CheckFailure as e:
        rep.violation_noinput("correspondence run failed", {"error": str(e)})
        return rep.finish()
    # C06: flushes through the client and through a queuing wrapper (real threads; the calls that reach the buffered sink
    # are replayed in the model in their observed order)
    qf_fail, qf_dis = [], []
    if prop == "C06":
        qf = gen_qf(rng, 2000 if thorough else 150)
        try:
            qimpl = common.run_harness("mlw", qf, shards=min(8, common.NCPU))
            good = [(c, o) for c, o in zip(qf, qimpl) if not o.startswith("HARNESS-PANIC")]
            qmodel = common.run_model("mlw", [qf_model_case(c, o) for c, o in good])
        except common.CheckFailure as e:
            rep.violation_noinput("correspondence run failed (QF family)", {"error": str(e)})
            return rep.finish()
        for c, o in zip(qf, qimpl):
            v = check_qf(c, o)
            if v:
                qf_fail.append((len(c), c, o, v))
        for (c, o), m in zip(good, qmodel):
            parts = dict(x.split(":", 1) for x in o.split("|"))
            inner_res = ",".join(x.split("=")[1] for x in parts["I"].split(",")) if parts["I"] else ""
            if "R:%s|M:%s" % (inner_res, parts["M"]) != m:
                qf_dis.append((len(c), c, o, m))
        rep.cov["qf_cases"] = len(qf)
    # C06/C07: the same histories through a StatsdClient (user-written buffered sink = Mutex<MultiLineWriter<..>>,
    # send_metric(&Counter::from(text)), StatsdClient::flush): what the client answers must be what the writer answers
    cw_fail, cw_dis = [], []
    if prop in ("C06", "C07"):
        def utf8_ok(c):
            try:
                for o in c.split()[3].split(","):
                    if o.startswith("E"):
                        unhex(o[1:]).decode("utf-8")
                return True
            except UnicodeDecodeError:
                return False
        idx = [i for i, c in enumerate(cases) if c.startswith("W ") and utf8_ok(c)]
        pick = idx[::max(1, len(idx) // (40000 if thorough else 3000))]
        src = [(cases[i], model[i]) for i in pick]
        try:
            if not faults:
                # "a flush that returns Ok has written everything accepted before" is a statement about failing writes
                # too: fault histories for the client-level family even where the sink-level families run fault-free
                fx = [c for c in gen_exhaustive(2, 3, 1, 3, True) + gen_boundary(rng, 20000 if thorough else 1500, True)
                      if utf8_ok(c)]
                src += list(zip(fx, common.run_model("mlw", fx)))
            cimpl = common.run_harness("mlw", ["C" + c for c, _ in src])
        except common.CheckFailure as e:
            rep.violation_noinput("correspondence run failed (CW family)", {"error": str(e)})
            return rep.finish()
        for (wc, wm), o in zip(src, cimpl):
            if o.startswith("R:") and "|L:" in o:
                # the property's own clauses on what the client-level run did (the client does not report byte counts:
                # an Ok emit stands for Ok(len))
                wops = wc.split()[3].split(",") if wc.split()[3] != "-" else []
                rr = o.split("|L:")[0][2:].split(",")
                full = ",".join(("k%d" % (len(unhex(wops[j][1:])) if j < len(wops) and wops[j][0] == "E" else 0)) if x == "k" else x
                                for j, x in enumerate(rr))
                v = _check_one((prop if (faults or wc.split()[4] == "-") else "C06f", wc, "R:" + full + "|L:" + o.split("|L:")[1]))
                if v:
                    cw_fail.append((case_size(wc), "C" + wc, o, "through the client: " + v))
                    continue
            mr, ml = wm.split("|L:")
            want = "R:" + ",".join("k" if x[:1] == "k" else x for x in mr[2:].split(",")) + "|L:" + ml
            if o == want:
                continue
            ri, rm = o.split("|")[0][2:].split(","), want.split("|")[0][2:].split(",")
            soft = [j for j, (a, b) in enumerate(zip(ri, rm)) if a == "k" and b != "k"]
            if soft and o.split("|L:")[1] == want.split("|L:")[1]:
                cw_fail.append((case_size(wc), "C" + wc, o,
                                "through the client, call %d (%s) returned Ok although the write it made failed (%s)"
                                % (soft[0], "flush" if wc.split()[3].split(",")[soft[0]] == "F" else "emit", rm[soft[0]])))
            else:
                cw_dis.append((case_size(wc), "C" + wc, o, want))
        rep.cov["client_level_cases"] = len(src)
    if prop == "C19":
        # the real buffered socket sinks with their statistics read while lines are buffered: reading is not one of the
        # occasions on which the sink may write (an emit that does not fit, a flush, the drop)
        from . import sock as sock_driver
        scs = sock_driver.stats_sample_cases(rng, 2000 if thorough else 60) + sock_driver.big_udp_cases()
        try:
            simpl = common.run_harness("sock", scs, shards=min(8, common.NCPU))
        except common.CheckFailure as e:
            rep.violation_noinput("correspondence run failed (statistics read mid-history)", {"error": str(e)})
            return rep.finish()
        for c, o in zip(scs, simpl):
            for pid, msg in sock_driver.judge(c, o):
                if pid == "C19":
                    cw_fail.append(((0, len(c), 0), c, o, msg))
        rep.cov["stats_sample_cases"] = len(scs)
    if prop == "C05":
        # the real buffered UDP sink with more buffered than one datagram can carry, and a metric no datagram can carry:
        # what arrives is whole lines within the capacity or the metric alone, never a cut piece
        from . import sock as sock_driver
        bcs = ["UO 32", "UO 512"] + sock_driver.big_udp_cases()
        try:
            bci = common.run_harness("sock", bcs, shards=2)
        except common.CheckFailure as e:
            bci = ["HARNESS-PANIC " + str(e)[:200]] * len(bcs)
        for c, o in zip(bcs, bci):
            for pid, msg in sock_driver.judge(c, re.sub(r"\|N:[0-9,]*(\|T:[0-9.;]*)?", "", o) if c.startswith("UO") else o):
                if pid == "C05":
                    cw_fail.append(((0, len(c), 0), c, o, msg))
        rep.cov["large_udp_cases"] = len(bcs)
    if prop == "C06":
        # the real buffered UDP sink and a metric no datagram can carry: Ok means written, whole, during its own emit
        from . import sock as sock_driver
        uos = ["UO 32", "UO 512", "UO 1432"] + sock_driver.outage_cases() + sock_driver.xw_buffered_cases()
        try:
            uoi = common.run_harness("sock", uos, shards=1)
        except common.CheckFailure as e:
            uoi = ["HARNESS-PANIC " + str(e)[:200]] * len(uos)
        for c, o in zip(uos, uoi):
            for pid, msg in sock_driver.judge(c, o):
                if pid == "C06":
                    cw_fail.append(((0, len(c), 0), c, o, msg))
        rep.cov["oversized_udp_cases"] = len(uos)
    if prop == "C07":
        # the real buffered UDP sink over a socket connected to a closed port: the OS refuses every other send
        # (ECONNREFUSED); every emit and flush must return (Ok or the socket's error), nothing may hang or be duplicated
        from . import sock as sock_driver
        urs = sock_driver.ur_cases() + sock_driver.outage_cases() + sock_driver.xw_buffered_cases()
        try:
            uimpl = common.run_harness("sock", urs, shards=min(4, len(urs)))
        except common.CheckFailure as e:
            rep.violation_noinput("correspondence run failed (refused UDP sends)", {"error": str(e)})
            return rep.finish()
        for c, o in zip(urs, uimpl):
            for pid, msg in sock_driver.judge(c, o):
                if pid == "C07":
                    cw_fail.append(((0, len(c), 0), c, o, msg))
        rep.cov["refused_udp_cases"] = len(urs)
    # property clauses on the implementation's own observations
    with Pool(common.NCPU) as pool:
        verdicts = pool.map(_check_one, [(prop, c, o) for c, o in zip(cases, impl)], chunksize=2000)
    bad = [(case_size(c), c, o, v) for c, o, v in zip(cases, impl, verdicts) if v]
    if bad:
        bad.sort()
        _, c, o, v = bad[0]
        rep.violation_input("%s (%d failing cases; smallest shown)" % (v, len(bad)),
                            {"bin": "mlw", "case": c, "implementation": o, "clause": v,
                             "how": "build/target/release/harness mlw <file with the case line>"})
    # which of the spy-family clauses belong to this property: framing and panics to all; results / conservation to
    # C06 (fault-free: unbounded channel only) and C07
    def spy_relevant(c, v):
        if not v or v.startswith("frame") or v == "panic":
            return bool(v)
        if prop == "C07":
            return True
        return prop == "C06" and c.split()[2] == "u"
    bad_spy = [(len(c), c, o, v) for c, o, v in ((c, o, check_spy(c, o)) for c, o in zip(spy, impl_spy)) if spy_relevant(c, v)]
    if bad_spy and not bad:
        bad_spy.sort()
        _, c, o, v = bad_spy[0]
        rep.violation_input("%s (%d failing cases; smallest shown)" % (v, len(bad_spy)),
                            {"bin": "mlw", "case": c, "implementation": o, "clause": v})
        bad = bad_spy
    if cw_fail and not bad:
        cw_fail.sort()
        _, c, o, v = cw_fail[0]
        rep.violation_input("%s (%d failing cases; smallest shown)" % (v, len(cw_fail)),
                            {"bin": "mlw" if c.startswith("CW") else "sock", "case": c, "implementation": o, "clause": v})
        bad = cw_fail
    if cw_dis and not bad:
        cw_dis.sort()
        _, c, o, m = cw_dis[0]
        rep.violation_noinput(
            "correspondence broken on %d CW cases: a writer history driven through StatsdClient (send_metric / flush) does not "
            "answer and write like the model" % len(cw_dis),
            {"correspondence": "Writer.run vs StatsdClient -> user-written buffered sink -> MultiLineWriter",
             "theorems": rep.cov.get("theorems", []), "first_disagreeing_case": c, "implementation": o, "model": m})
    if qf_fail and not bad:
        qf_fail.sort()
        _, c, o, v = qf_fail[0]
        rep.violation_input("%s (%d failing cases; smallest shown)" % (v, len(qf_fail)),
                            {"bin": "mlw", "case": c, "implementation": o, "clause": v})
        bad = qf_fail
    if qf_dis and not bad:
        qf_dis.sort()
        _, c, o, m = qf_dis[0]
        rep.violation_noinput(
            "correspondence broken on %d QF cases: the buffered sink behind a queuing wrapper does not behave like the model "
            "run on the calls that reached it" % len(qf_dis),
            {"correspondence": "Writer.sink_init run on the observed inner calls vs client -> queuing -> buffered spy sink",
             "theorems": rep.cov.get("theorems", []), "first_disagreeing_case": c, "implementation": o, "model": m})
    dis = [(case_size(c), c, i, m) for c, i, m in zip(cases, impl, model) if i != m]
    dis_spy = [(c, i, m) for c, i, m in zip(spy, impl_spy, model_spy) if i != m]
    if (dis or dis_spy) and not bad:
        dis.sort()
        if dis:
            _, c, i, m = dis[0]
        else:
            c, i, m = dis_spy[0]
        rep.violation_noinput(
            "correspondence Model/Writer.v <-> cadence/src/io.rs broken on %d cases; the theorems of "
            "Props/%s.v no longer speak about this code" % (len(dis) + len(dis_spy), prop),
            {"correspondence": "Writer.run / Writer.sink_init vs MultiLineWriter / BufferedSpyMetricSink",
             "theorems": rep.cov.get("theorems", []), "first_disagreeing_case": c,
             "implementation": i, "model": m})
    # extraction + glue against the kernel: a sample of the very cases above, proved by vm_compute
    common.kernel_crosscheck(rep, "mlw", [c for c in cases if c.startswith("W ")], 200 if thorough else 120)
    nt = set()
    for c, o in zip(cases, impl):
        if nontrivial(c, o):
            nt.add(case_hash(c))
    rep.cov["evaluations"] = len(cases) + len(spy)
    rep.cov["distinct_nontrivial"] = len(nt)
    rep.cov["exhaustive"] = True
    rep.cov["exhaustive_scope"] = (
        "capacity <= %d, terminators '', LF, CRLF, <= %d operations (flush or emit of 0..capacity+1 bytes)%s: %d cases"
        % (scope[0], scope[1],
           ", every fault script of length <= %d over {ok, error, interrupted}" % scope[2] if faults else "",
           len(ex)))
    rep.cov["rule"] = (
        "corpus + exhaustive small scope + boundary-directed lengths (exact fit +-1 around the space left and the "
        "capacity, capacities 0..512) + seeded random histories of up to 200 operations + BufferedSpyMetricSink with a "
        "bounded never-drained queue; each case is run on the real MultiLineWriter (scripted recording Write) and on the "
        "extracted Coq model, observations (every result, every underlying write with its operation index, bytes and "
        "outcome, the drop) are compared, and the property clauses are evaluated on the implementation's observation. "
        "distinct_nontrivial = distinct case lines in which the implementation wrote to the underlying writer before the "
        "final drop (automatic flush, bypass, exact fill or explicit flush fired)")
    short = [(c, o) for c, o in zip(cases, impl) if len(c) + len(o) < 240]
    rep.cov["samples"] = [{"case": c, "implementation": o} for c, o in short[len(corpus) + 7::max(1, len(short) // 5)][:5]]
    short_spy = [(c, o) for c, o in zip(spy, impl_spy) if len(c) + len(o) < 400]
    if short_spy:
        rep.cov["samples"].append({"case": short_spy[0][0], "implementation": short_spy[0][1]})
    rep.cov["disagreements"] = len(dis) + len(dis_spy)
    rep.cov["input_distribution"] = distribution(cases, impl)
    rep.cov["design_ref"] = design_ref
    return rep.finish()


def distribution(cases, impl):
    d = {"ops": {}, "caps": {}, "results": {"ok": 0, "err": 0, "intr": 0, "panic": 0}, "attempts": 0,
         "failed_attempts": 0}
    for c, o in zip(cases, impl):
        t = c.split()
        n = 0 if t[3] == "-" else t[3].count(",") + 1
        b = "1-3" if n <= 3 else "4-12" if n <= 12 else "13-60" if n <= 60 else ">60"
        d["ops"][b] = d["ops"].get(b, 0) + 1
        d["caps"][t[1]] = d["caps"].get(t[1], 0) + 1
        r, l = o.split("|L:")
        for x in r[2:].split(","):
            if x.startswith("k"):
                d["results"]["ok"] += 1
            elif x.startswith("e"):
                d["results"]["err"] += 1
            elif x == "i":
                d["results"]["intr"] += 1
            elif x == "p":
                d["results"]["panic"] += 1
        if l:
            d["attempts"] += l.count(";") + 1
            d["failed_attempts"] += l.count(":e") + l.count(":i")
    return d


def load_corpus(prop):
    import os
    out = []
    d = os.path.join(common.VERIF, "corpus", "writer")
    if os.path.isdir(d):
        for f in sorted(os.listdir(d)):
            for line in open(os.path.join(d, f)):
                line = line.strip()
                if line.startswith("W "):
                    if prop in ("C05", "C06", "C19") and line.split()[4] != "-":
                        continue
                    out.append(line)
    return out


TRUSTED = [
    "Coq 8.16.1 kernel (coqc; coqchk in the thorough tier); vm_compute for finite sweeps; no native_compute",
    "Print Assumptions of every pinned theorem: closed under the global context (no axioms)",
    "extraction: Require Extraction + ExtrOcamlBasic only (bool, option, unit, list, prod, sumbool, sumor mapped to "
    "OCaml types; andb/orb inlined); nat/positive/N stay inductive; OCaml 4.13.1 ocamlfind ocamlopt",
    "hand-written glue: ocaml/conv.ml, ocaml/run_mlw.ml (parse case lines, print observations), harness/src/mlw.rs "
    "(scripted recording Write), driver/writer.py (generation, diff, property clauses)",
    "modelled, not verified: std::io::BufWriter::{write, write_cold, flush_buf, drop} (rustc 1.95) transcribed into "
    "Model/Writer.v and validated by the correspondence run",
]
ASSUMPTIONS = [
    "the underlying writer is all-or-nothing (datagram semantics): a write accepts the whole buffer or fails",
    "the underlying writer's flush succeeds (it is Ok(()) in the three adapters of the crate)",
    "metrics with a zero-length line (empty metric and empty terminator) are excluded from identity statements",
]


def check_C05(tier, seed):
    # the framing theorem (c05_frame) is for every fault script, so the tie is exercised under faults too (seed C05-2:
    # a framing failure that needs a failed flush was invisible to the fault-free run)
    return run_writer_check("C05", tier, seed, True, "DESIGN.md 8.C05")


def check_C06(tier, seed):
    return run_writer_check("C06", tier, seed, False, "DESIGN.md 8.C06")


def check_C07(tier, seed):
    return run_writer_check("C07", tier, seed, True, "DESIGN.md 8.C07")


def check_C19(tier, seed):
    # the local clauses (writes only when it must; flushed datagrams maximal) are theorems for every fault script
    # (c19_must_and_maximal), so the tie runs under faults too; the datagram count is judged on fault-free segments
    return run_writer_check("C19", tier, seed, True, "DESIGN.md 8.C19")


def _replay_judge(prop, case, obs):
    if case.startswith("QF"):
        v = check_qf(case, obs)
        return [v] if v else []
    if case.startswith("S "):
        v = check_spy(case, obs)
        return [v] if v else []
    v = _check_one((prop, case, obs))
    return [v] if v else []


def replay(prop, data):
    return common.replay_case(prop, data, "mlw", _replay_judge)
