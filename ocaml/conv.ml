(* Conversions between OCaml values and the extracted inductive types; hex coding.
   Trusted glue of the correspondence check. *)

let rec nat_of_int n = if n <= 0 then O else S (nat_of_int (n - 1))
let int_of_nat n = let rec go acc = function O -> acc | S m -> go (acc + 1) m in go 0 n

let rec pos_of_int n =
  if n <= 1 then XH
  else if n land 1 = 0 then XO (pos_of_int (n lsr 1))
  else XI (pos_of_int (n lsr 1))
let n_of_int n = if n = 0 then N0 else Npos (pos_of_int n)
let rec int_of_pos = function XH -> 1 | XO p -> 2 * int_of_pos p | XI p -> 2 * int_of_pos p + 1
let int_of_n = function N0 -> 0 | Npos p -> int_of_pos p

let str_of_bytes (s : string) : n list =
  List.init (String.length s) (fun i -> n_of_int (Char.code s.[i]))

let unhex (s : string) : n list =
  if s = "-" then []
  else begin
    let len = String.length s / 2 in
    List.init len (fun i -> n_of_int (int_of_string ("0x" ^ String.sub s (2 * i) 2)))
  end

let hex (l : n list) : string =
  if l = [] then "-"
  else String.concat "" (List.map (fun b -> Printf.sprintf "%02x" (int_of_n b)) l)

let split_on c s = if s = "-" then [] else String.split_on_char c s

let tokens line = List.filter (fun t -> t <> "") (String.split_on_char ' ' line)


(* ---- printing values as Gallina terms (for the kernel cross-check: the same case is evaluated by vm_compute) ---- *)
let g_nat n = string_of_int (int_of_nat n)
let g_list f l = "[" ^ String.concat "; " (List.map f l) ^ "]"
let g_str (s : n list) = if s = [] then "(@nil N)" else "(" ^ g_list (fun b -> string_of_int (int_of_n b)) s ^ "%N)"
let g_small_n n = "(" ^ string_of_int (int_of_n n) ^ "%N)"
let g_pair a b = "(" ^ a ^ ", " ^ b ^ ")"
let g_option f = function None -> "None" | Some x -> "(Some " ^ f x ^ ")"
