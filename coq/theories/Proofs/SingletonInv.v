(* Singleton (C18): the invariant of the view machine and its preservation by every step,
   for every number of threads, every programs, every schedule and every read choice. *)
Require Import Cadence.Base.Prelude.
Require Import Cadence.Model.Singleton.
Require Import Cadence.Proofs.SingletonBase.

Section Inv.
Context (os : ords) (progs : list (list sg_call)).

(* the three records of the trace the statements refer to *)
Definition wrec (w : nat) (v : N) : sg_rec :=
  {| r_tid := w; r_op := OpCell true (Some v); r_ret := None |}.
Definition srec (w : nat) : sg_rec :=
  {| r_tid := w; r_op := OpStore (o_store os) 2 COMPLETE; r_ret := Some RUnit |}.
Definition lrec (t : nat) : sg_rec :=
  {| r_tid := t; r_op := OpLoad (o_load os) 2 COMPLETE; r_ret := None |}.

(* the result of an is_set / of a get that does not reach the cell is computed from the value loaded *)
Definition ret_wf (r : sg_rec) : Prop :=
  match r_ret r with
  | Some (RIsSet b) => exists i v, read_of r = Some (i, v) /\ b = (v =? COMPLETE)
  | Some (RGet None) => exists i v, read_of r = Some (i, v) /\ v <> COMPLETE
  | _ => True
  end.

(* facts that hold in every phase *)
Record ginv (s : sg_state) : Prop := {
  gi_idx : forall t th, thr_at s t th -> th_idx th < length (g_msgs s);
  gi_prog : forall t th, thr_at s t th -> exists p, nth_error progs t = Some p /\ incl (th_calls th) p;
  gi_len : length (g_msgs s) <= 3;
  gi_shape : forall i v, nth_error (vals s) i = Some v -> v = i;   (* UNSET, LOADING, COMPLETE in this order *)
  gi_ret : forall k r, rec_at s k r -> ret_wf r;
  gi_read : forall k r i v, rec_at s k r -> read_of r = Some (i, v) -> nth_error (vals s) i = Some v;
  gi_seen : forall k r i, rec_at s k r -> read_of r = Some (i, COMPLETE) ->
            exists th, thr_at s (r_tid r) th /\ 2 <= th_idx th;
  gi_stable : forall i j ri rj x y v, i < j -> rec_at s i ri -> rec_at s j rj -> r_tid ri = r_tid rj ->
              read_of ri = Some (x, COMPLETE) -> read_of rj = Some (y, v) -> v = COMPLETE;
  gi_norace : ord_ok os = true -> g_raced s = false
}.

Inductive phase := P0 | P1 (w : nat) (v : N) | P2 (w : nat) (v : N) | P3 (w : nat) (v : N).

(* before COMPLETE is stored nobody has read COMPLETE and no get has returned a value *)
Definition quiet_trace (s : sg_state) : Prop :=
  forall k r, rec_at s k r ->
    (forall i, read_of r <> Some (i, COMPLETE)) /\ (forall x, r_ret r <> Some (RGet (Some x))).

Definition one_cas (s : sg_state) (w : nat) : Prop :=
  exists r, filter is_cas_ok (g_trace s) = [r] /\ r_tid r = w.

Definition in_prog (w : nat) (v : N) : Prop :=
  exists p, nth_error progs w = Some p /\ In (CSet v) p.

Definition pinv (ph : phase) (s : sg_state) : Prop :=
  match ph with
  | P0 =>
      vals s = [UNSET] /\ g_accs s = [] /\ g_cell s = None /\
      (forall t th, thr_at s t th -> th_pc th = PIdle) /\
      filter is_cas_ok (g_trace s) = [] /\ quiet_trace s
  | P1 w v =>
      vals s = [UNSET; LOADING] /\ g_accs s = [] /\ g_cell s = None /\
      (exists th, thr_at s w th /\ th_pc th = PWrite v) /\
      (forall t th, thr_at s t th -> t <> w -> th_pc th = PIdle) /\
      one_cas s w /\ quiet_trace s /\ in_prog w v
  | P2 w v =>
      vals s = [UNSET; LOADING] /\
      (exists hb, g_accs s = [{| acc_tid := w; acc_write := true; acc_val := Some v; acc_hb := hb |}]) /\
      g_cell s = Some v /\
      (exists th, thr_at s w th /\ th_pc th = PStore /\ In 0 (th_known th)) /\
      (forall t th, thr_at s t th -> t <> w -> th_pc th = PIdle) /\
      one_cas s w /\ quiet_trace s /\ in_prog w v /\
      (exists h, rec_at s h (wrec w v))
  | P3 w v =>
      vals s = [UNSET; LOADING; COMPLETE] /\
      (ord_ok os = true -> exists m, nth_error (g_msgs s) 2 = Some m /\ In 0 (mview m)) /\
      (exists hb reads,
          g_accs s = {| acc_tid := w; acc_write := true; acc_val := Some v; acc_hb := hb |} :: reads /\
          Forall (fun a => acc_write a = false /\ acc_val a = Some v /\
                           (ord_ok os = true -> In 0 (acc_hb a))) reads) /\
      g_cell s = Some v /\
      (forall t th, thr_at s t th ->
          th_pc th = PIdle \/
          (th_pc th = PRead /\ (ord_ok os = true -> In 0 (th_known th)) /\ exists j, rec_at s j (lrec t))) /\
      one_cas s w /\ in_prog w v /\
      (exists h i, h < i /\ rec_at s h (wrec w v) /\ rec_at s i (srec w) /\
          (forall j r x, rec_at s j r -> read_of r = Some (x, COMPLETE) -> i < j)) /\
      (forall k r x, rec_at s k r -> r_ret r = Some (RGet (Some x)) ->
          x = v /\ exists j, j < k /\ rec_at s j (lrec (r_tid r)))
  end.

(* ------------------------------------------------------------------ general facts *)

(* a step that touches only the atomic location *)
Lemma ginv_commit s t th th' msgs' op ret ext :
  ginv s -> thr_at s t th ->
  msgs' = g_msgs s ++ ext -> length msgs' <= 3 ->
  (forall i v, length (g_msgs s) <= i -> nth_error (map mval msgs') i = Some v -> v = i) ->
  th_idx th <= th_idx th' -> th_idx th' < length msgs' ->
  incl (th_calls th') (th_calls th) ->
  ret_wf {| r_tid := t; r_op := op; r_ret := ret |} ->
  (forall i v, read_of {| r_tid := t; r_op := op; r_ret := ret |} = Some (i, v) ->
      nth_error (vals s) i = Some v /\ th_idx th <= i /\ i <= th_idx th') ->
  ginv (sg_commit s t th' msgs' op ret).
Proof.
  intros G Hth Hm Hlen3 Hnew Hmono Hlt Hincl Hisset Hread.
  assert (Hvals : forall i v, nth_error (vals s) i = Some v -> nth_error (map mval msgs') i = Some v).
  { intros i v H. subst msgs'. rewrite map_app. unfold vals in H.
    rewrite nth_error_app1; auto. apply nth_error_Some. congruence. }
  assert (Hlen : length (g_msgs s) <= length msgs').
  { subst msgs'. rewrite app_length. lia. }
  constructor; unfold thr_at, rec_at, vals in *; cbn [sg_commit g_thrs g_trace g_msgs g_raced].
  - intros t' th'' H. destruct (upd_cases _ _ _ _ _ H) as [[-> ->]|[Hn H']]; [lia|].
    pose proof (gi_idx _ G _ _ H'). lia.
  - intros t' th'' H. destruct (upd_cases _ _ _ _ _ H) as [[-> ->]|[Hn H']].
    + destruct (gi_prog _ G _ _ Hth) as [p [Hp Hi]]. exists p. split; auto.
      intros c Hc. apply Hi, Hincl, Hc.
    + exact (gi_prog _ G _ _ H').
  - exact Hlen3.
  - intros i v H.
    destruct (Nat.lt_ge_cases i (length (g_msgs s))) as [Hlt'|Hge].
    + apply (gi_shape _ G i v). unfold vals.
      subst msgs'. rewrite map_app, nth_error_app1 in H; auto. now rewrite map_length.
    + eapply Hnew; eauto.
  - intros k r H. destruct (snoc_cases _ _ _ _ H) as [[_ H']|[_ ->]].
    + exact (gi_ret _ G _ _ H').
    + exact Hisset.
  - intros k r i v H Hr. apply Hvals. destruct (snoc_cases _ _ _ _ H) as [[_ H']|[_ ->]].
    + exact (gi_read _ G _ _ _ _ H' Hr).
    + apply (Hread _ _ Hr).
  - intros k r i H Hr. destruct (snoc_cases _ _ _ _ H) as [[_ H']|[_ ->]].
    + destruct (gi_seen _ G _ _ _ H' Hr) as [th0 [H0 Hge]]. unfold thr_at in H0.
      destruct (Nat.eq_dec (r_tid r) t) as [E|E].
      * exists th'. rewrite E. split; [eapply upd_same; eauto|].
        rewrite E in H0. rewrite Hth in H0. inversion H0; subst. lia.
      * exists th0. split; auto. rewrite upd_other; auto.
    + cbn [r_tid]. exists th'. split; [eapply upd_same; eauto|].
      destruct (Hread _ _ Hr) as [Hv [_ Hi]].
      pose proof (gi_shape _ G _ _ Hv) as E. unfold COMPLETE in E. lia.
  - intros i j ri rj x y v Hij Hi Hj Ht Hri Hrj.
    destruct (snoc_cases _ _ _ _ Hj) as [[_ Hj']|[Ej ->]].
    + destruct (snoc_cases _ _ _ _ Hi) as [[_ Hi']|[Ei _]].
      * exact (gi_stable _ G _ _ _ _ _ _ _ Hij Hi' Hj' Ht Hri Hrj).
      * apply nth_lt in Hj'. lia.
    + destruct (snoc_cases _ _ _ _ Hi) as [[_ Hi']|[Ei _]]; [|lia].
      destruct (gi_seen _ G _ _ _ Hi' Hri) as [th0 [H0 Hge]]. unfold thr_at in H0.
      cbn [r_tid] in Ht. rewrite Ht, Hth in H0. inversion H0; subst th0.
      destruct (Hread _ _ Hrj) as [Hv [Hlo _]].
      pose proof (gi_shape _ G _ _ Hv) as E.
      pose proof (nth_lt _ _ _ Hv) as Hb. rewrite map_length in Hb.
      pose proof (gi_len _ G). unfold COMPLETE. lia.
  - exact (gi_norace _ G).
Qed.


(* a cell access *)
Lemma ginv_access s t th w v pc' calls' ret :
  ginv s -> thr_at s t th ->
  incl calls' (th_calls th) ->
  ret_wf {| r_tid := t; r_op := OpCell w v; r_ret := ret |} ->
  (ord_ok os = true -> races (th_known th) w (g_accs s) = false) ->
  ginv (sg_access_cell s t th w v pc' calls' ret).
Proof.
  intros G Hth Hincl Hret Hrace.
  constructor; unfold thr_at, rec_at, vals in *;
    cbn [sg_access_cell g_thrs g_trace g_msgs g_raced th_idx th_calls].
  - intros t' th'' H. destruct (upd_cases _ _ _ _ _ H) as [[-> ->]|[Hn H']]; cbn [th_idx].
    + exact (gi_idx _ G _ _ Hth).
    + exact (gi_idx _ G _ _ H').
  - intros t' th'' H. destruct (upd_cases _ _ _ _ _ H) as [[-> ->]|[Hn H']]; cbn [th_calls].
    + destruct (gi_prog _ G _ _ Hth) as [p [Hp Hi]]. exists p. split; auto.
      intros c Hc. apply Hi, Hincl, Hc.
    + exact (gi_prog _ G _ _ H').
  - exact (gi_len _ G).
  - exact (gi_shape _ G).
  - intros k r H. destruct (snoc_cases _ _ _ _ H) as [[_ H']|[_ ->]].
    + exact (gi_ret _ G _ _ H').
    + exact Hret.
  - intros k r i x H Hr. destruct (snoc_cases _ _ _ _ H) as [[_ H']|[_ ->]].
    + exact (gi_read _ G _ _ _ _ H' Hr).
    + discriminate.
  - intros k r i H Hr. destruct (snoc_cases _ _ _ _ H) as [[_ H']|[_ ->]]; [|discriminate].
    destruct (gi_seen _ G _ _ _ H' Hr) as [th0 [H0 Hge]]. unfold thr_at in H0.
    destruct (Nat.eq_dec (r_tid r) t) as [E|E].
    + eexists. rewrite E. split; [eapply upd_same; eauto|].
      rewrite E, Hth in H0. inversion H0; subst. cbn [th_idx]. lia.
    + exists th0. split; auto. rewrite upd_other; auto.
  - intros i j ri rj x y z Hij Hi Hj Ht Hri Hrj.
    destruct (snoc_cases _ _ _ _ Hj) as [[_ Hj']|[Ej ->]]; [|discriminate].
    destruct (snoc_cases _ _ _ _ Hi) as [[_ Hi']|[Ei _]].
    + exact (gi_stable _ G _ _ _ _ _ _ _ Hij Hi' Hj' Ht Hri Hrj).
    + apply nth_lt in Hj'. lia.
  - intros Hok. rewrite (gi_norace _ G Hok), (Hrace Hok). reflexivity.
Qed.

(* ------------------------------------------------------------------ moving facts across a step *)

(* [s'] is [s] after thread [t] became [th'] and record [rc] was appended *)
Definition stepped (s s' : sg_state) (t : nat) (th' : sg_thr) (rc : sg_rec) : Prop :=
  g_thrs s' = sg_upd t th' (g_thrs s) /\ g_trace s' = g_trace s ++ [rc].

Lemma stepped_commit s t th' msgs' op ret :
  stepped s (sg_commit s t th' msgs' op ret) t th' {| r_tid := t; r_op := op; r_ret := ret |}.
Proof. split; reflexivity. Qed.

Lemma stepped_access s t th w v pc' calls' ret :
  stepped s (sg_access_cell s t th w v pc' calls' ret) t
    {| th_idx := th_idx th; th_known := length (g_accs s) :: th_known th; th_pc := pc'; th_calls := calls' |}
    {| r_tid := t; r_op := OpCell w v; r_ret := ret |}.
Proof. split; reflexivity. Qed.

Section Stepped.
Context (s s' : sg_state) (t : nat) (th' : sg_thr) (rc : sg_rec) (St : stepped s s' t th' rc).

Lemma st_thr_cases t' x : thr_at s' t' x -> (t' = t /\ x = th') \/ (t' <> t /\ thr_at s t' x).
Proof. unfold thr_at. destruct St as [E _]. rewrite E. apply upd_cases. Qed.

Lemma st_thr_same th : thr_at s t th -> thr_at s' t th'.
Proof. unfold thr_at. destruct St as [E _]. rewrite E. apply upd_same. Qed.

Lemma st_thr_other t' x : t' <> t -> thr_at s t' x -> thr_at s' t' x.
Proof. unfold thr_at. destruct St as [E _]. rewrite E. intros H. now rewrite upd_other. Qed.

Lemma st_rec_cases k r : rec_at s' k r ->
  (k < length (g_trace s) /\ rec_at s k r) \/ (k = length (g_trace s) /\ r = rc).
Proof. unfold rec_at. destruct St as [_ E]. rewrite E. apply snoc_cases. Qed.

Lemma st_rec_old k r : rec_at s k r -> rec_at s' k r.
Proof. unfold rec_at. destruct St as [_ E]. rewrite E. apply snoc_old. Qed.

Lemma st_rec_new : rec_at s' (length (g_trace s)) rc.
Proof. unfold rec_at. destruct St as [_ E]. rewrite E. apply snoc_new. Qed.

Lemma st_filter : filter is_cas_ok (g_trace s') =
  if is_cas_ok rc then filter is_cas_ok (g_trace s) ++ [rc] else filter is_cas_ok (g_trace s).
Proof. destruct St as [_ E]. rewrite E. apply filter_snoc. Qed.

Lemma st_one_cas w : is_cas_ok rc = false -> one_cas s w -> one_cas s' w.
Proof. intros H [r [Hr Hw]]. exists r. rewrite st_filter, H. auto. Qed.

Lemma st_quiet :
  (forall i, read_of rc <> Some (i, COMPLETE)) -> (forall x, r_ret rc <> Some (RGet (Some x))) ->
  quiet_trace s -> quiet_trace s'.
Proof.
  intros H1 H2 Q k r H. destruct (st_rec_cases _ _ H) as [[_ H']|[_ ->]]; [exact (Q _ _ H')|split; auto].
Qed.
End Stepped.

Lemma rec_lt s k r : rec_at s k r -> k < length (g_trace s).
Proof. apply nth_lt. Qed.

(* values present before COMPLETE is stored *)
Lemma early_not_complete s i m :
  vals s = [UNSET] \/ vals s = [UNSET; LOADING] ->
  nth_error (g_msgs s) i = Some m -> mval m <> COMPLETE.
Proof.
  intros Hv Hm. apply vals_nth in Hm. unfold UNSET, LOADING, COMPLETE in *.
  destruct Hv as [E|E]; rewrite E in Hm.
  - destruct i as [|[|]]; cbn in Hm; inversion Hm; lia.
  - destruct i as [|[|[|]]]; cbn in Hm; inversion Hm; lia.
Qed.

(* ------------------------------------------------------------------ the phases *)

(* a thread between calls reads [state] and stays between calls: failed CAS, get that does not
   see COMPLETE, is_set *)
Lemma pinv_idle_read ph s t th i m kn calls' op ret :
  pinv ph s -> thr_at s t th -> th_pc th = PIdle ->
  nth_error (g_msgs s) i = Some m ->
  read_of {| r_tid := t; r_op := op; r_ret := ret |} = Some (i, mval m) ->
  is_cas_ok {| r_tid := t; r_op := op; r_ret := ret |} = false ->
  (forall x, ret <> Some (RGet (Some x))) ->
  pinv ph (sg_commit s t {| th_idx := i; th_known := kn; th_pc := PIdle; th_calls := calls' |} (g_msgs s) op ret).
Proof.
  intros P Hth Hpc Hm Hread Hcas Hret.
  match goal with |- pinv _ ?x => set (s' := x) end.
  pose proof (stepped_commit s t {| th_idx := i; th_known := kn; th_pc := PIdle; th_calls := calls' |}
                (g_msgs s) op ret) as St. fold s' in St.
  assert (Hq : (vals s = [UNSET] \/ vals s = [UNSET; LOADING]) -> quiet_trace s -> quiet_trace s').
  { intros Hv. apply (st_quiet _ _ _ _ _ St).
    - intros j E. rewrite Hread in E. inversion E. eapply early_not_complete; eauto.
    - exact Hret. }
  assert (Hidle : forall w, (forall t0 th0, thr_at s t0 th0 -> t0 <> w -> th_pc th0 = PIdle) ->
                           forall t0 th0, thr_at s' t0 th0 -> t0 <> w -> th_pc th0 = PIdle).
  { intros w H t0 th0 H0 Hn. destruct (st_thr_cases _ _ _ _ _ St _ _ H0) as [[-> ->]|[Hne H1]]; eauto. }
  destruct ph as [|w v|w v|w v]; cbn [pinv] in *.
  - destruct P as (Hv & Ha & Hc & Hall & Hf & Hqt).
    pose proof (Hq (or_introl Hv) Hqt).
    repeat apply conj; auto.
    + intros t0 th0 H0. destruct (st_thr_cases _ _ _ _ _ St _ _ H0) as [[-> ->]|[Hne H1]]; eauto.
    + rewrite (st_filter _ _ _ _ _ St), Hcas. exact Hf.
  - destruct P as (Hv & Ha & Hc & (thw & Hw & Hpw) & Hoth & Hone & Hqt & Hin).
    assert (t <> w) as Hne.
    { intros ->. unfold thr_at in *. rewrite Hth in Hw. inversion Hw; subst. congruence. }
    pose proof (Hq (or_intror Hv) Hqt). pose proof (Hidle _ Hoth).
    repeat apply conj; auto.
    + exists thw. split; auto. eapply st_thr_other; eauto.
    + eapply st_one_cas; eauto.
  - destruct P as (Hv & Ha & Hc & (thw & Hw & Hpw & Hk) & Hoth & Hone & Hqt & Hin & (h & Hh)).
    assert (t <> w) as Hne.
    { intros ->. unfold thr_at in *. rewrite Hth in Hw. inversion Hw; subst. congruence. }
    pose proof (Hq (or_intror Hv) Hqt). pose proof (Hidle _ Hoth).
    repeat apply conj; auto.
    + exists thw. repeat apply conj; auto. eapply st_thr_other; eauto.
    + eapply st_one_cas; eauto.
    + exists h. eapply st_rec_old; eauto.
  - destruct P as (Hv & Hview & Hacc & Hc & Hthr & Hone & Hin & (h & i0 & Hhi & Hh & Hi0 & Hafter) & Hget).
    repeat apply conj; auto.
    + intros t0 th0 H0. destruct (st_thr_cases _ _ _ _ _ St _ _ H0) as [[-> ->]|[Hne H1]]; [now left|].
      destruct (Hthr _ _ H1) as [Hp|(Hp & Hk & j & Hj)]; [now left|right].
      repeat apply conj; auto. exists j. eapply st_rec_old; eauto.
    + eapply st_one_cas; eauto.
    + exists h, i0. repeat apply conj; auto; try (eapply st_rec_old; eauto).
      intros j r x Hj Hr. destruct (st_rec_cases _ _ _ _ _ St _ _ Hj) as [[_ H']|[-> _]]; eauto.
      apply rec_lt in Hi0. exact Hi0.
    + intros k r x Hk Hr. destruct (st_rec_cases _ _ _ _ _ St _ _ Hk) as [[_ H']|[_ ->]].
      * destruct (Hget _ _ _ H' Hr) as [-> [j [Hjk Hj]]]. split; auto.
        exists j. split; auto. eapply st_rec_old; eauto.
      * cbn in Hr. exfalso. eapply Hret; eauto.
Qed.


Lemma vals_commit s t th' msgs' op ret : vals (sg_commit s t th' msgs' op ret) = map mval msgs'.
Proof. reflexivity. Qed.

Lemma thr_eq s t a b : thr_at s t a -> thr_at s t b -> a = b.
Proof. unfold thr_at. congruence. Qed.

(* the CAS succeeds: only possible while the only message is UNSET; the thread becomes the winner *)
Lemma pinv_cas_ok ph s t th v rest i m kn vw :
  ginv s -> pinv ph s -> thr_at s t th -> th_pc th = PIdle -> th_calls th = CSet v :: rest ->
  i = length (g_msgs s) - 1 -> nth_error (g_msgs s) i = Some m -> mval m = UNSET ->
  ph = P0 /\
  pinv (P1 t v)
    (sg_commit s t {| th_idx := S i; th_known := kn; th_pc := PWrite v; th_calls := th_calls th |}
       (g_msgs s ++ [{| mval := LOADING; mview := vw |}])
       (OpCas (o_cas_ok os) (o_cas_fail os) i (mval m) true) None).
Proof.
  intros G P Hth Hpc Hcalls Hi Hm Hval.
  pose proof (vals_nth _ _ _ Hm) as Hvm. pose proof (vals_length s) as Hlen.
  rewrite Hval in Hvm.
  match goal with |- _ /\ pinv _ ?x => set (s' := x) end.
  pose proof (stepped_commit s t {| th_idx := S i; th_known := kn; th_pc := PWrite v; th_calls := th_calls th |}
                (g_msgs s ++ [{| mval := LOADING; mview := vw |}])
                (OpCas (o_cas_ok os) (o_cas_fail os) i (mval m) true) None) as St. fold s' in St.
  destruct ph as [|w v0|w v0|w v0]; cbn [pinv] in P.
  - split; [reflexivity|].
    destruct P as (Hv & Ha & Hc & Hall & Hf & Hqt).
    cbn [pinv].
    assert (quiet_trace s') as Hq'.
    { apply (st_quiet _ _ _ _ _ St); auto.
      - intros j E. cbn in E. inversion E. rewrite Hval in *. discriminate.
      - intros x E. discriminate. }
    repeat apply conj; auto.
    + unfold s'. rewrite vals_commit, map_app. fold (vals s). rewrite Hv. reflexivity.
    + eexists. split; [eapply st_thr_same; eauto|reflexivity].
    + intros t0 th0 H0 Hn. destruct (st_thr_cases _ _ _ _ _ St _ _ H0) as [[-> ->]|[Hne H1]]; [congruence|eauto].
    + eexists. rewrite (st_filter _ _ _ _ _ St), Hf. cbn. split; reflexivity.
    + destruct (gi_prog _ G _ _ Hth) as [p [Hp Hincl]]. exists p. split; auto.
      apply Hincl. rewrite Hcalls. now left.
  - exfalso. destruct P as (Hv & _). rewrite Hv in Hlen, Hvm. cbn in Hlen.
    replace i with 1 in Hvm by lia. cbn in Hvm. discriminate.
  - exfalso. destruct P as (Hv & _). rewrite Hv in Hlen, Hvm. cbn in Hlen.
    replace i with 1 in Hvm by lia. cbn in Hvm. discriminate.
  - exfalso. destruct P as (Hv & _). rewrite Hv in Hlen, Hvm. cbn in Hlen.
    replace i with 2 in Hvm by lia. cbn in Hvm. discriminate.
Qed.

(* get loads COMPLETE: only possible after the store; the thread is now about to read the cell *)
Lemma pinv_get_hit ph s t th i m :
  ginv s -> pinv ph s -> thr_at s t th -> th_pc th = PIdle ->
  nth_error (g_msgs s) i = Some m -> mval m = COMPLETE ->
  (exists w v, ph = P3 w v) /\
  pinv ph
    (sg_commit s t {| th_idx := i; th_known := join_if (acquires (o_load os)) (th_known th) (mview m);
                      th_pc := PRead; th_calls := th_calls th |}
       (g_msgs s) (OpLoad (o_load os) i (mval m)) None).
Proof.
  intros G P Hth Hpc Hm Hval.
  pose proof (vals_nth _ _ _ Hm) as Hvm.
  pose proof (gi_shape _ G _ _ Hvm) as Ei. rewrite Hval in Ei. unfold COMPLETE in Ei. subst i.
  match goal with |- _ /\ pinv _ ?x => set (s' := x) end.
  pose proof (stepped_commit s t {| th_idx := 2; th_known := join_if (acquires (o_load os)) (th_known th) (mview m);
                      th_pc := PRead; th_calls := th_calls th |}
                (g_msgs s) (OpLoad (o_load os) 2 (mval m)) None) as St. fold s' in St.
  destruct ph as [|w v|w v|w v]; cbn [pinv] in P.
  - exfalso. destruct P as (Hv & _). eapply early_not_complete; eauto.
  - exfalso. destruct P as (Hv & _). eapply early_not_complete; eauto.
  - exfalso. destruct P as (Hv & _). eapply early_not_complete; eauto.
  - split; [eauto|]. cbn [pinv].
    destruct P as (Hv & Hview & Hacc & Hc & Hthr & Hone & Hin & (h & i0 & Hhi & Hh & Hi0 & Hafter) & Hget).
    assert (Hrc : {| r_tid := t; r_op := OpLoad (o_load os) 2 (mval m); r_ret := None |} = lrec t).
    { unfold lrec. now rewrite Hval. }
    repeat apply conj; auto.
    + intros t0 th0 H0. destruct (st_thr_cases _ _ _ _ _ St _ _ H0) as [[-> ->]|[Hne H1]].
      * right. cbn [th_pc th_known]. repeat apply conj; auto.
        -- intros Hok. destruct (Hview Hok) as [m2 [Hm2 Hin0]].
           rewrite Hm in Hm2. inversion Hm2; subst m2.
           unfold ord_ok in Hok. apply andb_true_iff in Hok. destruct Hok as [_ Hacq].
           rewrite Hacq. cbn [join_if]. apply in_or_app. now right.
        -- exists (length (g_trace s)). rewrite <- Hrc. eapply st_rec_new; eauto.
      * destruct (Hthr _ _ H1) as [Hp|(Hp & Hk & j & Hj)]; [now left|right].
        repeat apply conj; auto. exists j. eapply st_rec_old; eauto.
    + eapply st_one_cas; eauto.
    + exists h, i0. repeat apply conj; auto; try (eapply st_rec_old; eauto).
      intros j r x Hj Hr. destruct (st_rec_cases _ _ _ _ _ St _ _ Hj) as [[_ H']|[-> _]]; eauto.
      apply rec_lt in Hi0. exact Hi0.
    + intros k r x Hk Hr. destruct (st_rec_cases _ _ _ _ _ St _ _ Hk) as [[_ H']|[_ ->]].
      * destruct (Hget _ _ _ H' Hr) as [-> [j [Hjk Hj]]]. split; auto.
        exists j. split; auto. eapply st_rec_old; eauto.
      * discriminate.
Qed.

(* the winner writes the cell *)
Lemma pinv_write ph s t th v :
  pinv ph s -> thr_at s t th -> th_pc th = PWrite v ->
  ph = P1 t v /\ g_accs s = [] /\
  pinv (P2 t v) (sg_access_cell s t th true (Some v) PStore (th_calls th) None).
Proof.
  intros P Hth Hpc.
  match goal with |- _ /\ _ /\ pinv _ ?x => set (s' := x) end.
  pose proof (stepped_access s t th true (Some v) PStore (th_calls th) None) as St. fold s' in St.
  destruct ph as [|w v0|w v0|w v0]; cbn [pinv] in P.
  - exfalso. destruct P as (_ & _ & _ & Hall & _). rewrite (Hall _ _ Hth) in Hpc. discriminate.
  - destruct P as (Hv & Ha & Hc & (thw & Hw & Hpw) & Hoth & Hone & Hqt & Hin).
    destruct (Nat.eq_dec t w) as [->|Hne].
    2:{ exfalso. rewrite (Hoth _ _ Hth Hne) in Hpc. discriminate. }
    rewrite (thr_eq _ _ _ _ Hw Hth) in Hpw. rewrite Hpw in Hpc. inversion Hpc; subst v0.
    split; [reflexivity|]. split; [exact Ha|]. cbn [pinv].
    assert (quiet_trace s') as Hq'.
    { apply (st_quiet _ _ _ _ _ St); auto; intros x E; discriminate. }
    repeat apply conj; auto.
    + exists (th_known th). unfold s'. cbn [sg_access_cell g_accs]. rewrite Ha. reflexivity.
    + eexists. split; [eapply st_thr_same; eauto|]. cbn [th_pc th_known]. split; auto.
      rewrite Ha. now left.
    + intros t0 th0 H0 Hn. destruct (st_thr_cases _ _ _ _ _ St _ _ H0) as [[-> ->]|[Hne H1]]; [congruence|eauto].
    + eapply st_one_cas; eauto.
    + exists (length (g_trace s)). eapply st_rec_new; eauto.
  - exfalso. destruct P as (_ & _ & _ & (thw & Hw & Hpw & _) & Hoth & _).
    destruct (Nat.eq_dec t w) as [->|Hne].
    + rewrite (thr_eq _ _ _ _ Hw Hth) in Hpw. congruence.
    + rewrite (Hoth _ _ Hth Hne) in Hpc. discriminate.
  - exfalso. destruct P as (_ & _ & _ & _ & Hthr & _).
    destruct (Hthr _ _ Hth) as [Hp|(Hp & _)]; congruence.
Qed.

(* the winner stores COMPLETE *)
Lemma pinv_store ph s t th :
  pinv ph s -> thr_at s t th -> th_pc th = PStore ->
  exists v, ph = P2 t v /\ length (g_msgs s) = 2 /\
  pinv (P3 t v)
    (sg_commit s t {| th_idx := S (length (g_msgs s) - 1); th_known := th_known th; th_pc := PIdle;
                      th_calls := tl (th_calls th) |}
       (g_msgs s ++ [{| mval := COMPLETE; mview := if releases (o_store os) then th_known th else [] |}])
       (OpStore (o_store os) (S (length (g_msgs s) - 1)) COMPLETE) (Some RUnit)).
Proof.
  intros P Hth Hpc.
  destruct ph as [|w v0|w v0|w v0]; cbn [pinv] in P.
  - exfalso. destruct P as (_ & _ & _ & Hall & _). rewrite (Hall _ _ Hth) in Hpc. discriminate.
  - exfalso. destruct P as (_ & _ & _ & (thw & Hw & Hpw) & Hoth & _).
    destruct (Nat.eq_dec t w) as [->|Hne].
    + rewrite (thr_eq _ _ _ _ Hw Hth) in Hpw. congruence.
    + rewrite (Hoth _ _ Hth Hne) in Hpc. discriminate.
  - destruct P as (Hv & (hb & Ha) & Hc & (thw & Hw & Hpw & Hk) & Hoth & Hone & Hqt & Hin & (h & Hh)).
    destruct (Nat.eq_dec t w) as [->|Hne].
    2:{ exfalso. rewrite (Hoth _ _ Hth Hne) in Hpc. discriminate. }
    rewrite (thr_eq _ _ _ _ Hw Hth) in Hk.
    exists v0. split; [reflexivity|].
    pose proof (vals_length s) as Hlen. rewrite Hv in Hlen. cbn in Hlen.
    split; [lia|].
    replace (S (length (g_msgs s) - 1)) with 2 by lia.
    match goal with |- pinv _ ?x => set (s' := x) end.
    pose proof (stepped_commit s w {| th_idx := 2; th_known := th_known th; th_pc := PIdle;
                      th_calls := tl (th_calls th) |}
       (g_msgs s ++ [{| mval := COMPLETE; mview := if releases (o_store os) then th_known th else [] |}])
       (OpStore (o_store os) 2 COMPLETE) (Some RUnit)) as St. fold s' in St.
    cbn [pinv]. repeat apply conj; auto.
    + unfold s'. rewrite vals_commit, map_app. fold (vals s). rewrite Hv. reflexivity.
    + intros Hok. eexists. split.
      * unfold s'. cbn [sg_commit g_msgs]. rewrite nth_error_app2 by lia.
        replace (2 - length (g_msgs s)) with 0 by lia. reflexivity.
      * cbn [mview]. unfold ord_ok in Hok. apply andb_true_iff in Hok. destruct Hok as [Hrel _].
        rewrite Hrel. exact Hk.
    + exists hb, []. split; [exact Ha|constructor].
    + intros t0 th0 H0. left.
      destruct (st_thr_cases _ _ _ _ _ St _ _ H0) as [[-> ->]|[Hne H1]]; [reflexivity|eauto].
    + eapply st_one_cas; eauto.
    + exists h, (length (g_trace s)). repeat apply conj.
      * eapply rec_lt; eauto.
      * eapply st_rec_old; eauto.
      * eapply st_rec_new; eauto.
      * intros j r x Hj Hr. destruct (st_rec_cases _ _ _ _ _ St _ _ Hj) as [[_ H']|[_ ->]].
        -- exfalso. destruct (Hqt _ _ H') as [Hn _]. eapply Hn; eauto.
        -- discriminate.
    + intros k r x Hk' Hr. destruct (st_rec_cases _ _ _ _ _ St _ _ Hk') as [[_ H']|[_ ->]].
      * exfalso. destruct (Hqt _ _ H') as [_ Hn]. eapply Hn; eauto.
      * discriminate.
  - exfalso. destruct P as (_ & _ & _ & _ & Hthr & _).
    destruct (Hthr _ _ Hth) as [Hp|(Hp & _)]; congruence.
Qed.

(* a get reads the cell *)
Lemma pinv_read ph s t th :
  pinv ph s -> thr_at s t th -> th_pc th = PRead ->
  exists w v, ph = P3 w v /\ g_cell s = Some v /\
  (ord_ok os = true -> races (th_known th) false (g_accs s) = false) /\
  pinv (P3 w v)
    (sg_access_cell s t th false (g_cell s) PIdle (tl (th_calls th)) (Some (RGet (g_cell s)))).
Proof.
  intros P Hth Hpc.
  destruct ph as [|w v0|w v0|w v0]; cbn [pinv] in P.
  - exfalso. destruct P as (_ & _ & _ & Hall & _). rewrite (Hall _ _ Hth) in Hpc. discriminate.
  - exfalso. destruct P as (_ & _ & _ & (thw & Hw & Hpw) & Hoth & _).
    destruct (Nat.eq_dec t w) as [->|Hne].
    + rewrite (thr_eq _ _ _ _ Hw Hth) in Hpw. congruence.
    + rewrite (Hoth _ _ Hth Hne) in Hpc. discriminate.
  - exfalso. destruct P as (_ & _ & _ & (thw & Hw & Hpw & _) & Hoth & _).
    destruct (Nat.eq_dec t w) as [->|Hne].
    + rewrite (thr_eq _ _ _ _ Hw Hth) in Hpw. congruence.
    + rewrite (Hoth _ _ Hth Hne) in Hpc. discriminate.
  - destruct P as (Hv & Hview & (hb & reads & Ha & Hreads) & Hc & Hthr & Hone & Hin &
                   (h & i0 & Hhi & Hh & Hi0 & Hafter) & Hget).
    exists w, v0. split; [reflexivity|]. split; [exact Hc|].
    destruct (Hthr _ _ Hth) as [Hp|(_ & Hk & j & Hj)]; [congruence|].
    split.
    { intros Hok. rewrite Ha. unfold races. cbn [races_from acc_write].
      assert (mem_nat 0 (th_known th) = true) as Hmem by (apply mem_nat_In; auto).
      rewrite Hmem. cbn [negb andb orb].
      apply races_from_reads. eapply Forall_impl; [|exact Hreads]. intros a (Hw & _); exact Hw. }
    match goal with |- pinv _ ?x => set (s' := x) end.
    pose proof (stepped_access s t th false (g_cell s) PIdle (tl (th_calls th)) (Some (RGet (g_cell s)))) as St.
    fold s' in St.
    cbn [pinv]. repeat apply conj; auto.
    + exists hb, (reads ++ [{| acc_tid := t; acc_write := false; acc_val := g_cell s; acc_hb := th_known th |}]).
      split.
      * unfold s'. cbn [sg_access_cell g_accs]. rewrite Ha. reflexivity.
      * apply Forall_app. split; [exact Hreads|]. constructor; [|constructor]. cbn. auto.
    + intros t0 th0 H0. destruct (st_thr_cases _ _ _ _ _ St _ _ H0) as [[-> ->]|[Hne H1]]; [now left|].
      destruct (Hthr _ _ H1) as [Hp|(Hp & Hk0 & j0 & Hj0)]; [now left|right].
      repeat apply conj; auto. exists j0. eapply st_rec_old; eauto.
    + eapply st_one_cas; eauto.
    + exists h, i0. repeat apply conj; auto; try (eapply st_rec_old; eauto).
      intros j1 r x Hj1 Hr. destruct (st_rec_cases _ _ _ _ _ St _ _ Hj1) as [[_ H']|[_ ->]]; eauto.
      discriminate.
    + intros k r x Hk' Hr. destruct (st_rec_cases _ _ _ _ _ St _ _ Hk') as [[_ H']|[-> ->]].
      * destruct (Hget _ _ _ H' Hr) as [-> [j1 [Hjk Hj1]]]. split; auto.
        exists j1. split; auto. eapply st_rec_old; eauto.
      * cbn [r_ret r_tid] in *. rewrite Hc in Hr. inversion Hr; subst x. split; auto.
        exists j. split; [eapply rec_lt; eauto|eapply st_rec_old; eauto].
Qed.


(* ------------------------------------------------------------------ one step, any phase *)

Lemma ginv_read_step s t th i m kn pc' calls' op ret :
  ginv s -> thr_at s t th -> th_idx th <= i -> nth_error (g_msgs s) i = Some m ->
  incl calls' (th_calls th) ->
  read_of {| r_tid := t; r_op := op; r_ret := ret |} = Some (i, mval m) ->
  ret_wf {| r_tid := t; r_op := op; r_ret := ret |} ->
  ginv (sg_commit s t {| th_idx := i; th_known := kn; th_pc := pc'; th_calls := calls' |} (g_msgs s) op ret).
Proof.
  intros G Hth Hle Hm Hincl Hread Hret.
  eapply (ginv_commit s t th _ (g_msgs s) op ret []); eauto; cbn [th_idx th_calls].
  - now rewrite app_nil_r.
  - exact (gi_len _ G).
  - intros j v Hj H. apply nth_lt in H. rewrite map_length in H. lia.
  - eapply nth_lt; eauto.
  - intros j v E. rewrite Hread in E. inversion E; subst. split; [|lia]. now apply vals_nth.
Qed.

Lemma incl_tl_self {A} (l : list A) : incl (tl l) l.
Proof. destruct l; cbn; [apply incl_refl|apply incl_tl, incl_refl]. Qed.

Definition next_phase (ph ph' : phase) : Prop :=
  match ph with
  | P0 => ph' = P0 \/ exists w v, ph' = P1 w v
  | P1 w v => ph' = P1 w v \/ ph' = P2 w v
  | P2 w v => ph' = P2 w v \/ ph' = P3 w v
  | P3 w v => ph' = P3 w v
  end.

Lemma next_phase_refl ph : next_phase ph ph.
Proof. destruct ph; cbn; auto. Qed.

Lemma step_inv ph s x :
  ginv s -> pinv ph s ->
  exists ph', next_phase ph ph' /\ ginv (sg_step os s x) /\ pinv ph' (sg_step os s x) /\
              (forall w v, ph = P3 w v -> g_msgs (sg_step os s x) = g_msgs s /\ g_cell (sg_step os s x) = g_cell s).
Proof.
  intros G P. destruct x as [t r].
  destruct (sg_step_cases os s t r (gi_idx _ G)) as [E|[th [Hth Hc]]].
  { rewrite E. exists ph. repeat apply conj; auto using next_phase_refl. }
  destruct Hc as [v rest i m Hpc Hcalls Hle Hi Hm Hval
                 |v rest i m Hpc Hcalls Hle Hi Hm Hval
                 |rest i m Hpc Hcalls Hle Hi Hm Hval
                 |rest i m Hpc Hcalls Hle Hi Hm Hval
                 |rest i m Hpc Hcalls Hle Hi Hm
                 |v Hpc|Hpc|Hpc].
  - (* CAS succeeds *)
    cbv zeta.
    destruct (pinv_cas_ok ph s t th v rest i m
                (join_if (acquires (o_cas_ok os)) (th_known th) (mview m))
                ((if releases (o_cas_ok os)
                  then join_if (acquires (o_cas_ok os)) (th_known th) (mview m) else []) ++ mview m)
                G P Hth Hpc Hcalls Hi Hm Hval) as [-> P'].
    exists (P1 t v). split; [right; eauto|]. split; [|split; [exact P'|discriminate]].
    cbn [pinv] in P. destruct P as (Hv & _).
    pose proof (vals_length s) as Hlen. rewrite Hv in Hlen. cbn in Hlen.
    eapply (ginv_commit s t th _ _ _ _ [_]); eauto; cbn [th_idx th_calls].
    + rewrite app_length. cbn. lia.
    + intros j x Hj H. rewrite map_app, nth_error_app2 in H by (rewrite map_length; lia).
      rewrite map_length in H. destruct (j - length (g_msgs s)) as [|d] eqn:Ed; cbn in H.
      * inversion H. unfold LOADING. lia.
      * destruct d; discriminate.
    + lia.
    + rewrite app_length. cbn. lia.
    + apply incl_refl.
    + exact I.
    + intros j x E. cbn in E. inversion E; subst. split; [now apply vals_nth|lia].
  - (* CAS fails *)
    exists ph. split; [apply next_phase_refl|]. split; [|split].
    + eapply ginv_read_step; eauto.
      * rewrite Hcalls. apply incl_tl, incl_refl.
      * exact I.
    + eapply pinv_idle_read; eauto. discriminate.
    + auto.
  - (* get loads COMPLETE *)
    destruct (pinv_get_hit ph s t th i m G P Hth Hpc Hm Hval) as [_ P'].
    exists ph. split; [apply next_phase_refl|]. split; [|split]; auto.
    eapply ginv_read_step; eauto; try apply incl_refl; try exact I.
  - (* get loads something else *)
    exists ph. split; [apply next_phase_refl|]. split; [|split].
    + eapply ginv_read_step; eauto.
      * rewrite Hcalls. apply incl_tl, incl_refl.
      * red. cbn [r_ret]. exists i, (mval m). split; [reflexivity|auto].
    + eapply pinv_idle_read; eauto. intros x E. discriminate.
    + auto.
  - (* is_set *)
    exists ph. split; [apply next_phase_refl|]. split; [|split].
    + eapply ginv_read_step; eauto.
      * rewrite Hcalls. apply incl_tl, incl_refl.
      * red. cbn [r_ret]. exists i, (mval m). split; [reflexivity|auto].
    + eapply pinv_idle_read; eauto. intros x E. discriminate.
    + auto.
  - (* cell write *)
    destruct (pinv_write ph s t th v P Hth Hpc) as (-> & Ha & P').
    exists (P2 t v). split; [right; reflexivity|]. split; [|split; [exact P'|discriminate]].
    eapply ginv_access; eauto.
    + apply incl_refl.
    + exact I.
    + intros _. rewrite Ha. reflexivity.
  - (* store COMPLETE *)
    destruct (pinv_store ph s t th P Hth Hpc) as (v & -> & Hlen & P').
    exists (P3 t v). split; [right; reflexivity|]. split; [|split; [exact P'|discriminate]].
    pose proof (gi_idx _ G _ _ Hth) as Hidx.
    eapply (ginv_commit s t th _ _ _ _ [_]); eauto; cbn [th_idx th_calls].
    + rewrite app_length. cbn. lia.
    + intros j x Hj H. rewrite map_app, nth_error_app2 in H by (rewrite map_length; lia).
      rewrite map_length in H. destruct (j - length (g_msgs s)) as [|d] eqn:Ed; cbn in H.
      * inversion H. unfold COMPLETE. lia.
      * destruct d; discriminate.
    + lia.
    + rewrite app_length. cbn. lia.
    + apply incl_tl_self.
    + exact I.
    + discriminate.
  - (* cell read *)
    destruct (pinv_read ph s t th P Hth Hpc) as (w & v & -> & Hc & Hrace & P').
    exists (P3 w v). split; [reflexivity|]. split; [|split; [exact P'|]].
    + eapply ginv_access; eauto.
      * apply incl_tl_self.
      * red. cbn [r_ret]. rewrite Hc. exact I.
    + intros _ _ _. split; reflexivity.
Qed.

(* ------------------------------------------------------------------ every reachable state *)

Lemma nth_error_map_inv {A B} (f : A -> B) l n y :
  nth_error (map f l) n = Some y -> exists x, nth_error l n = Some x /\ y = f x.
Proof.
  revert n; induction l as [|a l IH]; intros [|n] H; cbn in *; try discriminate.
  - inversion H. eauto.
  - eauto.
Qed.

Lemma init_inv : ginv (sg_init progs) /\ pinv P0 (sg_init progs).
Proof.
  split.
  - constructor; unfold thr_at, rec_at, vals; cbn [sg_init g_thrs g_trace g_msgs g_raced].
    + intros t th H. apply nth_error_map_inv in H. destruct H as [p [_ ->]]. cbn. lia.
    + intros t th H. apply nth_error_map_inv in H. destruct H as [p [Hp ->]]. cbn.
      exists p. split; auto. apply incl_refl.
    + cbn. lia.
    + intros [|[|i]] v H; cbn in H; inversion H; reflexivity.
    + intros k r H. destruct k; discriminate.
    + intros k r i v H. destruct k; discriminate.
    + intros k r i H. destruct k; discriminate.
    + intros i j ri rj x y v _ H. destruct i; discriminate.
    + reflexivity.
  - cbn [pinv]. unfold thr_at, quiet_trace, rec_at, vals; cbn [sg_init g_thrs g_trace g_msgs g_accs g_cell].
    repeat apply conj; auto.
    + intros t th H. apply nth_error_map_inv in H. destruct H as [p [_ ->]]. reflexivity.
    + intros k r H. destruct k; discriminate.
Qed.

Lemma run_inv sched : exists ph, ginv (sg_run os progs sched) /\ pinv ph (sg_run os progs sched).
Proof.
  induction sched as [|x sched IH] using rev_ind.
  - exists P0. exact init_inv.
  - destruct IH as [ph [G P]]. rewrite sg_run_snoc.
    destruct (step_inv ph _ x G P) as [ph' (_ & G' & P' & _)]. eauto.
Qed.

(* once COMPLETE is stored nothing changes [state] or the cell any more *)
Lemma p3_forever w v sched : forall s,
  ginv s -> pinv (P3 w v) s ->
  let s' := fold_left (sg_step os) sched s in
  ginv s' /\ pinv (P3 w v) s' /\ g_msgs s' = g_msgs s /\ g_cell s' = g_cell s.
Proof.
  induction sched as [|x sched IH]; intros s G P; cbn [fold_left].
  - auto.
  - destruct (step_inv _ _ x G P) as [ph' (Hn & G' & P' & Hf)]. cbn in Hn. subst ph'.
    destruct (Hf _ _ eq_refl) as [Em Ec].
    destruct (IH _ G' P') as (G'' & P'' & Em' & Ec'). cbv zeta in *.
    split; [exact G''|]. split; [exact P''|]. split; congruence.
Qed.

End Inv.
