(* Decimal rendering of unbounded integers as byte strings, on top of the standard
   library's [N.to_uint] / [Z.to_int] (whose round-trip lemmas live in DecimalN/DecimalZ).
   This is what Rust's [impl Display] for u64 / i64 produces: the canonical numeral, no
   leading zero, "0" for zero, a leading '-' for negatives.  Definitions only. *)
Require Import Cadence.Base.Prelude.
From Coq Require Import Decimal.

Fixpoint uint_bytes (u : Decimal.uint) : str :=
  match u with
  | Nil => []
  | D0 u => 48%N :: uint_bytes u | D1 u => 49%N :: uint_bytes u | D2 u => 50%N :: uint_bytes u
  | D3 u => 51%N :: uint_bytes u | D4 u => 52%N :: uint_bytes u | D5 u => 53%N :: uint_bytes u
  | D6 u => 54%N :: uint_bytes u | D7 u => 55%N :: uint_bytes u | D8 u => 56%N :: uint_bytes u
  | D9 u => 57%N :: uint_bytes u
  end.

(* the inverse, on byte strings made of ASCII digits only *)
Fixpoint bytes_uint (s : str) : option Decimal.uint :=
  match s with
  | [] => Some Nil
  | b :: r =>
    match bytes_uint r with
    | None => None
    | Some u =>
      if N.eqb b 48 then Some (D0 u) else if N.eqb b 49 then Some (D1 u)
      else if N.eqb b 50 then Some (D2 u) else if N.eqb b 51 then Some (D3 u)
      else if N.eqb b 52 then Some (D4 u) else if N.eqb b 53 then Some (D5 u)
      else if N.eqb b 54 then Some (D6 u) else if N.eqb b 55 then Some (D7 u)
      else if N.eqb b 56 then Some (D8 u) else if N.eqb b 57 then Some (D9 u)
      else None
    end
  end.

Definition minus_sign : N := 45%N.

Definition render_N (n : N) : str := uint_bytes (N.to_uint n).
Definition render_Z (z : Z) : str :=
  match Z.to_int z with
  | Decimal.Pos u => uint_bytes u
  | Decimal.Neg u => minus_sign :: uint_bytes u
  end.

(* what a server does with a numeral: non-empty digit string, optional leading '-' *)
Definition parse_N (s : str) : option N :=
  match s with
  | [] => None
  | _ => option_map N.of_uint (bytes_uint s)
  end.
Definition parse_Z (s : str) : option Z :=
  match s with
  | [] => None
  | b :: r =>
    if N.eqb b minus_sign
    then match r with [] => None | _ => option_map (fun u => Z.of_int (Decimal.Neg u)) (bytes_uint r) end
    else option_map (fun u => Z.of_int (Decimal.Pos u)) (bytes_uint s)
  end.

Definition is_digit (b : N) : bool := (N.leb 48 b) && (N.leb b 57).
