(* C12 — Concurrent emitters through a shared buffered sink stay line-atomic.

   Pinned statements.  Model: Cadence.Model.Merge over Cadence.Model.Writer.  Threads
   [0 .. length ps - 1] run the programs [ps] (any lists of emit / flush) against one
   shared buffered writer; the sink's mutex makes every call one atomic step, so a
   concurrent run is the sequential writer executed on an interleaving [l] of the programs
   ([is_merge ps l]: a list of (thread, operation) pairs in which every thread's operations
   occur in program order, all of them).  The theorems hold for EVERY interleaving, every
   number of threads, every capacity, terminator and fault script.  Ghost identity of a
   metric: (position of its emit in the interleaving, bytes); [owner l t g]: identity [g]
   was emitted by thread [t].  That calls are atomic is what std::sync::Mutex provides; it
   is validated on the running code by the correspondence check (critical-section events of
   hook H2), not proved. *)
Require Import Cadence.Base.Prelude.
Require Import Cadence.Model.Writer.
Require Import Cadence.Model.Merge.
Require Import Cadence.Proofs.WriterBase.
Require Import Cadence.Proofs.WriterInv.
Require Import Cadence.Proofs.WriterRun.
Require Import Cadence.Proofs.WriterThms.
Require Import Cadence.Proofs.MergeProofs.

(* framing (C05) for every interleaving: each write on the underlying socket is whole
   lines within the capacity or one oversized metric alone *)
Theorem c12_frame : forall (ps : list (list op)) l c e script rs s,
  is_merge ps l ->
  run c e script (map snd l) = (rs, s) ->
  Forall (fun a =>
    match a_lab a with
    | Lines ms => ms <> [] /\
                  a_bytes a = concat (map (fun g => snd g ++ e) ms) /\
                  length (a_bytes a) <= c
    | Alone m => a_bytes a = snd m /\ c < length (snd m) + length e
    end) (lg s).
Proof. intros ps l c e script rs s _ R. exact (frame_all _ _ _ _ _ _ R). Qed.

(* conservation (C06) for every interleaving of a fault-free run: every call is
   acknowledged, every fitting metric is written exactly once in whole lines, every
   oversized one exactly once alone, identities are pairwise distinct *)
Theorem c12_once : forall (ps : list (list op)) l c e rs s,
  is_merge ps l ->
  run c e [] (map snd l) = (rs, s) ->
  Forall2 (fun o x => x = OOk (match o with Emit m => length m | Flush => 0 end)) (map snd l) rs /\
  filter (nzb e) (sentL (lg s)) = filter (nzb e) (filter (fitg c e) (emitted 0 (map snd l))) /\
  sentA (lg s) = filter (fun g => negb (fitg c e g)) (emitted 0 (map snd l)) /\
  NoDup (map fst (emitted 0 (map snd l))).
Proof.
  intros ps l c e rs s _ R. destruct (fault_free_conserve _ _ _ _ _ R) as (A & B & _).
  split; [|repeat split; auto using emitted_nodup].
  unfold run in R. destruct (run_from (init c e []) 0 (map snd l)) as [rs0 s0] eqn:R0.
  inversion R; subst. exact (fault_free_all_ok _ _ _ _ _ R0).
Qed.

(* each thread's buffered metrics leave in that thread's program order: in a fault-free
   run the fitting (non-empty) metrics of thread [t] found in the successful line writes,
   read off in stream order, are exactly the fitting metrics of [t]'s program, in program
   order *)
Theorem c12_thread_order : forall (ps : list (list op)) l c e rs s t,
  is_merge ps l ->
  run c e [] (map snd l) = (rs, s) ->
  map snd (filter (nzb e) (filter (owner l t) (sentL (lg s)))) =
    filter (fun m => nzb e (0, m) && fitsb c e m) (emits_of (nth t ps [])).
Proof. intros ps l c e rs s t. apply thread_order_ok. Qed.

(* ... and under any fault script: what thread [t] got written in whole lines, followed by
   what it still has in the buffer, is the list of its acknowledged fitting metrics, which
   is a sub-sequence of its program's emits (order never changes, nothing is invented) *)
Theorem c12_thread_order_faults : forall (ps : list (list op)) l c e script rs s t,
  is_merge ps l ->
  run c e script (map snd l) = (rs, s) ->
  filter (nzb e) (filter (owner l t) (sentL (lg s) ++ bids s)) =
    filter (nzb e) (filter (fitg c e) (filter (owner l t) (acked 0 (map snd l) rs))) /\
  sublist (map snd (filter (owner l t) (acked 0 (map snd l) rs))) (emits_of (nth t ps [])).
Proof. intros ps l c e script rs s t. apply thread_order. Qed.

(* in an interleaving every thread's calls occur in its program order, all of them *)
Theorem c12_projection : forall (ps : list (list op)) l t,
  is_merge ps l -> proj t l = nth t ps [].
Proof. intros ps l t M. now apply proj_merge. Qed.

(* "every interleaving" is the same as "every order in which the lock may be taken": each
   interleaving is the one chosen by a schedule (its own sequence of thread numbers), and a
   schedule that lets every thread finish chooses an interleaving *)
Theorem c12_schedules : forall (ps : list (list op)),
  (forall l, is_merge ps l -> merge_by (map fst l) ps = l) /\
  (forall sched, Forall (fun p => p = []) (rest_by sched ps) -> is_merge ps (merge_by sched ps)).
Proof. intros ps. split; [apply is_merge_sched|intros sched; apply merge_by_complete]. Qed.

(* a schedule that stops early: what each thread has done so far is a prefix of its program *)
Theorem c12_prefix : forall (ps : list (list op)) sched t,
  proj t (merge_by sched ps) ++ nth t (rest_by sched ps) [] = nth t ps [].
Proof. intros ps sched t. apply merge_by_proj. Qed.

(* non-vacuity: three threads, capacity 8; thread 1's oversized metric goes out alone in its
   own call while the others' lines are packed together; per-thread order is kept *)
Example c12_witness :
  let ps := [[Emit [1;1]; Emit [1;2]; Flush]; [Emit [2;1;1;1;1;1;1;1;1]; Emit [2;2]]; [Emit [3;1]]]%N in
  let sched := [0; 1; 2; 1; 0; 0; 5; 1] in
  let '(l, rs, s) := conc_sink (Some 8) [] ps sched in
  (map fst l, rs, map (fun a => (a_op a, a_bytes a)) (lg s), rest_by sched ps) =
  ([0; 1; 2; 1; 0; 0], [OOk 2; OOk 9; OOk 2; OOk 2; OOk 2; OOk 0],
   [(1, [2;1;1;1;1;1;1;1;1]%N); (3, [1;1;10;3;1;10]%N); (5, [2;2;10;1;2;10]%N)], [[]; []; []]).
Proof. vm_compute. reflexivity. Qed.

(* ==== added after the audit of 2026-10-02 (selftest/audit/REPORT-2026-10-02.md) ==== *)
Require Import Cadence.Proofs.AuditM2.

(* ---- A.13: the executed roots Merge.conc_sink and Merge.results_of ---- *)

(* what conc_sink (the function the harness runs) computes: the interleaving chosen by the observed
   lock order, and the whole life - construction, the interleaved calls, the final drop - of the
   sequential writer (newline, the configured capacity or 512) on that interleaving.  Hence every
   theorem above about [run c e script (map snd l)] is a theorem about conc_sink. *)
Theorem c12_conc_sink : forall co script (ps : list (list op)) sched,
  conc_sink co script ps sched =
  (merge_by sched ps,
   fst (run (match co with Some n => n | None => default_capacity end) newline script
            (map snd (merge_by sched ps))),
   snd (run (match co with Some n => n | None => default_capacity end) newline script
            (map snd (merge_by sched ps)))).
Proof. exact conc_sink_run. Qed.

Theorem c12_conc_sink_spec : forall co script (ps : list (list op)) sched l rs s,
  conc_sink co script ps sched = (l, rs, s) <->
  l = merge_by sched ps /\
  run (match co with Some n => n | None => default_capacity end) newline script (map snd l) = (rs, s).
Proof. exact conc_sink_spec. Qed.

(* results_of hands every thread the results of exactly its own calls, in its program order: for a
   complete interleaving thread [t] gets as many results as its program has calls; the call at
   position [i] of the interleaving, made by [t], is [t]'s call number k = (number of [t]'s calls
   before position i) and [t]'s k-th result is the i-th result of the run; and conversely every
   result [t] gets is the result of one of its calls (nothing from another thread, nothing twice) *)
Theorem c12_results_per_thread : forall (ps : list (list op)) l rs t,
  is_merge ps l -> length rs = length l ->
  length (results_of t l rs) = length (nth t ps []) /\
  (forall i o, nth_error l i = Some (t, o) ->
     let k := length (proj t (firstn i l)) in
     nth_error (nth t ps []) k = Some o /\ nth_error (results_of t l rs) k = nth_error rs i) /\
  (forall k x, nth_error (results_of t l rs) k = Some x ->
     exists i o, nth_error l i = Some (t, o) /\ k = length (proj t (firstn i l)) /\ nth_error rs i = Some x).
Proof. exact results_per_thread. Qed.

(* on the executed root, for ANY schedule (complete or not) and ANY fault script: there is one result
   per call of the interleaving; what thread [t] has done so far, followed by what it has left, is its
   program; and the results handed to [t] are, call by call, admissible for [t]'s calls - Ok with the
   metric's byte length for an emit, Ok 0 for a flush, or an error; never a panic *)
Theorem c12_conc_sink_results : forall co script (ps : list (list op)) sched l rs s t,
  conc_sink co script ps sched = (l, rs, s) ->
  length rs = length l /\
  proj t l ++ nth t (rest_by sched ps) [] = nth t ps [] /\
  Forall2 (fun o x => match o, x with
                      | Emit m, OOk k => k = length m
                      | Flush, OOk k => k = 0
                      | _, OPanic => False
                      | _, _ => True
                      end) (proj t l) (results_of t l rs).
Proof. exact conc_sink_results. Qed.

(* fault-free: every thread sees exactly Ok(byte length) for each of its emits, Ok for each flush *)
Theorem c12_conc_sink_results_ok : forall co (ps : list (list op)) sched l rs s t,
  conc_sink co [] ps sched = (l, rs, s) ->
  results_of t l rs = map (fun o => OOk (match o with Emit m => length m | Flush => 0 end)) (proj t l).
Proof. exact conc_sink_results_ok. Qed.

(* c12_once under ANY fault script, in ledger form, for every interleaving: the metrics written in
   whole lines, followed by those still buffered after the drop (a failed last write keeps them),
   are exactly the acknowledged (emit answered Ok) fitting metrics, in order; those written alone are
   exactly the acknowledged oversized ones; no identity is written twice; the acknowledged metrics
   are a sub-sequence of the emitted ones; every result is admissible.  Zero-length lines (empty
   metric with empty terminator) are outside the identity statement, as in C06/C07. *)
Theorem c12_once_faults : forall (ps : list (list op)) l c e script rs s,
  is_merge ps l ->
  run c e script (map snd l) = (rs, s) ->
  length rs = length l /\
  Forall2 res_ok (map snd l) rs /\
  filter (nzb e) (sentL (lg s) ++ bids s) = filter (nzb e) (fit_ids c e (acked 0 (map snd l) rs)) /\
  sentA (lg s) = big_ids c e (acked 0 (map snd l) rs) /\
  NoDup (filter (nzb e) (sentL (lg s))) /\ NoDup (sentA (lg s)) /\
  NoDup (map fst (acked 0 (map snd l) rs)) /\
  sublist (acked 0 (map snd l) rs) (emitted 0 (map snd l)).
Proof. exact once_faults. Qed.

(* the same ledger on the executed root, for any schedule *)
Theorem c12_conc_sink_once_faults : forall co script (ps : list (list op)) sched l rs s,
  conc_sink co script ps sched = (l, rs, s) ->
  let c := match co with Some n => n | None => default_capacity end in
  l = merge_by sched ps /\
  filter (nzb newline) (sentL (lg s) ++ bids s) = filter (nzb newline) (fit_ids c newline (acked 0 (map snd l) rs)) /\
  sentA (lg s) = big_ids c newline (acked 0 (map snd l) rs) /\
  NoDup (filter (nzb newline) (sentL (lg s))) /\ NoDup (sentA (lg s)).
Proof. exact conc_sink_once_faults. Qed.

(* non-vacuity: the programs of c12_witness with the second underlying write failing: thread 1's
   second emit gets the error (and is not written), every thread gets its own results in its order *)
Example c12_conc_sink_faults_witness :
  let ps := [[Emit [1;1]; Emit [1;2]; Flush]; [Emit [2;1;1;1;1;1;1;1;1]; Emit [2;2]]; [Emit [3;1]]]%N in
  let sched := [0; 1; 2; 1; 0; 0; 5; 1] in
  let '(l, rs, s) := conc_sink (Some 8) [WOk; WErr 7]%N ps sched in
  (map fst l, rs, results_of 0 l rs, results_of 1 l rs, results_of 2 l rs,
   map fst (sentL (lg s)), map fst (bids s)) =
  ([0; 1; 2; 1; 0; 0], [OOk 2; OOk 9; OOk 2; OErr 7%N; OOk 2; OOk 0],
   [OOk 2; OOk 2; OOk 0], [OOk 9; OErr 7%N], [OOk 2], [0; 2; 4], []).
Proof. vm_compute. reflexivity. Qed.

(* Note after the second read-only review of these pins (selftest/audit/REVIEW-2-2026-10-02.md): c12_once_faults does not use its hypothesis is_merge ps l: it is the writer ledger for ANY call list, instantiated at an interleaving; c12_conc_sink / _spec hold by unfolding (they pin what the executed root computes). *)
