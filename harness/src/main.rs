//! Correspondence harness: runs the real cadence crates (path dependency on
//! /repo, built from its current working tree) on the cases of a case file and
//! prints one canonical observation line per case.
#![allow(dead_code)]
mod util;

macro_rules! bins {
    ($($name:ident),*) => {
        $(mod $name;)*
        fn dispatch(bin: &str, line: &str) -> Option<String> {
            match bin {
                $(stringify!($name) => Some($name::run_case(line)),)*
                _ => None,
            }
        }
    };
}

bins!(mlw, wire, send, queue, conc, sock, mac, singleton, hostile);

use std::io::{BufRead, Write};

fn main() {
    let args: Vec<String> = std::env::args().collect();
    if args.len() < 3 {
        eprintln!("usage: harness <bin> <casefile>");
        std::process::exit(2);
    }
    util::quiet_panics();
    if args[1] == "macchild" {
        // one macro case in this fresh process (the global default client can be set only once)
        println!("{}", mac::child(&args[2]));
        return;
    }
    let f = std::fs::File::open(&args[2]).expect("case file");
    let out = std::io::stdout();
    let mut out = std::io::BufWriter::new(out.lock());
    for line in std::io::BufReader::new(f).lines() {
        let line = line.unwrap();
        let line = line.trim();
        if line.is_empty() || line.starts_with('#') {
            continue;
        }
        let r = util::catch(|| dispatch(&args[1], line));
        match r {
            Err(msg) => writeln!(out, "HARNESS-PANIC {}", msg.replace('\n', " ")).unwrap(),
            Ok(Some(obs)) => writeln!(out, "{}", obs).unwrap(),
            Ok(None) => {
                eprintln!("unknown bin {}", args[1]);
                std::process::exit(2);
            }
        }
        out.flush().unwrap();
    }
}
