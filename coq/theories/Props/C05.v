(* C05 — A buffered sink never splits or merges metrics across datagrams.

   Pinned statements.  The model is Cadence.Model.Writer (MultiLineWriter over
   std's BufWriter over an all-or-nothing underlying writer); [run c e script ops]
   is a whole life of a writer with capacity [c] and line terminator [e]:
   construction, the operations [ops] (emit of any bytes / flush), the final drop,
   against ANY fault script.  [lg s] is every write attempted on the underlying
   writer; the ghost label of an attempt names the metrics (index of the emitting
   operation, bytes) it carries.  Nothing below bounds capacities, lengths, the
   number of operations or the fault script. *)
Require Import Cadence.Base.Prelude.
Require Import Cadence.Model.Writer.
Require Import Cadence.Proofs.WriterBase.
Require Import Cadence.Proofs.WriterIds.
Require Import Cadence.Proofs.WriterThms.

(* every write is whole lines within the capacity, or one oversized metric alone,
   unmodified and without terminator *)
Theorem c05_frame : forall (c : nat) (e : str) (script : list outcome) (ops : list op) rs s,
  run c e script ops = (rs, s) ->
  Forall (fun a =>
    match a_lab a with
    | Lines ms => ms <> [] /\
                  a_bytes a = concat (map (fun g => snd g ++ e) ms) /\
                  length (a_bytes a) <= c
    | Alone m => a_bytes a = snd m /\ c < length (snd m) + length e
    end) (lg s).
Proof. exact frame_all. Qed.

(* the metrics a label names are exactly metrics that were emitted: identity
   (i, m) means operation number i was [Emit m] *)
Theorem c05_real : forall (c : nat) (e : str) (script : list outcome) (ops : list op) rs s,
  run c e script ops = (rs, s) ->
  Forall (fun a =>
    Forall (fun g => nth_error ops (fst g) = Some (Emit (snd g)))
           (match a_lab a with Lines ms => ms | Alone m => [m] end)) (lg s).
Proof. exact ids_real. Qed.

(* the buffered sinks of the crate: terminator "\n", 512 bytes when no capacity is given *)
Theorem c05_sinks : forall (co : option nat) (script : list outcome) (ops : list op) rs s,
  run_from (sink_init co script) 0 ops = (rs, s) ->
  let c := match co with Some n => n | None => 512 end in
  Forall (fun a =>
    match a_lab a with
    | Lines ms => ms <> [] /\
                  a_bytes a = concat (map (fun g => snd g ++ [10%N]) ms) /\
                  length (a_bytes a) <= c
    | Alone m => a_bytes a = snd m /\ c < length (snd m) + 1
    end) (lg (mlw_drop s (length ops))).
Proof.
  intros co script ops rs s H c.
  apply (frame_all c newline script ops rs). unfold run.
  change (init c newline script) with (sink_init co script). now rewrite H.
Qed.

(* non-vacuity: a concrete life with an automatic flush, an exact fill, a bypass and a
   failed write — the log the theorem speaks about is not empty *)
Example c05_witness :
  map (fun a => (a_op a, a_bytes a, a_out a))
      (lg (snd (run 8 [10%N] [WErr 7%N]
                    [Emit [1;2;3]; Emit [4;5;6]; Emit [7]; Emit [1;1;1;1;1;1;1;1;1]; Emit [9;9;9;9;9;9;9]; Flush]%N)))
  = [(2, [1;2;3;10;4;5;6;10]%N, WErr 7%N); (3, [1;1;1;1;1;1;1;1;1]%N, WOk);
     (4, [1;2;3;10;4;5;6;10]%N, WOk); (5, [9;9;9;9;9;9;9;10]%N, WOk)].
Proof. vm_compute. reflexivity. Qed.

(* ==== added after the audit of 2026-10-02 (selftest/audit/REPORT-2026-10-02.md) ==== *)
Require Import Cadence.Proofs.AuditW.

(* [A.18] ghost erasure (the theorem Model/Writer.v announces as WriterProofs.erasure).
   [AuditW.erase] forgets the ghost data of a state: the pending identities [bids] and, of every
   logged attempt, the label and the operation number (it keeps [written], [cap], the buffer, the
   terminator, the fault script and the (bytes, outcome) of every attempt).  [AuditW.p_step],
   [p_run_from], [p_run], [p_drop] are the model functions with every ghost argument removed.
   Erasing commutes with every function of the model: results, bytes handed to the underlying
   writer, outcomes consumed and the non-ghost state never depend on ghost data *)
Theorem c05_erasure_step : forall s n o,
  p_step (erase s) o = (fst (step s n o), erase (snd (step s n o))).
Proof. exact erasure_step. Qed.

Theorem c05_erasure_run_from : forall ops s n,
  p_run_from (erase s) ops = (fst (run_from s n ops), erase (snd (run_from s n ops))).
Proof. exact erasure_run_from. Qed.

Theorem c05_erasure_run : forall c e script ops,
  p_run c e script ops = (fst (run c e script ops), erase (snd (run c e script ops))).
Proof. exact erasure_run. Qed.

(* the same without the ghost-free copy: two states that differ only in ghost data, driven by the
   same operations numbered in any two ways, answer the same and again differ only in ghost data *)
Theorem c05_ghost_irrelevant : forall ops s1 s2 n1 n2,
  erase s1 = erase s2 ->
  fst (run_from s1 n1 ops) = fst (run_from s2 n2 ops) /\
  erase (snd (run_from s1 n1 ops)) = erase (snd (run_from s2 n2 ops)).
Proof. exact ghost_irrelevant_run. Qed.

Theorem c05_ghost_irrelevant_drop : forall s1 s2 n1 n2,
  erase s1 = erase s2 -> erase (mlw_drop s1 n1) = erase (mlw_drop s2 n2).
Proof. exact ghost_irrelevant_drop. Qed.

(* what "differ only in ghost data" means *)
Theorem c05_erase_keeps : forall s1 s2,
  erase s1 = erase s2 <->
  written s1 = written s2 /\ cap s1 = cap s2 /\ bbuf s1 = bbuf s2 /\ ending s1 = ending s2 /\
  sc s1 = sc s2 /\ map a_bytes (lg s1) = map a_bytes (lg s2) /\ map a_out (lg s1) = map a_out (lg s2).
Proof. exact erase_keeps. Qed.

(* non-vacuity: scrambled pending identities and other operation numbers, same behaviour *)
Example c05_erasure_witness :
  let s1 := init 8 [10%N] [WIntr; WErr 3%N] in
  let ops := [Emit [1;2;3]; Emit [4;5]; Emit [6;7;8]; Flush; Emit [1;1;1;1;1;1;1;1;1]; Flush]%N in
  let '(r1, t1) := run_from s1 0 ops in
  let '(r2, t2) := run_from (set_buf s1 [] [(7, [9%N]); (7, [9%N])]) 40 ops in
  r1 = r2 /\ erase t1 = erase t2 /\ map a_op (lg t1) <> map a_op (lg t2) /\
  r1 = [OOk 3; OOk 2; OErr 3%N; OOk 0; OOk 9; OOk 0].
Proof. vm_compute. repeat split; try reflexivity. discriminate. Qed.
