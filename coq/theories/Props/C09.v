(* C09 — Queuing sink: the last drop drains, then stops and releases the wrapped sink.

   Pinned statements about Cadence.Model.Queue; [step true] = the repaired code, [step false] =
   the pinned tree.  Histories = all event lists accepted by [run] (all interleavings), every
   capacity incl. [Some 0] and [None], every occupancy at drop time, every outcome script.
   Vocabulary as in Props/C08.v.  [sink_released s] = no handle is left and the worker thread
   has returned from run(), i.e. the last Arc of the wrapped sink is gone (its Drop runs; with
   C06 a wrapped buffered sink then flushes its remaining lines). *)
Require Import Cadence.Base.Prelude.
Require Import Cadence.Model.Writer.
Require Import Cadence.Proofs.WriterBase.
Require Import Cadence.Proofs.WriterRun.
Require Import Cadence.Model.Queue.
Require Import Cadence.Proofs.QueueInv.
Require Import Cadence.Proofs.QueueLive.
Require Import Cadence.Proofs.QueueV0.
Require Import Cadence.Proofs.StackProofs.

(* in every reachable state without a live handle — whatever the capacity, however full the
   queue was at the last drop, whether the marker sits in the channel, with the helper thread
   or with the worker — and for every outcome script (accept, fail, panic): the background
   side alone (a continuation by background events only) delivers every accepted metric once,
   in order, with the scripted outcomes; then the worker exits and the wrapped sink is released *)
Theorem c09_last_drop : forall cap handler evs s rs outs fuel,
  run true (init_q cap handler) evs = Some (s, rs) -> q_handles s = 0 -> mu s < fuel ->
  let s' := quiesce true fuel s outs in
  (exists wevs wrs, Forall worker_side wevs /\ run true s wevs = Some (s', wrs)) /\
  q_wk s' = WExited /\ sink_released s' = true /\
  q_delivered s' = q_delivered s ++ answers (pending_ids s) outs /\
  map fst (q_delivered s') = seq 0 (q_accepted s) /\
  q_chan s' = [] /\ q_pill_pending s' = false.
Proof. exact last_drop. Qed.

(* [fuel_of s] is enough *)
Theorem c09_last_drop_fuel_of : forall cap handler evs s rs outs,
  run true (init_q cap handler) evs = Some (s, rs) -> q_handles s = 0 ->
  let s' := quiesce true (fuel_of s) s outs in
  q_wk s' = WExited /\ sink_released s' = true /\
  q_delivered s' = q_delivered s ++ answers (pending_ids s) outs /\
  map fst (q_delivered s') = seq 0 (q_accepted s).
Proof. exact last_drop_fuel_of. Qed.

(* drains THEN stops: in every reachable state in which the worker has exited no handle is
   left, nothing is queued or with the helper, and everything accepted has been delivered *)
Theorem c09_drained_before_exit : forall cap handler evs s rs,
  run true (init_q cap handler) evs = Some (s, rs) -> q_wk s = WExited ->
  q_handles s = 0 /\ q_chan s = [] /\ q_pill_pending s = false /\
  map fst (q_delivered s) = seq 0 (q_accepted s).
Proof. exact reach_exited. Qed.

(* ... and releases the wrapped sink - end to end with a BUFFERED wrapped sink (the documented
   production stack client -> QueuingMetricSink -> BufferedUdp/UnixMetricSink): once the worker has
   exited, the buffered sink has been driven with exactly the accepted metrics 0 .. n-1 in acceptance
   order ([pay i] = text of the metric accepted as number i) and then dropped ([Writer.run] ends
   with the drop, which flushes); with a socket that accepts every datagram each of these emits
   returned Ok, every metric that fits a datagram was written exactly once in whole lines in that
   order, every oversized one exactly once on its own - nothing accepted is left in any buffer *)
Theorem c09_stack : forall cap handler evs s rs c e pay rs' w,
  Queue.run true (init_q cap handler) evs = Some (s, rs) -> q_wk s = WExited ->
  Writer.run c e [] (delivered_ops pay (q_delivered s)) = (rs', w) ->
  map fst (q_delivered s) = seq 0 (q_accepted s) /\
  Forall2 (fun i x => x = OOk (length (pay i))) (seq 0 (q_accepted s)) rs' /\
  filter (nzb e) (sentL (lg w)) =
    filter (nzb e) (filter (fitg c e) (map (fun i => (i, pay i)) (seq 0 (q_accepted s)))) /\
  sentA (lg w) = filter (fun g => negb (fitg c e g)) (map (fun i => (i, pay i)) (seq 0 (q_accepted s))).
Proof. exact stack_conservation. Qed.

(* exactly one stop marker exists once no handle is left, none before (channel + helper +
   worker): the worker is told to stop once, and only by the last drop *)
Theorem c09_one_marker : forall cap handler evs s rs,
  run true (init_q cap handler) evs = Some (s, rs) ->
  markers s = match q_handles s with O => 1 | S _ => 0 end.
Proof. intros cap handler evs s rs R. exact (I_markers s (inv_reach _ _ _ _ _ R)). Qed.

(* dropping a handle never blocks and never fails: in EVERY state (either semantics) with a live
   handle EDropH is enabled and is ONE step that returns; it does not wait for the worker or
   for the helper (no other event is needed), and touches neither the delivery log nor the
   acceptance count *)
Theorem c09_drop_total : forall fixed s, q_handles s <> 0 ->
  exists s', step fixed s EDropH = Some (s', RNone) /\ S (q_handles s') = q_handles s /\
             q_delivered s' = q_delivered s /\ q_accepted s' = q_accepted s.
Proof. exact droph_spec. Qed.

(* the last drop on a full queue returns at once, leaving the marker with the helper thread *)
Theorem c09_drop_full : forall s, q_handles s = 1 -> room s = false ->
  exists s', step true s EDropH = Some (s', RNone) /\ q_handles s' = 0 /\
             q_pill_pending s' = true /\ q_chan s' = q_chan s /\ q_wk s' = q_wk s.
Proof. exact droph_full. Qed.

(* the pinned tree violates C09 (defect D3): capacity 1, the queue is full when the last handle
   is dropped; the marker is lost: no handle is left, yet under ANY continuation (and after
   [quiesce] with any fuel and script) the worker never exits and the sink is never released *)
Theorem c09_refuted_v0 : forall handler,
  exists s, run false (init_q (Some 1) handler) [ETrySend; EIncSubmitted; EDropH]
              = Some (s, [ROk; RNone; RNone]) /\
    q_handles s = 0 /\
    (forall evs' s' rs', run false s evs' = Some (s', rs') ->
       q_wk s' <> WExited /\ sink_released s' = false) /\
    (forall fuel outs, q_wk (quiesce false fuel s outs) <> WExited /\
                       sink_released (quiesce false fuel s outs) = false).
Proof. exact c09_refuted. Qed.

(* capacity 0 (rendezvous): the worker is busy when the last handle is dropped *)
Theorem c09_refuted_v0_cap0 : forall handler,
  exists s, run false (init_q (Some 0) handler) [ETrySend; EDropH] = Some (s, [ROk; RNone]) /\
    q_handles s = 0 /\
    (forall evs' s' rs', run false s evs' = Some (s', rs') ->
       q_wk s' <> WExited /\ sink_released s' = false) /\
    (forall fuel outs, q_wk (quiesce false fuel s outs) <> WExited /\
                       sink_released (quiesce false fuel s outs) = false).
Proof. exact c09_refuted_cap0. Qed.

(* capacity 2, the schedule-independent variant replayed on the real crate: the wrapped sink is
   held on metric 0 while the queue fills up *)
Theorem c09_refuted_v0_cap2 : forall handler,
  exists s, run false (init_q (Some 2) handler)
              [ETrySend; EWDequeue; EWStep; ETrySend; ETrySend; ETrySend; EDropH]
              = Some (s, [ROk; RNone; RNone; ROk; ROk; RFull; RNone]) /\
    q_handles s = 0 /\
    (forall evs' s' rs', run false s evs' = Some (s', rs') ->
       q_wk s' <> WExited /\ sink_released s' = false) /\
    (forall fuel outs, q_wk (quiesce false fuel s outs) <> WExited /\
                       sink_released (quiesce false fuel s outs) = false).
Proof. exact c09_refuted_cap2. Qed.

(* non-vacuity: the three histories above under the repaired semantics, and the last drop at
   every occupancy 0..2 of a capacity-2 queue with a panic among the outcomes *)
Example c09_witness :
  let fin cap evs outs :=
    match run true (init_q cap false) evs with
    | Some (s, _) => let s' := quiesce true (fuel_of s) s outs in
                     Some (q_handles s, q_pill_pending s, q_wk s', map fst (q_delivered s'),
                           map snd (q_delivered s'), sink_released s')
    | None => None
    end in
  fin (Some 1) [ETrySend; EIncSubmitted; EDropH] [SPanic]
    = Some (0, true, WExited, [0], [SPanic], true) /\
  fin (Some 0) [ETrySend; EDropH] [SErr 5]
    = Some (0, true, WExited, [0], [SErr 5], true) /\
  fin (Some 2) [ETrySend; EWDequeue; EWStep; ETrySend; ETrySend; ETrySend; EDropH] [SOk; SPanic; SOk]
    = Some (0, true, WExited, [0; 1; 2], [SOk; SPanic; SOk], true) /\
  fin (Some 2) [EDropH] [] = Some (0, false, WExited, [], [], true) /\
  fin (Some 2) [ETrySend; EDropH] [SPanic] = Some (0, false, WExited, [0], [SPanic], true) /\
  fin (Some 2) [ETrySend; ETrySend; EDropH] [SPanic; SPanic]
    = Some (0, true, WExited, [0; 1], [SPanic; SPanic], true) /\
  fin None [ETrySend; ETrySend; ETrySend; EClone; EDropH; EDropH] []
    = Some (0, false, WExited, [0; 1; 2], [SOk; SOk; SOk], true).
Proof. vm_compute. repeat split; reflexivity. Qed.
