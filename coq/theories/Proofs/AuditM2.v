(* Audit items A.14 (C17), A.13 (C12), A.15 (C18): theorems about the executed roots
   Macro.run_macros / Macro.run_process (composition), Merge.conc_sink / Merge.results_of and
   Singleton.sg_search / sg_explore / source_ords.  New file; no existing file is changed. *)
Require Import Cadence.Base.Prelude.
Require Import Cadence.Model.Convert.
Require Import Cadence.Model.Wire.
Require Import Cadence.Model.Client.
Require Import Cadence.Model.Macro.
Require Import Cadence.Model.Writer.
Require Import Cadence.Model.Merge.
Require Import Cadence.Model.Singleton.
Require Import Cadence.Proofs.ClientProofs.
Require Import Cadence.Proofs.MacroProofs.
Require Import Cadence.Proofs.WriterBase.
Require Import Cadence.Proofs.WriterInv.
Require Import Cadence.Proofs.WriterRun.
Require Import Cadence.Proofs.WriterThms.
Require Import Cadence.Proofs.MergeProofs.
Require Import Cadence.Proofs.SingletonBase.
Require Import Cadence.Proofs.SingletonThms.

(* ================================================================== A.14  C17 *)

(* NEW DEFINITION (observation function, not a model function): where a process stands after
   [steps]: the holder and the part of the observed sink's script not yet consumed.  It is the
   state [run_process] threads through its recursion, made visible. *)
Fixpoint process_end (cfg other : config) (g : option (bool * config)) (script : list sink_outcome)
         (steps : list pstep) : option (bool * config) * list sink_outcome :=
  match steps with
  | [] => (g, script)
  | PSet :: r => process_end cfg other (offer g true cfg) script r
  | PSetOther :: r => process_end cfg other (offer g false other) script r
  | PInvoke inv :: r =>
    let mine := match g with Some (b, _) => b | None => true end in
    let s := run_macro (option_map snd g) inv (if mine then script else []) in
    process_end cfg other g (if mine then m_script s else script) r
  | PGet :: r => process_end cfg other g script r
  | PIsSet :: r => process_end cfg other g script r
  end.

(* a process can be cut anywhere: the observations of [a ++ b] are those of [a] followed by those
   of [b] started where [a] ended *)
Theorem process_app cfg other a : forall b g script,
  run_process cfg other g script (a ++ b) =
  run_process cfg other g script a ++
  run_process cfg other (fst (process_end cfg other g script a)) (snd (process_end cfg other g script a)) b.
Proof.
  induction a as [|st a IH]; intros b g script; [reflexivity|].
  destruct st as [| |inv| |]; cbn [app run_process process_end]; try apply IH; f_equal; apply IH.
Qed.

(* while no client has been offered the holder stays unset and no answer of the sink is consumed *)
Lemma process_end_unset cfg other steps : forall script,
  Forall (fun st => is_offer st = false) steps ->
  process_end cfg other None script steps = (None, script).
Proof.
  induction steps as [|st steps IH]; intros script F; [reflexivity|].
  inversion F as [|? ? Hst F']; subst.
  destruct st as [| |inv| |]; try discriminate; cbn [process_end option_map]; try (apply IH; exact F').
  rewrite (macro_unset inv script). cbn [m_script]. apply IH; exact F'.
Qed.

(* once a client is in the holder it stays there *)
Lemma process_end_set cfg other steps : forall b c script,
  fst (process_end cfg other (Some (b, c)) script steps) = Some (b, c).
Proof.
  induction steps as [|st steps IH]; intros b c script; [reflexivity|].
  destruct st as [| |inv| |]; cbn [process_end offer]; apply IH.
Qed.

(* the real life cycle: nothing offered during [pre], then this process's client is offered *)
Theorem process_split cfg other pre post script :
  Forall (fun st => is_offer st = false) pre ->
  run_process cfg other None script (pre ++ PSet :: post) =
  run_process cfg other None script pre ++ run_process cfg other (Some (true, cfg)) script post.
Proof.
  intros F. rewrite process_app, (process_end_unset cfg other pre script F). reflexivity.
Qed.

(* ... or somebody else's client is *)
Theorem process_split_other cfg other pre post script :
  Forall (fun st => is_offer st = false) pre ->
  run_process cfg other None script (pre ++ PSetOther :: post) =
  run_process cfg other None script pre ++ run_process cfg other (Some (false, other)) script post.
Proof.
  intros F. rewrite process_app, (process_end_unset cfg other pre script F). reflexivity.
Qed.

Definition unset_obs (o : pobs) : Prop :=
  match po_flag o with
  | Some b => b = false
  | None => po_panicked o = true /\ po_emitted o = [] /\ po_handled o = [] /\ po_evals o = []
  end.

Definition is_invocation_obs (o : pobs) : bool :=
  match po_flag o with None => true | Some _ => false end.

(* the whole life of a process that sets its own client, from the unset holder: before the set
   everything panics / reads "not set" and the sink's script is untouched; after it every read says
   "set", nothing panics, and the invocations are the reference sends on [cfg] from the FULL script *)
Theorem process_lifecycle cfg other pre post script :
  Forall (fun st => is_offer st = false) pre ->
  exists A B,
    run_process cfg other None script (pre ++ PSet :: post) = A ++ B /\
    length A = length (filter (fun st => negb (is_offer st)) pre) /\
    Forall unset_obs A /\
    Forall (fun o => match po_flag o with Some f => f = true | None => True end) B /\
    Forall2 (fun o r => po_panicked o = false /\
                        match r with
                        | Some x => po_stuck o = false /\ po_emitted o = o_emitted x /\ po_handled o = o_handled x
                        | None => po_stuck o = true
                        end)
            (filter is_invocation_obs B) (reference_sends cfg (invocations post) script).
Proof.
  intros F.
  exists (run_process cfg other None script pre), (run_process cfg other (Some (true, cfg)) script post).
  split; [now apply process_split|]. split; [|split; [|split]].
  - clear post. revert script. induction F as [|st pre Hst F IH]; intros script; [reflexivity|].
    destruct st as [| |inv| |]; try discriminate; cbn [run_process filter is_offer negb length option_map];
      f_equal; apply IH.
  - now apply process_unset.
  - apply process_reads_set.
  - apply process_mine.
Qed.

(* ... and of a process in which somebody else's client wins: the observed client never sees anything *)
Theorem process_lifecycle_other cfg other pre post script :
  Forall (fun st => is_offer st = false) pre ->
  exists A B,
    run_process cfg other None script (pre ++ PSetOther :: post) = A ++ B /\
    Forall unset_obs A /\
    Forall (fun o => po_panicked o = false /\ po_emitted o = [] /\ po_handled o = [] /\
                     match po_flag o with Some f => f = true | None => True end) B.
Proof.
  intros F.
  exists (run_process cfg other None script pre), (run_process cfg other (Some (false, other)) script post).
  split; [now apply process_split_other|]. split; [now apply process_unset|].
  pose proof (process_other cfg other other post script) as P1.
  pose proof (process_reads_set cfg other false other post script) as P2.
  rewrite Forall_forall in *. intros o Ho. specialize (P1 o Ho). specialize (P2 o Ho). tauto.
Qed.

(* the extracted root run_macros with a client set: machine by machine the reference sends *)
Theorem run_macros_reference cfg : forall invs script,
  Forall2 (fun s r => m_panicked s = false /\
                      match r with
                      | Some o => m_stuck s = false /\ m_emitted s = o_emitted o /\ m_handled s = o_handled o
                      | None => m_stuck s = true /\ m_emitted s = [] /\ m_handled s = []
                      end)
          (run_macros (Some cfg) invs script) (reference_sends cfg invs script).
Proof.
  induction invs as [|inv invs IH]; intros script; [constructor|].
  cbn [run_macros reference_sends].
  pose proof (macro_equiv cfg inv script) as M. cbv zeta in M. destruct M as (P & _ & M).
  destruct (send_call cfg Quiet (reference_call inv) script) as [[o rest]|] eqn:SC.
  - destruct M as (St & E & H & S). constructor; [repeat split; assumption|]. rewrite S. apply IH.
  - destruct M as (St & E & H & S). constructor; [repeat split; assumption|]. rewrite S. apply IH.
Qed.

(* the evaluation logs of run_macros: every invocation evaluates its arguments once, in order *)
Theorem run_macros_evals cfg : forall invs script,
  map m_evals (run_macros (Some cfg) invs script) = map (fun inv => eval_order (length (i_tags inv))) invs.
Proof.
  induction invs as [|inv invs IH]; intros script; [reflexivity|].
  cbn [run_macros map]. f_equal; [|apply IH].
  pose proof (macro_equiv cfg inv script) as M. cbv zeta in M. exact (proj1 (proj2 M)).
Qed.

(* run_macros without a client: every invocation panics at once, the script is untouched *)
Theorem run_macros_unset : forall invs script,
  run_macros None invs script =
  map (fun _ => {| m_client := None; m_call := None; m_evals := []; m_emitted := []; m_handled := [];
                   m_script := script; m_panicked := true; m_stuck := false |}) invs.
Proof.
  induction invs as [|inv invs IH]; intros script; [reflexivity|].
  cbn [run_macros map]. rewrite (macro_unset inv script). cbn [m_script]. f_equal. apply IH.
Qed.

(* run_process on a set holder of its own, invocations only, IS run_macros (the two roots agree) *)
Theorem process_is_run_macros cfg other : forall invs script,
  run_process cfg other (Some (true, cfg)) script (map PInvoke invs) =
  map (fun s => {| po_panicked := m_panicked s; po_stuck := m_stuck s; po_emitted := m_emitted s;
                   po_handled := m_handled s; po_evals := m_evals s; po_flag := None |})
      (run_macros (Some cfg) invs script).
Proof.
  induction invs as [|inv invs IH]; intros script; [reflexivity|].
  cbn [map run_process run_macros option_map snd]. f_equal. apply IH.
Qed.

(* ---- examples (C17) *)
Definition ex_cfg : config := {| c_prefix := [112]; c_tags := []; c_container := None |}%N.
Definition ex_other : config := {| c_prefix := [113]; c_tags := []; c_container := None |}%N.
Definition ex_inv (k : N) : invocation :=
  {| i_macro := StatsdCount; i_key := [k]; i_arg := AI64 1; i_tags := [] |}.

Example process_split_ex :
  let steps := [PInvoke (ex_inv 97); PIsSet; PSet; PInvoke (ex_inv 98); PSetOther; PGet; PInvoke (ex_inv 99)]%N in
  map (fun o => (po_panicked o, po_emitted o, po_handled o, po_flag o))
      (run_process ex_cfg ex_other None [Accept; Refuse 5 9]%N steps) =
  [(true, [], [], None); (false, [], [], Some false);
   (false, [[112;46;98;58;49;124;99]%N], [], None); (false, [], [], Some true);
   (false, [[112;46;99;58;49;124;99]%N], [EIo 5 9], None)].
Proof. vm_compute. reflexivity. Qed.

Example run_macros_ex :
  map (fun s => (m_emitted s, m_handled s, m_panicked s, m_stuck s))
      (run_macros (Some ex_cfg) [ex_inv 98; ex_inv 99]%N [Accept; Refuse 5 9]%N) =
  [([[112;46;98;58;49;124;99]%N], [], false, false); ([[112;46;99;58;49;124;99]%N], [EIo 5 9], false, false)] /\
  map (option_map (fun o => (o_emitted o, o_handled o)))
      (reference_sends ex_cfg [ex_inv 98; ex_inv 99]%N [Accept; Refuse 5 9]%N) =
  [Some ([[112;46;98;58;49;124;99]%N], []); Some ([[112;46;99;58;49;124;99]%N], [EIo 5 9])].
Proof. vm_compute. split; reflexivity. Qed.

(* ================================================================== A.13  C12 *)

(* what the executed root conc_sink computes: the interleaving chosen by the schedule, and the
   whole life (construction, calls, final drop) of the sequential writer on it *)
Theorem conc_sink_run co script ps sched :
  conc_sink co script ps sched =
  (merge_by sched ps,
   fst (run (match co with Some n => n | None => default_capacity end) newline script
            (map snd (merge_by sched ps))),
   snd (run (match co with Some n => n | None => default_capacity end) newline script
            (map snd (merge_by sched ps)))).
Proof.
  unfold conc_sink, run, sink_init.
  destruct (run_from _ 0 (map snd (merge_by sched ps))) as [rs s]. cbn [fst snd].
  now rewrite map_length.
Qed.

Corollary conc_sink_spec co script ps sched l rs s :
  conc_sink co script ps sched = (l, rs, s) <->
  l = merge_by sched ps /\
  run (match co with Some n => n | None => default_capacity end) newline script (map snd l) = (rs, s).
Proof.
  rewrite conc_sink_run. split.
  - intros H. inversion H; subst. split; [reflexivity|]. now destruct (run _ _ _ _).
  - intros [-> R]. now rewrite R.
Qed.

Lemma run_length c e script ops rs s : run c e script ops = (rs, s) -> length rs = length ops.
Proof.
  unfold run. destruct (run_from (init c e script) 0 ops) as [rs0 s1] eqn:R.
  intros H; inversion H; subst. now destruct (results_sound _ _ _ _ _ _ R).
Qed.

Lemma run_res_ok c e script ops rs s : run c e script ops = (rs, s) -> Forall2 res_ok ops rs.
Proof.
  unfold run. destruct (run_from (init c e script) 0 ops) as [rs0 s1] eqn:R.
  intros H; inversion H; subst. now destruct (results_sound _ _ _ _ _ _ R) as (_ & F & _).
Qed.

(* ---- results_of *)
Lemma results_of_cons t u (o : op) l x rs :
  results_of t ((u, o) :: l) (x :: rs) = if u =? t then x :: results_of t l rs else results_of t l rs.
Proof. unfold results_of. cbn [combine filter fst]. destruct (u =? t); reflexivity. Qed.

Lemma results_of_length t : forall (l : list (nat * op)) rs,
  length rs = length l -> length (results_of t l rs) = length (proj t l).
Proof.
  induction l as [|[u o] l IH]; intros [|x rs] L; try discriminate; [reflexivity|].
  rewrite results_of_cons, proj_cons. cbn in L.
  destruct (u =? t); cbn [length]; rewrite IH by lia; reflexivity.
Qed.

(* every relation that holds call by call in the interleaving holds call by call in each thread *)
Lemma results_of_forall2 (R : op -> ores -> Prop) t : forall (l : list (nat * op)) rs,
  Forall2 R (map snd l) rs -> Forall2 R (proj t l) (results_of t l rs).
Proof.
  induction l as [|[u o] l IH]; intros rs F; inversion F; subst.
  - constructor.
  - rewrite results_of_cons, proj_cons. destruct (u =? t); [constructor|]; auto.
Qed.

(* position by position: the call at position [i] of the interleaving, made by thread [t], is that
   thread's call number k = (number of t's calls before position i), and the k-th result handed to
   [t] is the i-th result of the run *)
Lemma results_of_nth t : forall (l : list (nat * op)) rs i o,
  length rs = length l -> nth_error l i = Some (t, o) ->
  nth_error (proj t l) (length (proj t (firstn i l))) = Some o /\
  nth_error (results_of t l rs) (length (proj t (firstn i l))) = nth_error rs i.
Proof.
  induction l as [|[u o'] l IH]; intros [|x rs] i o L N; try discriminate; destruct i as [|i]; try discriminate.
  - cbn in N. inversion N; subst. cbn [firstn]. rewrite results_of_cons, proj_cons, Nat.eqb_refl.
    split; reflexivity.
  - cbn in N, L. cbn [firstn]. rewrite results_of_cons, !proj_cons.
    destruct (IH rs i o ltac:(lia) N) as [A B].
    destruct (u =? t); cbn [length nth_error]; split; assumption.
Qed.

(* nothing else reaches a thread: every result handed to [t] is the result of one of its calls *)
Lemma results_of_complete t : forall (l : list (nat * op)) rs k x,
  length rs = length l -> nth_error (results_of t l rs) k = Some x ->
  exists i o, nth_error l i = Some (t, o) /\ k = length (proj t (firstn i l)) /\ nth_error rs i = Some x.
Proof.
  induction l as [|[u o'] l IH]; intros [|x' rs] k x L N; try discriminate.
  - destruct k; discriminate.
  - rewrite results_of_cons in N. cbn in L.
    destruct (Nat.eqb_spec u t) as [->|Ne].
    + destruct k as [|k]; cbn [nth_error] in N.
      * inversion N; subst. exists 0, o'. repeat split.
      * destruct (IH rs k x ltac:(lia) N) as (i & o & A & B & C).
        exists (S i), o. cbn [nth_error firstn]. rewrite proj_cons, Nat.eqb_refl. cbn [length].
        repeat split; auto.
    + destruct (IH rs k x ltac:(lia) N) as (i & o & A & B & C).
      exists (S i), o. cbn [nth_error firstn]. rewrite proj_cons.
      destruct (Nat.eqb_spec u t); [contradiction|]. repeat split; auto.
Qed.

(* the pinned form: for a complete interleaving, thread [t] gets one result per call of its program,
   the k-th being the result of its k-th call *)
Theorem results_per_thread (ps : list (list op)) l rs t :
  is_merge ps l -> length rs = length l ->
  length (results_of t l rs) = length (nth t ps []) /\
  (forall i o, nth_error l i = Some (t, o) ->
     let k := length (proj t (firstn i l)) in
     nth_error (nth t ps []) k = Some o /\ nth_error (results_of t l rs) k = nth_error rs i) /\
  (forall k x, nth_error (results_of t l rs) k = Some x ->
     exists i o, nth_error l i = Some (t, o) /\ k = length (proj t (firstn i l)) /\ nth_error rs i = Some x).
Proof.
  intros M L. rewrite <- (proj_merge _ _ M t). split; [now apply results_of_length|]. split.
  - intros i o N. cbv zeta. now apply results_of_nth.
  - intros k x N. now apply results_of_complete.
Qed.

(* ... on the executed root, any schedule (complete or not), any fault script: each thread gets one
   result per call it made, each admissible for that call (Ok with the byte length / Ok 0 for a
   flush, or an error; never a panic) *)
Theorem conc_sink_results co script ps sched l rs s t :
  conc_sink co script ps sched = (l, rs, s) ->
  length rs = length l /\
  proj t l ++ nth t (rest_by sched ps) [] = nth t ps [] /\
  Forall2 res_ok (proj t l) (results_of t l rs).
Proof.
  intros H. apply conc_sink_spec in H. destruct H as [-> R].
  pose proof (run_length _ _ _ _ _ _ R) as L. rewrite map_length in L.
  split; [exact L|]. split; [apply merge_by_proj|].
  apply results_of_forall2. exact (run_res_ok _ _ _ _ _ _ R).
Qed.

(* fault-free: every thread sees exactly Ok(length) per emit and Ok for each flush *)
Theorem conc_sink_results_ok co ps sched l rs s t :
  conc_sink co [] ps sched = (l, rs, s) ->
  results_of t l rs = map (fun o => OOk (match o with Emit m => length m | Flush => 0 end)) (proj t l).
Proof.
  intros H. apply conc_sink_spec in H. destruct H as [-> R].
  unfold run in R. destruct (run_from _ 0 _) as [rs0 s0] eqn:R0. inversion R; subst.
  pose proof (fault_free_all_ok _ _ _ _ _ R0) as F.
  apply (results_of_forall2 _ t) in F.
  induction F as [|o x a b Hx F IH]; [reflexivity|]. cbn [map]. now rewrite Hx, IH.
Qed.

(* c12_once under ANY fault script, in ledger form: for every interleaving, what was written in
   whole lines followed by what is still buffered after the drop is the list of the acknowledged
   fitting metrics, in order; what was written alone is the list of the acknowledged oversized
   ones; nothing is written twice; acknowledged metrics are emitted metrics, in order; and every
   call's result is admissible.  (Zero-length lines are outside the identity statement.) *)
Theorem once_faults (ps : list (list op)) l c e script rs s :
  is_merge ps l ->
  run c e script (map snd l) = (rs, s) ->
  length rs = length l /\
  Forall2 res_ok (map snd l) rs /\
  filter (nzb e) (sentL (lg s) ++ bids s) = filter (nzb e) (fit_ids c e (acked 0 (map snd l) rs)) /\
  sentA (lg s) = big_ids c e (acked 0 (map snd l) rs) /\
  NoDup (filter (nzb e) (sentL (lg s))) /\ NoDup (sentA (lg s)) /\
  NoDup (map fst (acked 0 (map snd l) rs)) /\
  sublist (acked 0 (map snd l) rs) (emitted 0 (map snd l)).
Proof.
  intros _ R. destruct (ledger_run _ _ _ _ _ _ R) as [L A]. destruct (no_dup_run _ _ _ _ _ _ R) as [N1 N2].
  pose proof (run_length _ _ _ _ _ _ R) as Len. rewrite map_length in Len.
  repeat split; auto using acked_nodup, acked_sublist. exact (run_res_ok _ _ _ _ _ _ R).
Qed.

(* the same on the executed root, for any schedule *)
Theorem conc_sink_once_faults co script ps sched l rs s :
  conc_sink co script ps sched = (l, rs, s) ->
  let c := match co with Some n => n | None => default_capacity end in
  l = merge_by sched ps /\
  filter (nzb newline) (sentL (lg s) ++ bids s) = filter (nzb newline) (fit_ids c newline (acked 0 (map snd l) rs)) /\
  sentA (lg s) = big_ids c newline (acked 0 (map snd l) rs) /\
  NoDup (filter (nzb newline) (sentL (lg s))) /\ NoDup (sentA (lg s)).
Proof.
  intros H. apply conc_sink_spec in H. destruct H as [E R]. cbv zeta.
  destruct (ledger_run _ _ _ _ _ _ R) as [L A]. destruct (no_dup_run _ _ _ _ _ _ R) as [N1 N2].
  repeat split; assumption.
Qed.

(* ---- example (C12): three threads, capacity 8, the second write fails *)
Example conc_sink_ex :
  let ps := [[Emit [1;1]; Emit [1;2]; Flush]; [Emit [2;1;1;1;1;1;1;1;1]; Emit [2;2]]; [Emit [3;1]]]%N in
  let sched := [0; 1; 2; 1; 0; 0; 5; 1] in
  let '(l, rs, s) := conc_sink (Some 8) [WOk; WErr 7]%N ps sched in
  (map fst l, rs, results_of 0 l rs, results_of 1 l rs, results_of 2 l rs,
   map fst (sentL (lg s)), map fst (bids s)) =
  ([0; 1; 2; 1; 0; 0], [OOk 2; OOk 9; OOk 2; OErr 7%N; OOk 2; OOk 0],
   [OOk 2; OOk 2; OOk 0], [OOk 9; OErr 7%N], [OOk 2], [0; 2; 4], []).
Proof. vm_compute. reflexivity. Qed.

(* ================================================================== A.15  C18 *)

(* the record the checker passes to the explorer is the literal record of c18_source_orderings *)
Theorem source_ords_literal :
  source_ords = {| o_cas_ok := AcqRel; o_cas_fail := Relaxed; o_store := Release; o_load := Acquire |} /\
  ord_ok source_ords = true.
Proof. split; reflexivity. Qed.

(* ---- the explorer.  The inner loop of sg_explore (a nested fix) as a top-level function;
   NEW DEFINITION used only to state the unfolding equation [sg_explore_S] (proved by reflexivity) *)
Definition sg_go (E : sg_state -> list (nat * nat) -> option (list (nat * nat)) * N)
           (os : ords) (s : sg_state) (pre : list (nat * nat)) :=
  fix go (cs : list (nat * nat)) (n : N) : option (list (nat * nat)) * N :=
    match cs with
    | [] => (None, n)
    | x :: rest =>
      let s' := sg_step os s x in
      if length (g_trace s') =? length (g_trace s) then go rest n
      else match E s' (x :: pre) with
           | (Some w, k) => (Some w, (n + k)%N)
           | (None, k) => go rest (n + k)%N
           end
    end.

Lemma sg_go_cons E os s pre x rest n :
  sg_go E os s pre (x :: rest) n =
  if length (g_trace (sg_step os s x)) =? length (g_trace s) then sg_go E os s pre rest n
  else match E (sg_step os s x) (x :: pre) with
       | (Some w, k) => (Some w, (n + k)%N)
       | (None, k) => sg_go E os s pre rest (n + k)%N
       end.
Proof. reflexivity. Qed.

Lemma sg_explore_S os f s pre :
  sg_explore os (S f) s pre =
  if g_raced s then (Some (rev pre), 1%N) else
  match sg_cands s with
  | [] => (None, 1%N)
  | cs => sg_go (sg_explore os f) os s pre cs 0%N
  end.
Proof. reflexivity. Qed.

Lemma sg_explore_0 os s pre :
  sg_explore os 0 s pre = if g_raced s then (Some (rev pre), 1%N) else (None, 1%N).
Proof. reflexivity. Qed.

Lemma go_some E os s pre : forall cs n w k,
  sg_go E os s pre cs n = (Some w, k) ->
  exists x k', In x cs /\ E (sg_step os s x) (x :: pre) = (Some w, k').
Proof.
  induction cs as [|x cs IH]; intros n w k H; [discriminate|].
  rewrite sg_go_cons in H.
  destruct (length (g_trace (sg_step os s x)) =? length (g_trace s)).
  - destruct (IH _ _ _ H) as (y & k' & I & Ey). exists y, k'. split; [now right|exact Ey].
  - destruct (E (sg_step os s x) (x :: pre)) as [[w'|] k'] eqn:Ex.
    + inversion H; subst. exists x, k'. split; [now left|exact Ex].
    + destruct (IH _ _ _ H) as (y & k'' & I & Ey). exists y, k''. split; [now right|exact Ey].
Qed.

Lemma go_none E os s pre : forall cs n,
  fst (sg_go E os s pre cs n) = None ->
  forall x, In x cs -> length (g_trace (sg_step os s x)) <> length (g_trace s) ->
  fst (E (sg_step os s x) (x :: pre)) = None.
Proof.
  induction cs as [|y cs IH]; intros n H x I En; [contradiction|].
  rewrite sg_go_cons in H.
  destruct (Nat.eqb_spec (length (g_trace (sg_step os s y))) (length (g_trace s))) as [Eq|Ne].
  - destruct I as [<-|I]; [contradiction|]. exact (IH _ H _ I En).
  - destruct (E (sg_step os s y) (y :: pre)) as [[w'|] k'] eqn:Ey; [discriminate|].
    destruct I as [<-|I]; [now rewrite Ey|]. exact (IH _ H _ I En).
Qed.

(* soundness: a witness returned by the explorer extends the path it was started on and really
   drives the machine into a state in which an access has raced *)
Lemma explore_sound os s0 : forall fuel s pre w n,
  s = fold_left (sg_step os) (rev pre) s0 ->
  sg_explore os fuel s pre = (Some w, n) ->
  g_raced (fold_left (sg_step os) w s0) = true /\ exists more, w = rev pre ++ more.
Proof.
  induction fuel as [|f IH]; intros s pre w n Hs H.
  - rewrite sg_explore_0 in H. destruct (g_raced s) eqn:G; [|discriminate].
    inversion H; subst. split; [exact G|]. exists []. now rewrite app_nil_r.
  - rewrite sg_explore_S in H. destruct (g_raced s) eqn:G.
    + inversion H; subst. split; [exact G|]. exists []. now rewrite app_nil_r.
    + assert (X : exists x k', sg_explore os f (sg_step os s x) (x :: pre) = (Some w, k')).
      { destruct (sg_cands s) as [|c cs]; [discriminate|].
        destruct (go_some _ _ _ _ _ _ _ _ H) as (x & k' & _ & Ex). eauto. }
      destruct X as (x & k' & Ex).
      destruct (IH (sg_step os s x) (x :: pre) w k') as (R & more & Em); [|exact Ex|].
      * cbn [rev]. rewrite fold_left_app. cbn [fold_left]. now rewrite <- Hs.
      * split; [exact R|]. exists (x :: more). rewrite Em. cbn [rev]. now rewrite <- app_assoc.
Qed.

(* ---- completeness needs a bound on the length of executions: every enabled step strictly
   decreases this measure (three instructions per call at most) *)
Definition thr_mu (th : sg_thr) : nat :=
  match th_pc th with
  | PIdle => 3 * length (th_calls th)
  | PWrite _ => 3 * (length (th_calls th) - 1) + 2
  | PStore => 3 * (length (th_calls th) - 1) + 1
  | PRead => 3 * (length (th_calls th) - 1) + 1
  end.
Definition thrs_mu (l : list sg_thr) : nat := fold_right (fun th n => thr_mu th + n) 0 l.
Definition sg_mu (s : sg_state) : nat := thrs_mu (g_thrs s).

Lemma thrs_mu_upd : forall l t th th',
  nth_error l t = Some th -> thr_mu th' < thr_mu th -> thrs_mu (sg_upd t th' l) < thrs_mu l.
Proof.
  induction l as [|y l IH]; intros [|t] th th' N M; cbn in N; try discriminate.
  - inversion N; subst. cbn [sg_upd thrs_mu fold_right]. lia.
  - cbn [sg_upd thrs_mu fold_right]. specialize (IH _ _ _ N M). unfold thrs_mu in IH. lia.
Qed.

Lemma sg_mu_init progs : sg_mu (sg_init progs) = 3 * sg_total_calls progs.
Proof.
  unfold sg_mu, sg_init, sg_total_calls. cbn [g_thrs].
  induction progs as [|p progs IH]; [reflexivity|].
  cbn [map thrs_mu fold_right]. unfold thrs_mu in IH. rewrite IH.
  unfold thr_mu. cbn [th_pc th_calls]. lia.
Qed.

Lemma mu_commit s t th th' msgs' op ret :
  nth_error (g_thrs s) t = Some th -> thr_mu th' < thr_mu th ->
  length (g_trace (sg_commit s t th' msgs' op ret)) = S (length (g_trace s)) /\
  sg_mu (sg_commit s t th' msgs' op ret) < sg_mu s.
Proof.
  intros N M. unfold sg_commit, sg_mu. cbn [g_trace g_thrs]. split.
  - rewrite app_length. cbn. lia.
  - eapply thrs_mu_upd; eassumption.
Qed.

Lemma mu_access s t th w v pc' calls' ret :
  nth_error (g_thrs s) t = Some th ->
  thr_mu {| th_idx := th_idx th; th_known := length (g_accs s) :: th_known th; th_pc := pc'; th_calls := calls' |}
    < thr_mu th ->
  length (g_trace (sg_access_cell s t th w v pc' calls' ret)) = S (length (g_trace s)) /\
  sg_mu (sg_access_cell s t th w v pc' calls' ret) < sg_mu s.
Proof.
  intros N M. unfold sg_access_cell, sg_mu. cbn [g_trace g_thrs]. split.
  - rewrite app_length. cbn. lia.
  - eapply thrs_mu_upd; eassumption.
Qed.

Lemma length_tl {A} (l : list A) : length (tl l) = length l - 1.
Proof. destruct l; cbn; lia. Qed.

(* a step either is disabled (state unchanged) or appends one record to the trace and decreases
   the measure *)
Lemma step_progress os s x :
  sg_step os s x = s \/
  (length (g_trace (sg_step os s x)) = S (length (g_trace s)) /\ sg_mu (sg_step os s x) < sg_mu s).
Proof.
  destruct x as [t r]. unfold sg_step.
  destruct (nth_error (g_thrs s) t) as [th|] eqn:Eth; [|now left].
  cbv zeta. set (i := rd_idx (th_idx th) (length (g_msgs s) - 1) r).
  destruct (th_pc th) eqn:Epc.
  - destruct (th_calls th) as [|c rest] eqn:Ec; [now left|].
    destruct c; (destruct (nth_error (g_msgs s) i) as [m|] eqn:Em; [|now left]).
    + destruct (mval m =? UNSET).
      * destruct (i =? length (g_msgs s) - 1); [|now left].
        right. apply (mu_commit _ _ _ _ _ _ _ Eth). unfold thr_mu. rewrite Epc, Ec. cbn [th_pc th_calls length]. lia.
      * right. apply (mu_commit _ _ _ _ _ _ _ Eth). unfold thr_mu. rewrite Epc, Ec. cbn [th_pc th_calls length]. lia.
    + right. destruct (mval m =? COMPLETE); apply (mu_commit _ _ _ _ _ _ _ Eth); unfold thr_mu;
        rewrite Epc, Ec; cbn [th_pc th_calls length]; lia.
    + right. apply (mu_commit _ _ _ _ _ _ _ Eth). unfold thr_mu. rewrite Epc, Ec. cbn [th_pc th_calls length]. lia.
  - right. apply (mu_access _ _ _ _ _ _ _ _ Eth). unfold thr_mu. rewrite Epc. cbn [th_pc th_calls]. lia.
  - right. apply (mu_commit _ _ _ _ _ _ _ Eth). unfold thr_mu. rewrite Epc. cbn [th_pc th_calls].
    rewrite length_tl. lia.
  - right. apply (mu_access _ _ _ _ _ _ _ _ Eth). unfold thr_mu. rewrite Epc. cbn [th_pc th_calls].
    rewrite length_tl. lia.
Qed.

(* the candidates of the explorer *)
Lemma cands_thr_in t n k : k < n -> In (t, k) (sg_cands_thr t n).
Proof.
  induction n as [|n IH]; intros H; [lia|]. cbn [sg_cands_thr]. apply in_or_app.
  destruct (Nat.eq_dec k n) as [->|Ne]; [right; now left|left; apply IH; lia].
Qed.

Lemma cands_from_in s : forall ths t0 t th k,
  nth_error ths t = Some th -> k < sg_nchoices s th -> In (t0 + t, k) (sg_cands_from s t0 ths).
Proof.
  induction ths as [|y ths IH]; intros t0 [|t] th k N K; cbn in N; try discriminate; cbn [sg_cands_from];
    apply in_or_app.
  - inversion N; subst. left. rewrite Nat.add_0_r. now apply cands_thr_in.
  - right. replace (t0 + S t) with (S t0 + t) by lia. eapply IH; eassumption.
Qed.

Lemma cands_in s t th k :
  nth_error (g_thrs s) t = Some th -> k < sg_nchoices s th -> In (t, k) (sg_cands s).
Proof. intros N K. unfold sg_cands. exact (cands_from_in s _ 0 t th k N K). Qed.

(* a step depends on the read choice only through the index of the message it selects *)
Lemma step_same_idx os s t th r k :
  nth_error (g_thrs s) t = Some th ->
  rd_idx (th_idx th) (length (g_msgs s) - 1) r = rd_idx (th_idx th) (length (g_msgs s) - 1) k ->
  sg_step os s (t, r) = sg_step os s (t, k).
Proof. intros Eth E. unfold sg_step. rewrite Eth. cbv zeta. rewrite E. reflexivity. Qed.

(* every enabled step is the step of some candidate: the explorer's branching is exhaustive *)
Lemma step_candidate os s t r :
  sg_step os s (t, r) <> s ->
  exists k, In (t, k) (sg_cands s) /\ sg_step os s (t, k) = sg_step os s (t, r).
Proof.
  intros H.
  destruct (nth_error (g_thrs s) t) as [th|] eqn:Eth;
    [|exfalso; apply H; unfold sg_step; now rewrite Eth].
  destruct (th_pc th) eqn:Epc.
  - set (last := length (g_msgs s) - 1). set (i := rd_idx (th_idx th) last r).
    destruct (th_calls th) as [|c rest] eqn:Ec;
      [exfalso; apply H; unfold sg_step; now rewrite Eth, Epc, Ec|].
    assert (Hi : i < length (g_msgs s)).
    { destruct (nth_error (g_msgs s) i) as [m|] eqn:Em; [apply nth_error_Some; congruence|].
      exfalso. apply H. unfold sg_step. rewrite Eth, Epc, Ec. cbv zeta. fold last. fold i.
      destruct c; now rewrite Em. }
    assert (Hlo : th_idx th <= i) by (unfold i, rd_idx; lia).
    exists (last - i). split.
    + apply (cands_in s t th); [exact Eth|]. unfold sg_nchoices. rewrite Epc, Ec. unfold last. lia.
    + symmetry. apply (step_same_idx os s t th); [exact Eth|]. fold last. fold i. unfold rd_idx. unfold last in *. lia.
  - exists 0. split; [apply (cands_in s t th); [exact Eth|]; unfold sg_nchoices; rewrite Epc; lia|].
    unfold sg_step. rewrite Eth, Epc. reflexivity.
  - exists 0. split; [apply (cands_in s t th); [exact Eth|]; unfold sg_nchoices; rewrite Epc; lia|].
    unfold sg_step. rewrite Eth, Epc. reflexivity.
  - exists 0. split; [apply (cands_in s t th); [exact Eth|]; unfold sg_nchoices; rewrite Epc; lia|].
    unfold sg_step. rewrite Eth, Epc. reflexivity.
Qed.

(* completeness: with fuel at least the measure of the state, an explorer that answers None has
   visited (up to disabled steps and equivalent read choices) every continuation: none races *)
Lemma explore_complete os : forall fuel s pre,
  sg_mu s <= fuel ->
  fst (sg_explore os fuel s pre) = None ->
  forall sched, g_raced (fold_left (sg_step os) sched s) = false.
Proof.
  induction fuel as [|f IH]; intros s pre M H sched.
  - rewrite sg_explore_0 in H. destruct (g_raced s) eqn:G; [discriminate|].
    induction sched as [|x sched IHs]; [exact G|]. cbn [fold_left].
    destruct (step_progress os s x) as [E|[_ D]]; [now rewrite E|lia].
  - rewrite sg_explore_S in H. destruct (g_raced s) eqn:G; [discriminate|].
    assert (C : forall x, In x (sg_cands s) -> length (g_trace (sg_step os s x)) <> length (g_trace s) ->
                          fst (sg_explore os f (sg_step os s x) (x :: pre)) = None).
    { destruct (sg_cands s) as [|c cs]; [intros x []|]. exact (go_none _ _ _ _ _ _ H). }
    induction sched as [|x sched IHs]; [exact G|]. cbn [fold_left].
    destruct (step_progress os s x) as [E|[L D]]; [now rewrite E|].
    destruct x as [t r].
    destruct (step_candidate os s t r) as (k & I & Ek).
    { intros E. rewrite E in L. lia. }
    rewrite <- Ek in *.
    apply (IH (sg_step os s (t, k)) ((t, k) :: pre)); [lia|].
    apply C; [exact I|lia].
Qed.

(* ---- the theorems about the root sg_search *)

(* a witness returned by sg_search really is a racy execution *)
Theorem search_sound os progs w n :
  sg_search os progs = (Some w, n) -> g_raced (sg_run os progs w) = true.
Proof.
  intros H. unfold sg_search in H.
  destruct (explore_sound os (sg_init progs) _ _ [] w n eq_refl H) as [R _]. exact R.
Qed.

(* the fuel of sg_search, 3 * (number of calls), is enough: it bounds the number of enabled steps of
   every execution (sg_mu_init, step_progress), so the answer None means that NO schedule - of any
   length, with any read choices - leads to a race *)
Theorem search_complete os progs :
  fst (sg_search os progs) = None -> forall sched, g_raced (sg_run os progs sched) = false.
Proof.
  intros H sched. unfold sg_search in H. unfold sg_run.
  apply (explore_complete os (3 * sg_total_calls progs) _ []); [|exact H]. rewrite sg_mu_init. lia.
Qed.

(* hence the explorer decides race-freedom of the given programs *)
Theorem search_decides os progs :
  (fst (sg_search os progs) = None <-> forall sched, g_raced (sg_run os progs sched) = false) /\
  (forall w, fst (sg_search os progs) = Some w -> g_raced (sg_run os progs w) = true).
Proof.
  split; [split; [apply search_complete|]|].
  - intros A. destruct (sg_search os progs) as [[w|] n] eqn:E; [|reflexivity].
    apply search_sound in E. rewrite A in E. discriminate.
  - intros w E. destruct (sg_search os progs) as [o n] eqn:S. cbn in E. subst o. exact (search_sound _ _ _ _ S).
Qed.

(* under the side condition the explorer answers None - for the right reason: by search_decides
   None is equivalent to race-freedom, which c18_race_free establishes *)
Theorem search_none os progs : ord_ok os = true -> fst (sg_search os progs) = None.
Proof.
  intros O. apply (proj1 (search_decides os progs)). intros sched.
  exact (proj1 (thm_race_free os progs sched O)).
Qed.

(* the same for the worker sg_explore with an arbitrary fuel, stated honestly: soundness needs
   nothing; completeness needs  fuel >= 3 * (number of calls) *)
Theorem explore_any_fuel os progs fuel :
  (forall w n, sg_explore os fuel (sg_init progs) [] = (Some w, n) -> g_raced (sg_run os progs w) = true) /\
  (3 * sg_total_calls progs <= fuel ->
   fst (sg_explore os fuel (sg_init progs) []) = None ->
   forall sched, g_raced (sg_run os progs sched) = false).
Proof.
  split.
  - intros w n H. exact (proj1 (explore_sound os (sg_init progs) _ _ [] w n eq_refl H)).
  - intros F H sched. unfold sg_run. apply (explore_complete os fuel _ []); [rewrite sg_mu_init; lia|exact H].
Qed.

(* the fuel condition cannot be dropped: with the store weakened to Relaxed the program
   T0: set 7, T1: get  races after five steps; an explorer with fuel 4 answers None, the fuel of
   sg_search (6) finds the race *)
Example explore_fuel_needed :
  let os := {| o_cas_ok := AcqRel; o_cas_fail := Relaxed; o_store := Relaxed; o_load := Acquire |} in
  fst (sg_explore os 4 (sg_init [[CSet 7%N]; [CGet]]) []) = None /\
  fst (sg_search os [[CSet 7%N]; [CGet]]) = Some [(0, 0); (0, 0); (0, 0); (1, 0); (1, 0)] /\
  g_raced (sg_run os [[CSet 7%N]; [CGet]] [(0, 0); (0, 0); (0, 0); (1, 0); (1, 0)]) = true.
Proof. vm_compute. repeat split; reflexivity. Qed.

Example search_none_ex :
  sg_search source_ords [[CSet 7%N; CGet]; [CGet; CIsSet]; [CSet 8%N]] = (None, 2021%N).
Proof. vm_compute. reflexivity. Qed.

(* ================================================================== assumptions *)
Print Assumptions process_app.
Print Assumptions process_split.
Print Assumptions process_split_other.
Print Assumptions process_lifecycle.
Print Assumptions process_lifecycle_other.
Print Assumptions run_macros_reference.
Print Assumptions run_macros_evals.
Print Assumptions run_macros_unset.
Print Assumptions process_is_run_macros.
Print Assumptions conc_sink_run.
Print Assumptions conc_sink_spec.
Print Assumptions results_per_thread.
Print Assumptions conc_sink_results.
Print Assumptions conc_sink_results_ok.
Print Assumptions once_faults.
Print Assumptions conc_sink_once_faults.
Print Assumptions source_ords_literal.
Print Assumptions search_sound.
Print Assumptions search_complete.
Print Assumptions search_decides.
Print Assumptions search_none.
Print Assumptions explore_any_fuel.
