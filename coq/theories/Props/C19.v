(* C19 — Buffered sinks pack datagrams greedily.

   Pinned statements about Cadence.Model.Writer, all capacities, terminators, histories
   and fault scripts: [s] is any reachable state, the emit is operation number [n]. *)
Require Import Cadence.Base.Prelude.
Require Import Cadence.Base.Greedy.
Require Import Cadence.Model.Writer.
Require Import Cadence.Proofs.WriterBase.
Require Import Cadence.Proofs.WriterInv.
Require Import Cadence.Proofs.WriterRun.
Require Import Cadence.Proofs.WriterThms.
Require Import Cadence.Proofs.WriterGreedy.
Require Import Cadence.Model.Stats.
Require Import Cadence.Model.Sock.
Require Import Cadence.Proofs.SockFF.

(* an emit writes to the socket only when it must: only if the buffered bytes plus the
   metric plus the terminator do not fit strictly; every whole-line datagram it flushes
   (other than one carrying the new metric itself) could not have taken the new metric;
   and an emit that fits strictly writes nothing and returns Ok *)
Theorem c19_must_and_maximal : forall c e script ops rs s n m x s',
  run_from (init c e script) 0 ops = (rs, s) ->
  step s n (Emit m) = (x, s') ->
  exists atts, lg s' = lg s ++ atts /\ Forall (fun a => a_op a = n) atts /\
    (atts <> [] -> c <= length (bbuf s) + length m + length e) /\
    (forall a ms, In a atts -> a_lab a = Lines ms -> ~ In (n, m) ms ->
                  c < length (a_bytes a) + length m + length e) /\
    (length (bbuf s) + length m + length e < c -> atts = [] /\ x = OOk (length m)).
Proof. exact must_write. Qed.

(* "the buffered bytes" are exactly the lines of the metrics accepted and not yet written *)
Theorem c19_buffer : forall c e script ops rs s,
  run_from (init c e script) 0 ops = (rs, s) ->
  bbuf s = concat (map (fun g => snd g ++ e) (bids s)) /\ length (bbuf s) <= c.
Proof. exact buffer_is_pending. Qed.

(* after a successful flush packing restarts from an empty buffer *)
Theorem c19_reset : forall c e script ops rs k s,
  run_from (init c e script) 0 (ops ++ [Flush]) = (rs ++ [OOk k], s) -> length rs = length ops ->
  bbuf s = [] /\ bids s = [] /\ written s = 0.
Proof.
  intros c e script ops rs k s H L. destruct (flush_point c e script ops rs k s H L) as (A & B & C & _).
  auto.
Qed.

(* in-order packing that closes a block only when the next item does not fit (which is what
   the two clauses of c19_must_and_maximal say the writer does) uses the fewest blocks of
   all in-order partitions into blocks that fit *)
Theorem c19_greedy_optimal : forall cap sizes p,
  valid_partition cap sizes p -> greedy_count cap sizes <= length p.
Proof. exact greedy_optimal. Qed.

(* the global count: in a fault-free life in which every metric fits (and no line is empty) and
   nothing is flushed explicitly, the number of datagrams carrying bytes is exactly the number of
   blocks next-fit packing opens for the line sizes, every emit is acknowledged ... *)
Theorem c19_count : forall c e (ms : list str) rs s,
  Forall (fun m => 0 < length m + length e /\ length m + length e <= c) ms ->
  run c e [] (map Emit ms) = (rs, s) ->
  length (filter (fun a => match a_bytes a with [] => false | _ => true end) (lg s)) =
    greedy_count c (map (fun m => length m + length e) ms) /\
  Forall2 (fun m x => x = OOk (length m)) ms rs.
Proof. exact datagram_count. Qed.

(* ... hence it is the minimum over ALL in-order partitions of the lines into blocks that fit *)
Theorem c19_optimal : forall c e (ms : list str) rs s p,
  Forall (fun m => 0 < length m + length e /\ length m + length e <= c) ms ->
  run c e [] (map Emit ms) = (rs, s) ->
  valid_partition c (map (fun m => length m + length e) ms) p ->
  length (filter (fun a => match a_bytes a with [] => false | _ => true end) (lg s)) <= length p.
Proof.
  intros c e ms rs s p F R V. destruct (datagram_count c e ms rs s F R) as [D _].
  unfold dcount, nonempty, line_sizes in D. rewrite D. now apply greedy_optimal.
Qed.

(* with explicit flushes the segments between them are packed independently: [segs] are the
   runs of metrics each closed by a flush, [last] the metrics after the last flush *)
Theorem c19_count_segments : forall c e (segs : list (list str)) (last : list str) rs s,
  Forall (Forall (fun m => 0 < length m + length e /\ length m + length e <= c)) segs ->
  Forall (fun m => 0 < length m + length e /\ length m + length e <= c) last ->
  run c e [] (concat (map (fun seg => map Emit seg ++ [Flush]) segs) ++ map Emit last) = (rs, s) ->
  length (filter (fun a => match a_bytes a with [] => false | _ => true end) (lg s)) =
    fold_right (fun seg a => greedy_count c (map (fun m => length m + length e) seg) + a) 0 segs
    + greedy_count c (map (fun m => length m + length e) last) /\
  Forall (fun x => exists k, x = OOk k) rs.
Proof. exact datagram_count_segments. Qed.

(* ... and so for the buffered socket sinks themselves (Sock.sc_buffered, listener present): the
   number of datagrams that carry bytes - those of the final drop included - is exactly what greedy
   packing of the lines "metric\n" needs for the sink's capacity (512 unless configured) *)
Theorem c19_socket : forall co queued (ms : list str),
  let c := match co with Some n => n | None => default_capacity end in
  Forall (fun m => length m + 1 <= c) ms ->
  length (filter (fun d => match d with [] => false | _ => true end)
                 (snd (fst (sc_buffered co queued (map SEmit ms))))) =
    greedy_count c (map (fun m => length m + 1) ms).
Proof.
  intros co queued ms c F. pose proof (sc_buffered_bytes co queued ms F) as H.
  destruct (sc_buffered co queued (map SEmit ms)) as [[rs dg] st]. cbn [fst snd]. exact (proj2 (proj2 H)).
Qed.

(* non-vacuity of the count: capacity 8, newline; sizes 4 4 | 8 | 2 (an exact fill in the middle) *)
Example c19_count_witness :
  let ms := [[1;2;3]; [4;5;6]; [7;7;7;7;7;7;7]; [9]]%N in
  (length (lg (snd (run 8 [10%N] [] (map Emit ms)))), greedy_count 8 (map (fun m => length m + 1) ms)) = (3, 3).
Proof. vm_compute. reflexivity. Qed.

(* non-vacuity *)
Example c19_witness :
  map (fun a => (a_op a, length (a_bytes a)))
      (lg (snd (run 10 [10%N] [] [Emit [1;2;3]; Emit [4;5;6]; Emit [7;7;7]; Emit [8]; Emit [9;9;9;9;9;9;9;9;9]; Emit [1]]%N)))
  = [(2, 8); (4, 6); (5, 10); (6, 2)].
Proof. vm_compute. reflexivity. Qed.

(* ==== added after the audit of 2026-10-02 (selftest/audit/REPORT-2026-10-02.md) ==== *)
Require Import Cadence.Proofs.AuditW.

(* [A.12] an explicit flush with an empty buffer (any state): no write is attempted, no outcome
   of the environment is consumed, the answer is Ok(0) *)
Theorem c19_flush_nothing_pending : forall c e script ops rs s n x s',
  run_from (init c e script) 0 ops = (rs, s) -> step s n Flush = (x, s') -> bbuf s = [] ->
  lg s' = lg s /\ x = OOk 0.
Proof. exact flush_nothing_pending_reach. Qed.

Theorem c19_flush_nothing_pending_any : forall s n x s',
  step s n Flush = (x, s') -> bbuf s = [] ->
  x = OOk 0 /\ lg s' = lg s /\ sc s' = sc s /\ bbuf s' = [] /\ bids s' = [] /\ written s' = 0.
Proof. exact flush_nothing_pending. Qed.

(* conversely, with a non-empty buffer an explicit flush always attempts a write *)
Theorem c19_flush_something_pending : forall s n x s',
  step s n Flush = (x, s') -> bbuf s <> [] -> length (lg s) < length (lg s').
Proof. exact flush_something_pending. Qed.
