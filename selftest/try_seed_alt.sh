#!/bin/bash
# Run checks against a seeded change on a scratch worktree of /repo's HEAD (never touches /repo).
# usage: try_seed_alt.sh <scratch dir> <patch> <ids...>
wt=$1; patch=$2; shift 2
[ -d $wt ] || git -C /repo worktree add -q --detach $wt HEAD
git -C $wt reset -q --hard; git -C $wt checkout -q --detach $(git -C /repo rev-parse HEAD); git -C $wt reset -q --hard; git -C $wt clean -qfd -e target
(cd $wt && (git apply $patch 2>/dev/null || git apply --3way $patch 2>/dev/null || patch -s -p1 -F3 < $patch)) || { echo "PATCH DOES NOT APPLY"; exit 1; }
(cd $wt && git diff --stat | tail -1)
for id in "$@"; do
  out=$(cd /verif && CADENCE_REPO=$wt ./check $id 2>&1 | grep -E "^(VIOLATION|OK|KNOWN|  input|  noinput)" | head -3 | cut -c1-260 | tr '\n' ' ')
  echo "  $id: $out"
done
git -C $wt checkout -q -- .; git -C $wt clean -qfd -e target
