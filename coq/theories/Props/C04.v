(* C04 — Client-wide tags and container id decorate every metric, in order.

   Pinned statements about Cadence.Model.Wire / Client: [c_tags cfg] are the client's default
   tags in the order configured, [c_container cfg] its default container id; a call is
   (kind, key, argument, builder calls [k_ops]).  Every statement is generic in the kind and
   in the argument: it holds uniformly for all seven kinds, every value type (built-in or
   user-defined) and — since every form emits the text of [client_line] — every call form.
   [op_tags ops] are the tags the builder calls add, in order; [op_container ops] the LAST
   per-call container id, if any (readings pinned by C01.c01_builder_calls).  clean /
   config_ok / call_ok: no supplied string contains ':' '|' '#' ',' '@' '\n' (see C01). *)
Require Import Cadence.Base.Prelude.
Require Import Cadence.Base.Decimal.
Require Import Cadence.Model.Convert.
Require Import Cadence.Model.Wire.
Require Import Cadence.Model.Client.
Require Import Cadence.Proofs.SplitProofs.
Require Import Cadence.Proofs.DecimalProofs.
Require Import Cadence.Proofs.WireDefs.
Require Import Cadence.Proofs.WireProofs.
Require Import Cadence.Proofs.ClientProofs.

(* the decoration part of every line, for ALL strings: after "<name>:<values>|<type>[|@<rate>]"
   comes the tag section — all default tags first, in configured order, then the call's own
   tags in the order added, key:value and bare alike; absent iff there is no tag at all —
   then the container section — the per-call id if one was given, else the default, absent
   iff neither exists — then the timestamp *)
Theorem c04_sections : forall cfg c l,
  client_line cfg c = Some (inr l) ->
  exists head tail,
    let tags := c_tags cfg ++ op_tags (k_ops c) in
    let cid := match op_container (k_ops c) with Some x => Some x | None => c_container cfg end in
    l = head
        ++ match tags with [] => [] | _ :: _ => b_pipe :: b_hash :: join b_comma (map render_tag tags) end
        ++ match cid with Some x => b_pipe :: b_c :: b_colon :: x | None => [] end
        ++ tail /\
    (exists v, to_value (k_kind c) (k_arg c) = Some (inr v) /\
       head = match c_prefix cfg with
              | [] => k_key c
              | _ :: _ => trim_end_dots (c_prefix cfg) ++ b_dot :: k_key c
              end ++ b_colon :: join b_colon (value_texts v) ++ b_pipe :: code (k_kind c)
              ++ match op_rate (k_ops c) with Some r => b_pipe :: b_at :: r | None => [] end) /\
    tail = match op_timestamp (k_ops c) with Some t => b_pipe :: b_T :: render_N t | None => [] end.
Proof.
  intros cfg c l H. destruct (shape _ _ _ H) as [v [Hv [_ Hl]]].
  exists (full_name (c_prefix cfg) (k_key c) ++ b_colon :: join b_colon (value_texts v) ++ b_pipe :: code (k_kind c)
          ++ match op_rate (k_ops c) with Some r => b_pipe :: b_at :: r | None => [] end),
         (match op_timestamp (k_ops c) with Some t => b_pipe :: b_T :: render_N t | None => [] end).
  cbv zeta. split; [|split; [exists v; split; [exact Hv|reflexivity]|reflexivity]].
  rewrite Hl. unfold wire_line, or_else.
  repeat (rewrite <- !app_assoc; cbn [app]). reflexivity.
Qed.

(* what a server reads (clean strings): the tag sequence is the default tags in configured
   order followed by the call's tags in the order added *)
Theorem c04_tags : forall cfg c l,
  config_ok cfg = true -> call_ok c = true -> client_line cfg c = Some (inr l) ->
  exists p, parse_line l = Some p /\
    p_tags p = c_tags cfg ++ op_tags (k_ops c) /\
    (forall i, i < length (c_tags cfg) -> nth_error (p_tags p) i = nth_error (c_tags cfg) i) /\
    (forall j, nth_error (p_tags p) (length (c_tags cfg) + j) = nth_error (op_tags (k_ops c)) j).
Proof.
  intros cfg c l Hcfg Hc Hl. destruct (roundtrip _ _ _ Hcfg Hc Hl) as [v [_ Hp]].
  eexists. split; [exact Hp|]. cbn [p_tags]. split; [reflexivity|]. split.
  - intros i Hi. apply nth_error_app1. exact Hi.
  - intros j. rewrite nth_error_app2 by lia. f_equal. lia.
Qed.

(* the container id a server reads: the per-call id replaces the default; without a
   per-call id it is the default; without either there is none *)
Theorem c04_container : forall cfg c l,
  config_ok cfg = true -> call_ok c = true -> client_line cfg c = Some (inr l) ->
  exists p, parse_line l = Some p /\
    p_container p = match op_container (k_ops c) with Some x => Some x | None => c_container cfg end.
Proof.
  intros cfg c l Hcfg Hc Hl. destruct (roundtrip _ _ _ Hcfg Hc Hl) as [v [_ Hp]].
  eexists. split; [exact Hp|]. reflexivity.
Qed.

(* the defaults act exactly as if the caller had made the corresponding builder calls
   himself BEFORE his own, on a client without defaults: with_tag / with_tag_value for each
   default tag in order, then with_container_id for the default container id *)
Theorem c04_defaults_as_builder_calls : forall cfg c,
  client_line cfg c =
  client_line {| c_prefix := c_prefix cfg; c_tags := []; c_container := None |}
              {| k_kind := k_kind c; k_key := k_key c; k_arg := k_arg c;
                 k_ops := map (fun t => match t with (Some k, v) => WithTag k v | (None, v) => WithTagValue v end)
                              (c_tags cfg)
                          ++ match c_container cfg with Some x => [WithContainerId x] | None => [] end
                          ++ k_ops c |}.
Proof. intros cfg c. rewrite (defaults_as_ops cfg c). unfold default_ops. rewrite <- app_assoc. reflexivity. Qed.

(* a client built without defaults adds nothing of its own: the tags are the call's tags,
   the container id is the per-call one, if any *)
Theorem c04_no_defaults : forall p c l,
  client_line {| c_prefix := p; c_tags := []; c_container := None |} c = Some (inr l) ->
  exists v, to_value (k_kind c) (k_arg c) = Some (inr v) /\
    let tags := op_tags (k_ops c) in
    l = match p with [] => k_key c | _ :: _ => trim_end_dots p ++ b_dot :: k_key c end
        ++ b_colon :: join b_colon (value_texts v) ++ b_pipe :: code (k_kind c)
        ++ match op_rate (k_ops c) with Some r => b_pipe :: b_at :: r | None => [] end
        ++ match tags with [] => [] | _ :: _ => b_pipe :: b_hash :: join b_comma (map render_tag tags) end
        ++ match op_container (k_ops c) with Some x => b_pipe :: b_c :: b_colon :: x | None => [] end
        ++ match op_timestamp (k_ops c) with Some t => b_pipe :: b_T :: render_N t | None => [] end.
Proof. exact no_defaults. Qed.

(* in particular a plain call (no builder calls) on such a client is the bare metric *)
Theorem c04_no_defaults_plain : forall p k key a l,
  client_line {| c_prefix := p; c_tags := []; c_container := None |}
              {| k_kind := k; k_key := key; k_arg := a; k_ops := [] |} = Some (inr l) ->
  exists v, to_value k a = Some (inr v) /\
    l = match p with [] => key | _ :: _ => trim_end_dots p ++ b_dot :: key end
        ++ b_colon :: join b_colon (value_texts v) ++ b_pipe :: code k.
Proof.
  intros p k key a l H. destruct (no_defaults _ _ _ H) as [v [Hv Hl]]. exists v. split; [exact Hv|].
  rewrite Hl. unfold wire_line, full_name. cbn [k_ops k_key k_kind op_rate op_tags op_container op_timestamp].
  rewrite !app_nil_r. reflexivity.
Qed.

(* the configuration is the same for every call of a sequence: what the i-th call hands to
   the sink is determined by the configuration and that call alone (a per-call container id
   or tag of an earlier call never leaks into a later one) ... *)
Theorem c04_local : forall cfg cs script os,
  send_calls cfg cs script = Some os ->
  forall i fm c o, nth_error cs i = Some (fm, c) -> nth_error os i = Some o ->
  o_emitted o = match client_line cfg c with Some (inr l) => [l] | _ => [] end.
Proof. exact send_calls_local. Qed.

(* ... indeed the whole outcome of the i-th call is that of the call alone on the same
   client, against the script left by the earlier calls *)
Theorem c04_local_outcome : forall cfg cs script os,
  send_calls cfg cs script = Some os ->
  forall i fm c, nth_error cs i = Some (fm, c) ->
  exists o, nth_error os i = Some o /\
    send_call cfg fm c (script_after cfg (firstn i cs) script)
    = Some (o, script_after cfg (firstn (S i) cs) script).
Proof. exact send_calls_nth. Qed.

(* two calls: whatever the first call did (e.g. with_container_id), a second call (with an
   accepted value) without a per-call container id carries the client's default again *)
Theorem c04_container_not_sticky : forall cfg fm1 c1 fm2 c2 script o1 o2,
  config_ok cfg = true -> call_ok c2 = true ->
  send_calls cfg [(fm1, c1); (fm2, c2)] script = Some [o1; o2] ->
  op_container (k_ops c2) = None -> accepted cfg c2 = true ->
  exists l p, o_emitted o2 = [l] /\ parse_line l = Some p /\
    p_container p = c_container cfg /\ p_tags p = c_tags cfg ++ op_tags (k_ops c2).
Proof.
  intros cfg fm1 c1 fm2 c2 script o1 o2 Hcfg Hc H Hn Hacc.
  pose proof (send_calls_local _ _ _ _ H 1 fm2 c2 o2 eq_refl eq_refl) as He.
  unfold accepted in Hacc. destruct (client_line cfg c2) as [[e|l]|] eqn:El; try discriminate.
  destruct (roundtrip _ _ _ Hcfg Hc El) as [v [_ Hp]].
  exists l. eexists. split; [exact He|]. split; [exact Hp|]. cbn [p_container p_tags]. rewrite Hn.
  split; reflexivity.
Qed.

(* ------------------------------------------------------------------ non-vacuity *)
(* defaults [x:y, z] + container "dd"; every kind with an accepted argument, one call tag and
   (for the second list) a per-call container "pp": all seven lines carry "|#x:y,z,t:u" and
   "|c:dd", resp. "|c:pp"; then the default is back *)
Example c04_witness :
  let cfg := {| c_prefix := [97]%N; c_tags := [(Some [120]%N, [121]%N); (None, [122]%N)];
                c_container := Some [100; 100]%N |} in
  let mk k a ops := {| k_kind := k; k_key := [107]%N; k_arg := a; k_ops := WithTag [116]%N [117]%N :: ops |} in
  let calls ops := [mk Counter (AI64 1) ops; mk Timer (AU64 2) ops; mk Gauge (AF64 [51; 46; 53]%N) ops;
                    mk Meter (AU64 4) ops; mk Histogram (ADur {| secs := 0; nanos := 5 |}) ops;
                    mk Distribution (AVecU64 [6; 7]%N) ops; mk SetK (AI64 (-8)) ops] in
  let view c := match client_line cfg c with
                | Some (inr l) => option_map (fun p => (p_tags p, p_container p)) (parse_line l)
                | _ => None
                end in
  map view (calls []) =
    repeat (Some ([(Some [120], [121]); (None, [122]); (Some [116], [117])], Some [100; 100]))%N 7 /\
  map view (calls [WithContainerId [112; 112]%N]) =
    repeat (Some ([(Some [120], [121]); (None, [122]); (Some [116], [117])], Some [112; 112]))%N 7 /\
  option_map (map o_emitted)
    (send_calls cfg [(Quiet, mk Counter (AI64 1) [WithContainerId [112; 112]%N]); (Plain, mk Counter (AI64 1) [])] []) =
  Some [[[97; 46; 107; 58; 49; 124; 99; 124; 35; 120; 58; 121; 44; 122; 44; 116; 58; 117; 124; 99; 58; 112; 112]];
        [[97; 46; 107; 58; 49; 124; 99; 124; 35; 120; 58; 121; 44; 122; 44; 116; 58; 117; 124; 99; 58; 100; 100]]]%N.
Proof. vm_compute. repeat split. Qed.

(* ==== added after the audit of 2026-10-02 (selftest/audit/REPORT-2026-10-02.md) ==== *)
Require Import Cadence.Proofs.AuditM1.
(* incr / decr (CountedExt) are count_with_tags(key, 1) / count_with_tags(key, -1) followed by
   the caller's builder calls: this is the reading of the two definitions of Proofs/AuditM1.v *)
Theorem c04_incr_decr_reading : forall key ops,
  incr_call key ops = {| k_kind := Counter; k_key := key; k_arg := AI64 1; k_ops := ops |} /\
  decr_call key ops = {| k_kind := Counter; k_key := key; k_arg := AI64 (-1); k_ops := ops |}.
Proof. intros key ops. split; reflexivity. Qed.

(* incr on a client with defaults (clean strings): the line exists, a server parses it, and
   reads the value 1, the counter code, the default tags first then the call's tags, the
   per-call container id if given else the default one, the rate and timestamp of the call *)
Theorem c04_incr : forall cfg key ops,
  config_ok cfg = true -> call_ok (incr_call key ops) = true ->
  exists l p, client_line cfg (incr_call key ops) = Some (inr l) /\ parse_line l = Some p /\
    p_name p = match c_prefix cfg with
               | [] => key
               | _ :: _ => trim_end_dots (c_prefix cfg) ++ b_dot :: key
               end /\
    p_values p = [render_Z 1] /\ p_values p = [[49%N]] /\ map parse_Z (p_values p) = [Some 1%Z] /\
    p_type p = code Counter /\
    p_rate p = op_rate ops /\
    p_tags p = c_tags cfg ++ op_tags ops /\
    p_container p = match op_container ops with Some x => Some x | None => c_container cfg end /\
    p_timestamp p = op_timestamp ops.
Proof. exact incr_parsed. Qed.

(* the same for decr: the value read is -1 ("-1") *)
Theorem c04_decr : forall cfg key ops,
  config_ok cfg = true -> call_ok (decr_call key ops) = true ->
  exists l p, client_line cfg (decr_call key ops) = Some (inr l) /\ parse_line l = Some p /\
    p_name p = match c_prefix cfg with
               | [] => key
               | _ :: _ => trim_end_dots (c_prefix cfg) ++ b_dot :: key
               end /\
    p_values p = [render_Z (-1)] /\ p_values p = [[45%N; 49%N]] /\ map parse_Z (p_values p) = [Some (-1)%Z] /\
    p_type p = code Counter /\
    p_rate p = op_rate ops /\
    p_tags p = c_tags cfg ++ op_tags ops /\
    p_container p = match op_container ops with Some x => Some x | None => c_container cfg end /\
    p_timestamp p = op_timestamp ops.
Proof. exact decr_parsed. Qed.

(* for ALL strings (no cleanness hypothesis): an i64 counter call — incr is z = 1, decr is
   z = -1 — is never rejected and never ill-typed, and its line is the grammar instance with
   the one value text render_Z z, the decorations in the order of C04 *)
Theorem c04_count_line : forall cfg key z ops,
  client_line cfg {| k_kind := Counter; k_key := key; k_arg := AI64 z; k_ops := ops |} =
  Some (inr (match c_prefix cfg with
             | [] => key
             | _ :: _ => trim_end_dots (c_prefix cfg) ++ b_dot :: key
             end ++ b_colon :: render_Z z ++ b_pipe :: code Counter
        ++ match op_rate ops with Some r => b_pipe :: b_at :: r | None => [] end
        ++ match c_tags cfg ++ op_tags ops with
           | [] => []
           | _ :: _ => b_pipe :: b_hash :: join b_comma (map render_tag (c_tags cfg ++ op_tags ops))
           end
        ++ match (match op_container ops with Some x => Some x | None => c_container cfg end) with
           | Some x => b_pipe :: b_c :: b_colon :: x | None => [] end
        ++ match op_timestamp ops with Some t => b_pipe :: b_T :: render_N t | None => [] end)).
Proof. exact count_call_line. Qed.

(* every call form of incr / decr hands the sink exactly that one line and consumes one sink
   outcome; an invalid-input error is impossible *)
Theorem c04_incr_decr_sent : forall cfg fm key ops script,
  (exists o l, send_call cfg fm (incr_call key ops) script = Some (o, tl script) /\
     client_line cfg (incr_call key ops) = Some (inr l) /\ o_emitted o = [l] /\
     o_ret o <> RError EInvalid /\ ~ In EInvalid (o_handled o)) /\
  (exists o l, send_call cfg fm (decr_call key ops) script = Some (o, tl script) /\
     client_line cfg (decr_call key ops) = Some (inr l) /\ o_emitted o = [l] /\
     o_ret o <> RError EInvalid /\ ~ In EInvalid (o_handled o)).
Proof.
  intros cfg fm key ops script.
  split; [exact (count_call_sent cfg fm key 1 ops script)|exact (count_call_sent cfg fm key (-1) ops script)].
Qed.

(* "a.k:1|c|#x:y,t:u|c:pp"  and  "a.k:-1|c|#x:y|c:dd" *)
Example c04_incr_decr_witness :
  let cfg := {| c_prefix := [97]%N; c_tags := [(Some [120]%N, [121]%N)]; c_container := Some [100; 100]%N |} in
  let ops := [WithTag [116]%N [117]%N; WithContainerId [112; 112]%N] in
  config_ok cfg = true /\ call_ok (incr_call [107]%N ops) = true /\ call_ok (decr_call [107]%N []) = true /\
  client_line cfg (incr_call [107]%N ops) =
    Some (inr [97; 46; 107; 58; 49; 124; 99; 124; 35; 120; 58; 121; 44; 116; 58; 117; 124; 99; 58; 112; 112]%N) /\
  client_line cfg (decr_call [107]%N []) =
    Some (inr [97; 46; 107; 58; 45; 49; 124; 99; 124; 35; 120; 58; 121; 124; 99; 58; 100; 100]%N).
Proof. exact incr_decr_witness. Qed.

(* the harness's `incr` / `decr` calls reach the model with exactly these arguments (Client.incr_arg / decr_arg are
   what the correspondence glue passes): the calls the theorems above speak about *)
Theorem c04_incr_decr_args : forall key ops,
  k_arg (incr_call key ops) = incr_arg /\ k_arg (decr_call key ops) = decr_arg /\
  k_kind (incr_call key ops) = Counter /\ k_kind (decr_call key ops) = Counter.
Proof. intros key ops. repeat split; reflexivity. Qed.
