//! `sock`: the socket-backed sinks on real local sockets (127.0.0.1 UDP, Unix datagram in a temp dir).
//!
//! case:  U  <b|n> <q0|q1> <ops>        UdpMetricSink (blocking / non-blocking socket; q1 = behind a QueuingMetricSink)
//!        US / UT, BUS / BUT           the same sinks with the destination given as "host:port" / as (host, port)
//!        X  <b|n> <q0|q1> <ops>        UnixMetricSink
//!        BU <cap|d> <q0|q1> <ops>      BufferedUdpMetricSink (d = default capacity)
//!        BX <cap|d> <q0|q1> <ops>      BufferedUnixMetricSink
//!        UA <naddrs> <ops>             UdpMetricSink::from(&[SocketAddr][..]) with 0, 1 or 2 addresses
//!        XS - q0 <ops> / BXS <cap|d> q0 <ops>   Unix sinks given a SYMLINK path; op `m` re-points the link to a second listener
//!        XN - q0 <ops> / BXN <cap|d> q0 <ops>   Unix sinks given a path that is not valid UTF-8; a second listener sits at the lossy name
//!                                      (observation: D = first listener's datagrams then the second's, |P:<how many at the first>)
//!        ST <threads> <updates>        SocketStats::update hammered from several threads
//!        UC <threads> <emits>          one UdpMetricSink shared by several emitting threads
//!        SU <updates>                  SocketStats::update called with explicit results: comma list of
//!                                      k<written>/<len> (Ok(written)) | e<kind>/<len> (Err of io::ErrorKind number <kind>)
//!        XW <u|cap> <emits> <len>      Unix sink (u = unbuffered, else buffered with that capacity) on a NON-BLOCKING socket
//!                                      whose listener never reads during the case: sends fail with WouldBlock once the
//!                                      listener's queue is full.  Observation has |A:<underlying send attempts> (hook H2)
//!        UR <u|cap|d> <emits> <len>    UDP sink given a socket CONNECTED to a closed loopback port: the OS answers sends with
//!                                      ECONNREFUSED (reported on the send after the one that bounced).  After the emits a
//!                                      listener is bound to the port and the sink is flushed twice.
//!                                      Observation: R|F:<two flush results>|D:<datagrams received after that>|S|A
//!        XL <u|cap|d> <emits> <len> <long|nul>   Unix sink whose destination path cannot be turned into a socket address
//!                                      (120 bytes long, or containing a NUL): every send is refused before it reaches the OS.
//!                                      Observation: R|S|A as for XW (no datagrams)
//!   ops = comma list of E<hex> (emit) | F (flush) | l (listener down: Unix only) | L (listener up again)
//!         | s (read MetricSink::stats(); the figures go to |T:<stats>;..  - not part of the model's observation)
//! observation:  R:<per op: k<n> | e | - >|D:<datagrams received, hex, in order>|S:<bytes_sent>.<packets_sent>.<bytes_dropped>.<packets_dropped>
//!               |N:<per op: datagrams received so far>   (not part of the model's observation)
//!   (stats are read after the last op and before the sink is dropped; for q1 through the queuing sink)
use crate::util::{hex, unhex};
use cadence::ext::SocketStats;
use cadence::{
    BufferedUdpMetricSink, BufferedUnixMetricSink, MetricSink, QueuingMetricSink, SinkStats, UdpMetricSink,
    UnixMetricSink,
};
use std::net::{SocketAddr, UdpSocket};
use std::os::unix::ffi::OsStrExt;
use std::os::unix::net::UnixDatagram;
use std::panic::RefUnwindSafe;
use std::path::PathBuf;
use std::sync::atomic::{AtomicU64, Ordering};
use std::sync::Arc;
use std::thread;
use std::time::{Duration, Instant};

static COUNTER: AtomicU64 = AtomicU64::new(0);

fn temp_path() -> PathBuf {
    let n = COUNTER.fetch_add(1, Ordering::Relaxed);
    let base = std::env::var("VERIF_TMP").unwrap_or_else(|_| "/tmp".to_string());
    PathBuf::from(format!("{}/cadence-verif-{}-{}.sock", base, std::process::id(), n))
}

fn stats_str(s: &SinkStats) -> String {
    format!("{}.{}.{}.{}", s.bytes_sent, s.packets_sent, s.bytes_dropped, s.packets_dropped)
}

enum Recv {
    Udp(UdpSocket),
    Unix(Option<UnixDatagram>, PathBuf),
}

impl Recv {
    fn drain(&self, out: &mut Vec<Vec<u8>>, quiet_ms: u64) {
        let mut buf = vec![0u8; 300_000];
        let mut last = Instant::now();
        loop {
            let r = match self {
                Recv::Udp(s) => s.recv(&mut buf).ok(),
                Recv::Unix(Some(s), _) => s.recv(&mut buf).ok(),
                Recv::Unix(None, _) => None,
            };
            match r {
                Some(n) => {
                    out.push(buf[..n].to_vec());
                    last = Instant::now();
                }
                None => {
                    if last.elapsed() > Duration::from_millis(quiet_ms) {
                        break;
                    }
                    thread::sleep(Duration::from_millis(1));
                }
            }
        }
    }
}

enum AnySink {
    Plain(Box<dyn MetricSink + Send + Sync + RefUnwindSafe>),
    Queued(QueuingMetricSink),
}

impl AnySink {
    fn wrap<T: MetricSink + Send + Sync + RefUnwindSafe + 'static>(s: T, queued: bool) -> AnySink {
        if queued {
            AnySink::Queued(QueuingMetricSink::from(s))
        } else {
            AnySink::Plain(Box::new(s))
        }
    }
    fn emit(&self, m: &str) -> std::io::Result<usize> {
        match self {
            AnySink::Plain(s) => s.emit(m),
            AnySink::Queued(q) => {
                // the queuing sink answers for the queue; the wrapped sink's result is observed through its stats
                let r = q.emit(m);
                let t0 = Instant::now();
                while q.drained() < q.submitted() && t0.elapsed() < Duration::from_secs(10) {
                    thread::yield_now();
                }
                // wait until the worker is back in recv (the wrapped emit returned and updated its statistics): every
                // other thread of the process asleep, seen twice in a row - not a fixed time, which fails under load
                let t1 = Instant::now();
                let mut calm = 0;
                while calm < 2 && t1.elapsed() < Duration::from_secs(3) {
                    if crate::queue::others_asleep() {
                        calm += 1;
                    } else {
                        calm = 0;
                    }
                    thread::sleep(Duration::from_micros(150));
                }
                r
            }
        }
    }
    fn flush(&self) -> std::io::Result<()> {
        match self {
            AnySink::Plain(s) => s.flush(),
            AnySink::Queued(q) => q.flush(),
        }
    }
    fn stats(&self) -> SinkStats {
        match self {
            AnySink::Plain(s) => s.stats(),
            AnySink::Queued(q) => q.stats(),
        }
    }
}

fn run_ops(sink: AnySink, recv: &mut Recv, ops: &str, queued: bool) -> String {
    let mut res = vec![];
    let mut got: Vec<Vec<u8>> = vec![];
    let mut seen: Vec<String> = vec![];      // datagrams received so far, after each op
    let mut samples: Vec<String> = vec![];   // statistics read by the `s` ops
    for op in ops.split(',') {
        if op == "-" {
            continue;
        }
        match &op[..1] {
            "E" => {
                let m = String::from_utf8(unhex(&op[1..])).expect("utf8");
                let r = sink.emit(&m);
                res.push(match r {
                    Ok(n) => format!("k{}", n),
                    Err(_) => "e".to_string(),
                });
                // keep the receive queue short so that the OS never drops anything
                recv.drain(&mut got, 0);
            }
            "P" => {
                // the emit is made by a destructor that runs while its thread unwinds from a panic (a scope guard reporting
                // "request finished"): an emit like any other
                let m = String::from_utf8(unhex(&op[1..])).expect("utf8");
                let out: std::sync::Mutex<Option<std::io::Result<usize>>> = std::sync::Mutex::new(None);
                struct Guard<'a>(&'a AnySink, &'a str, &'a std::sync::Mutex<Option<std::io::Result<usize>>>);
                impl<'a> Drop for Guard<'a> {
                    fn drop(&mut self) {
                        *self.2.lock().unwrap() = Some(self.0.emit(self.1));
                    }
                }
                std::thread::scope(|sc| {
                    let (sink, m, out) = (&sink, m.as_str(), &out);
                    let h = sc.spawn(move || {
                        let _g = Guard(sink, m, out);
                        panic!("unwinding with a metrics guard alive");
                    });
                    let _ = h.join();
                });
                let r = out.lock().unwrap().take();
                res.push(match r {
                    Some(Ok(n)) => format!("k{}", n),
                    Some(Err(_)) => "e".to_string(),
                    None => "e?".to_string(),
                });
                recv.drain(&mut got, 0);
            }
            "F" => {
                res.push(match sink.flush() {
                    Ok(()) => "k0".to_string(),
                    Err(_) => "e".to_string(),
                });
                recv.drain(&mut got, 0);
            }
            "s" => {
                // reading the statistics in the middle of a history: it must change nothing
                samples.push(stats_str(&sink.stats()));
                res.push("-".to_string());
                recv.drain(&mut got, 0);
            }
            "l" | "c" => {
                // l: the listener goes away with its socket file (sends fail with ENOENT); c: it closes its socket but the
                // file stays (sends fail with ECONNREFUSED) - an outage either way
                if let Recv::Unix(s, p) = recv {
                    // take what already arrived, then go away
                    if let Some(sock) = s.as_ref() {
                        let mut buf = vec![0u8; 300_000];
                        while let Ok(n) = sock.recv(&mut buf) {
                            got.push(buf[..n].to_vec());
                        }
                    }
                    *s = None;
                    if op == "l" {
                        let _ = std::fs::remove_file(&p);
                    }
                }
                res.push("-".to_string());
            }
            "L" => {
                if let Recv::Unix(s, p) = recv {
                    if s.is_none() {
                        let _ = std::fs::remove_file(&p);
                        let sock = UnixDatagram::bind(&p).expect("rebind");
                        sock.set_nonblocking(true).unwrap();
                        *s = Some(sock);
                    }
                }
                res.push("-".to_string());
            }
            _ => panic!("bad op {}", op),
        }
        seen.push(got.len().to_string());
    }
    let st = sink.stats();
    drop(sink);
    if queued {
        // the last handle is gone: the worker takes the stop marker, drops the wrapped sink (whose Drop flushes what
        // is buffered) and exits.  Wait until every other thread is asleep or gone - not a fixed time
        let t1 = Instant::now();
        let mut calm = 0;
        while calm < 3 && t1.elapsed() < Duration::from_secs(5) {
            if crate::queue::others_asleep() {
                calm += 1;
            } else {
                calm = 0;
            }
            thread::sleep(Duration::from_micros(300));
        }
    }
    recv.drain(&mut got, 30);
    if let Recv::Unix(_, p) = recv {
        let _ = std::fs::remove_file(&p);
    }
    format!(
        "R:{}|D:{}|S:{}|N:{}{}",
        res.join(","),
        got.iter().map(|d| hex(d)).collect::<Vec<_>>().join(";"),
        stats_str(&st),
        seen.join(","),
        if samples.is_empty() { String::new() } else { format!("|T:{}", samples.join(";")) }
    )
}

fn udp_pair(nonblocking: bool) -> (UdpSocket, UdpSocket, SocketAddr) {
    let recv = UdpSocket::bind("127.0.0.1:0").expect("bind");
    recv.set_nonblocking(true).unwrap();
    let addr = recv.local_addr().unwrap();
    let send = UdpSocket::bind("127.0.0.1:0").expect("bind");
    if nonblocking {
        send.set_nonblocking(true).unwrap();
    }
    (recv, send, addr)
}

fn unix_pair(nonblocking: bool) -> (UnixDatagram, UnixDatagram, PathBuf) {
    let p = temp_path();
    let _ = std::fs::remove_file(&p);
    let recv = UnixDatagram::bind(&p).expect("bind unix");
    recv.set_nonblocking(true).unwrap();
    let send = UnixDatagram::unbound().expect("unbound");
    if nonblocking {
        send.set_nonblocking(true).unwrap();
    }
    (recv, send, p)
}

const KINDS: [std::io::ErrorKind; 20] = [
    std::io::ErrorKind::NotFound,
    std::io::ErrorKind::PermissionDenied,
    std::io::ErrorKind::ConnectionRefused,
    std::io::ErrorKind::ConnectionReset,
    std::io::ErrorKind::ConnectionAborted,
    std::io::ErrorKind::NotConnected,
    std::io::ErrorKind::AddrInUse,
    std::io::ErrorKind::AddrNotAvailable,
    std::io::ErrorKind::BrokenPipe,
    std::io::ErrorKind::AlreadyExists,
    std::io::ErrorKind::WouldBlock,
    std::io::ErrorKind::InvalidInput,
    std::io::ErrorKind::InvalidData,
    std::io::ErrorKind::TimedOut,
    std::io::ErrorKind::WriteZero,
    std::io::ErrorKind::Interrupted,
    std::io::ErrorKind::Unsupported,
    std::io::ErrorKind::UnexpectedEof,
    std::io::ErrorKind::OutOfMemory,
    std::io::ErrorKind::Other,
];

fn kind_of(n: usize) -> std::io::ErrorKind {
    KINDS[n % KINDS.len()]
}

fn kind_no(k: std::io::ErrorKind) -> usize {
    KINDS.iter().position(|x| *x == k).unwrap_or(99)
}

fn cap_of(s: &str) -> Option<usize> {
    if s == "d" {
        None
    } else {
        Some(s.parse().unwrap())
    }
}

pub fn run_case(line: &str) -> String {
    let t: Vec<&str> = line.split_whitespace().collect();
    match t[0] {
        "U" | "US" | "UT" => {
            // the destination given as a SocketAddr, as a "host:port" string, or as a (host, port) pair
            let (recv, send, addr) = udp_pair(t[1] == "n");
            let sink = match t[0] {
                "US" => UdpMetricSink::from(format!("127.0.0.1:{}", addr.port()).as_str(), send),
                "UT" => UdpMetricSink::from(("127.0.0.1", addr.port()), send),
                _ => UdpMetricSink::from(addr, send),
            }
            .expect("sink");
            run_ops(AnySink::wrap(sink, t[2] == "q1"), &mut Recv::Udp(recv), t[3], t[2] == "q1")
        }
        "X" => {
            let (recv, send, p) = unix_pair(t[1] == "n");
            let sink = UnixMetricSink::from(&p, send);
            run_ops(AnySink::wrap(sink, t[2] == "q1"), &mut Recv::Unix(Some(recv), p), t[3], t[2] == "q1")
        }
        "BU" | "BUS" | "BUT" => {
            let (recv, send, addr) = udp_pair(false);
            let host = format!("127.0.0.1:{}", addr.port());
            let sink = match (t[0], cap_of(t[1])) {
                ("BUS", None) => BufferedUdpMetricSink::from(host.as_str(), send),
                ("BUS", Some(c)) => BufferedUdpMetricSink::with_capacity(host.as_str(), send, c),
                ("BUT", None) => BufferedUdpMetricSink::from(("127.0.0.1", addr.port()), send),
                ("BUT", Some(c)) => BufferedUdpMetricSink::with_capacity(("127.0.0.1", addr.port()), send, c),
                (_, None) => BufferedUdpMetricSink::from(addr, send),
                (_, Some(c)) => BufferedUdpMetricSink::with_capacity(addr, send, c),
            }
            .expect("sink");
            run_ops(AnySink::wrap(sink, t[2] == "q1"), &mut Recv::Udp(recv), t[3], t[2] == "q1")
        }
        "BX" => {
            let (recv, send, p) = unix_pair(false);
            let sink = match cap_of(t[1]) {
                None => BufferedUnixMetricSink::from(&p, send),
                Some(c) => BufferedUnixMetricSink::with_capacity(&p, send, c),
            };
            run_ops(AnySink::wrap(sink, t[2] == "q1"), &mut Recv::Unix(Some(recv), p), t[3], t[2] == "q1")
        }
        "UA" => {
            let n: usize = t[1].parse().unwrap();
            let (r1, send, a1) = udp_pair(false);
            let (r2, _s2, a2) = udp_pair(false);
            let addrs: Vec<SocketAddr> = [a1, a2][..n.min(2)].to_vec();
            match UdpMetricSink::from(&addrs[..], send) {
                Err(e) => format!("ctor:{}", if e.kind() == cadence::ErrorKind::InvalidInput { "inv" } else { "io" }),
                Ok(sink) => {
                    let o = run_ops(AnySink::wrap(sink, false), &mut Recv::Udp(r1), t[2], false);
                    let mut other = vec![];
                    Recv::Udp(r2).drain(&mut other, 20);
                    format!("{}|D2:{}", o, other.len())
                }
            }
        }
        // UA6 <u|cap>: the address list is [an IPv6 loopback listener, an IPv4 loopback listener] and the sending socket is
        // an IPv6 one: the first resolved address is the IPv6 one, whatever family comes later.
        // observation: first:<datagrams at the first listener, hex>|second:<count at the second>|R:<results>  or noipv6
        // UE: an address argument that resolves to NO address (an empty slice) through the three UDP constructors: an
        // invalid-input error each time, never a panic
        "UE" => {
            let empty: Vec<SocketAddr> = vec![];
            let mut out = vec![];
            for k in 0..3 {
                let sock = UdpSocket::bind("127.0.0.1:0").expect("bind");
                let e2 = empty.clone();
                let r = crate::util::catch(move || match k {
                    0 => UdpMetricSink::from(&e2[..], sock).map(|_| ()),
                    1 => BufferedUdpMetricSink::from(&e2[..], sock).map(|_| ()),
                    _ => BufferedUdpMetricSink::with_capacity(&e2[..], sock, 64).map(|_| ()),
                });
                out.push(match r {
                    Err(_) => "panic".to_string(),
                    Ok(Ok(())) => "ok".to_string(),
                    Ok(Err(e)) => (if e.kind() == cadence::ErrorKind::InvalidInput { "inv" } else { "io" }).to_string(),
                });
            }
            format!("ctor:{}", out.join(","))
        }
        "UA6" | "UA4" | "UK" => {
            // UK: both listeners are IPv4; the sending socket handed to the sink is already CONNECTED to the second one, the
            // sink is constructed with the address of the first: datagrams go to the address given at construction
            let r1 = match UdpSocket::bind(if t[0] == "UK" { "127.0.0.1:0" } else { "[::1]:0" }) {
                Ok(s) => s,
                Err(_) => return "noipv6".to_string(),
            };
            r1.set_nonblocking(true).unwrap();
            let r2 = UdpSocket::bind("127.0.0.1:0").expect("bind");
            r2.set_nonblocking(true).unwrap();
            // UA6: the sender is a dual-stack socket (both addresses reachable); UA4: the sender is an IPv4 socket, which
            // cannot reach the first (IPv6) address of the list: every send is refused at once - and that is the answer,
            // the second address is not a fallback
            let send = match UdpSocket::bind(if t[0] == "UA6" { "[::]:0" } else { "127.0.0.1:0" }) {
                Ok(s) => s,
                Err(_) => return "noipv6".to_string(),
            };
            let addrs: Vec<SocketAddr> = if t[0] == "UK" {
                send.connect(r2.local_addr().unwrap()).expect("connect");
                vec![r1.local_addr().unwrap()]
            } else {
                vec![r1.local_addr().unwrap(), r2.local_addr().unwrap()]
            };
            let sink: Box<dyn MetricSink + Send + Sync + RefUnwindSafe> = if t[1] == "u" {
                match UdpMetricSink::from(&addrs[..], send) {
                    Ok(s) => Box::new(s),
                    Err(_) => return "ctor:err".to_string(),
                }
            } else {
                match BufferedUdpMetricSink::with_capacity(&addrs[..], send, t[1].parse().unwrap()) {
                    Ok(s) => Box::new(s),
                    Err(_) => return "ctor:err".to_string(),
                }
            };
            let mut res = vec![];
            for m in ["six:1|c", "z\u{f6}lf:12|ms"] {
                res.push(match sink.emit(m) {
                    Ok(k) => format!("k{}", k),
                    Err(_) => "e".to_string(),
                });
            }
            res.push(match sink.flush() {
                Ok(()) => "k0".to_string(),
                Err(_) => "e".to_string(),
            });
            let st = sink.stats();
            drop(sink);
            let (mut first, mut second) = (vec![], vec![]);
            Recv::Udp(r1).drain(&mut first, 30);
            Recv::Udp(r2).drain(&mut second, 10);
            format!(
                "first:{}|second:{}|R:{}|S:{}",
                first.iter().map(|d| hex(d)).collect::<Vec<_>>().join(";"),
                second.len(),
                res.join(","),
                stats_str(&st)
            )
        }
        // UO <u|cap>: a small metric, one of 70 000 bytes (more than a UDP datagram can carry: the OS refuses the send),
        // a small one, flush.  observation: R|S|A  (A = underlying send attempts for the buffered sink)
        // UO6 <len>: one metric of <len> bytes (above the IPv4 datagram limit of 65507, within the IPv6 one of 65527)
        // through the UNBUFFERED UDP sink to an IPv6 loopback listener: one datagram, exactly those bytes, Ok(len)
        "UO6" => {
            let r = match UdpSocket::bind("[::1]:0") {
                Ok(s) => s,
                Err(_) => return "noipv6".to_string(),
            };
            r.set_nonblocking(true).unwrap();
            let send = match UdpSocket::bind("[::1]:0") {
                Ok(s) => s,
                Err(_) => return "noipv6".to_string(),
            };
            let len: usize = t[1].parse().unwrap();
            let m = format!("six.big:{}|c", "7".repeat(len.saturating_sub(10)));
            // control: does the OS carry a datagram of this size to this listener from a plain std socket?
            let ctl = UdpSocket::bind("[::1]:0").and_then(|c| c.send_to(m.as_bytes(), r.local_addr().unwrap())).is_ok();
            let mut pre = vec![];
            Recv::Udp(r.try_clone().expect("clone")).drain(&mut pre, 30);
            let sink = UdpMetricSink::from(r.local_addr().unwrap(), send).expect("sink");
            let res = match sink.emit(&m) {
                Ok(k) => format!("k{}", k),
                Err(_) => "e".to_string(),
            };
            let st = sink.stats();
            drop(sink);
            let mut got = vec![];
            Recv::Udp(r).drain(&mut got, 30);
            let whole = got.len() == 1 && got[0] == m.as_bytes();
            format!("R:{}|L:{}|D:{}|W:{}|S:{}|C:{}", res, m.len(), got.len(), whole as u8, stats_str(&st), if ctl && pre.len() == 1 { "k" } else { "e" })
        }
        "UO" => {
            let (recv, send, addr) = udp_pair(false);
            let attempts = Arc::new(AtomicU64::new(0));
            let a2 = attempts.clone();
            cadence::verif::install(Arc::new(move |site| {
                if site == "sink.write" {
                    a2.fetch_add(1, Ordering::SeqCst);
                }
            }));
            let sink: Box<dyn MetricSink + Send + Sync + RefUnwindSafe> = if t[1] == "u" {
                Box::new(UdpMetricSink::from(addr, send).expect("sink"))
            } else {
                Box::new(BufferedUdpMetricSink::with_capacity(addr, send, t[1].parse().unwrap()).expect("sink"))
            };
            let big = format!("big:{}|c", "9".repeat(70_000));
            let mut res = vec![];
            for m in ["a:1|c", big.as_str(), "b:2|c"] {
                res.push(match sink.emit(m) {
                    Ok(k) => format!("k{}", k),
                    Err(_) => "e".to_string(),
                });
            }
            res.push(match sink.flush() {
                Ok(()) => "k0".to_string(),
                Err(_) => "e".to_string(),
            });
            let st = sink.stats();
            let att = attempts.load(Ordering::SeqCst);
            drop(sink);
            cadence::verif::uninstall();
            let mut got = vec![];
            Recv::Udp(recv).drain(&mut got, 20);
            format!(
                "R:{}|D:{}|S:{}|A:{}",
                res.join(","),
                got.iter().map(|d| hex(d)).collect::<Vec<_>>().join(";"),
                stats_str(&st),
                att
            )
        }
        "ST" => {
            let threads: usize = t[1].parse().unwrap();
            let n: u64 = t[2].parse().unwrap();
            let stats = SocketStats::default();
            let mut hs = vec![];
            for th in 0..threads {
                let s = stats.clone();
                hs.push(thread::spawn(move || {
                    for i in 0..n {
                        let len = ((i * 7 + th as u64) % 100) as usize;
                        if i % 3 == 0 {
                            let _ = s.update(Err(std::io::Error::from(std::io::ErrorKind::Other)), len);
                        } else {
                            let _ = s.update(Ok(len), len);
                        }
                    }
                }));
            }
            for h in hs {
                h.join().unwrap();
            }
            let got: SinkStats = (&stats).into();
            let (mut bs, mut ps, mut bd, mut pd) = (0u64, 0u64, 0u64, 0u64);
            for th in 0..threads {
                for i in 0..n {
                    let len = (i * 7 + th as u64) % 100;
                    if i % 3 == 0 {
                        bd += len;
                        pd += 1;
                    } else {
                        bs += len;
                        ps += 1;
                    }
                }
            }
            format!("S:{}|W:{}.{}.{}.{}", stats_str(&got), bs, ps, bd, pd)
        }
        "XS" | "BXS" | "XN" | "BXN" => {
            // XN / BXN: no link; the path given to the sink has a file name that is not valid UTF-8 (Linux paths are bytes),
            // and a second listener is bound at the name a lossy conversion to a string would produce
            let nonutf = t[0].ends_with('N');
            // the path given to the sink is a symbolic link that is re-pointed (atomically) to another listener by op `m`:
            // the sink must follow the path it was given, not what the path resolved to when it was built
            let n = COUNTER.fetch_add(1, Ordering::Relaxed);
            let base = std::env::var("VERIF_TMP").unwrap_or_else(|_| "/tmp".to_string());
            let dir = PathBuf::from(format!("{}/cadence-verif-ln-{}-{}", base, std::process::id(), n));
            let _ = std::fs::remove_dir_all(&dir);
            std::fs::create_dir_all(&dir).expect("mkdir");
            let (pa, pb, pl) = if nonutf {
                use std::os::unix::ffi::OsStrExt;
                let raw = std::ffi::OsStr::from_bytes(b"s\xff\xfe.sock");
                let pa = dir.join(raw);
                let pb = dir.join(raw.to_string_lossy().as_ref());
                (pa.clone(), pb, pa)
            } else {
                (dir.join("a.sock"), dir.join("b.sock"), dir.join("l.sock"))
            };
            let ra = UnixDatagram::bind(&pa).expect("bind a");
            let rb = UnixDatagram::bind(&pb).expect("bind b");
            ra.set_nonblocking(true).unwrap();
            rb.set_nonblocking(true).unwrap();
            if !nonutf {
                std::os::unix::fs::symlink(&pa, &pl).expect("symlink");
            }
            let send = UnixDatagram::unbound().expect("unbound");
            let sink: Box<dyn MetricSink + Send + Sync + RefUnwindSafe> = if t[0] == "XS" || t[0] == "XN" {
                Box::new(UnixMetricSink::from(&pl, send))
            } else {
                match cap_of(t[1]) {
                    None => Box::new(BufferedUnixMetricSink::from(&pl, send)),
                    Some(c) => Box::new(BufferedUnixMetricSink::with_capacity(&pl, send, c)),
                }
            };
            let mut res = vec![];
            let (mut ga, mut gb): (Vec<Vec<u8>>, Vec<Vec<u8>>) = (vec![], vec![]);
            let mut seen = vec![];
            let mut buf = vec![0u8; 70_000];
            let mut pull = |ga: &mut Vec<Vec<u8>>, gb: &mut Vec<Vec<u8>>| {
                while let Ok(k) = ra.recv(&mut buf) {
                    ga.push(buf[..k].to_vec());
                }
                while let Ok(k) = rb.recv(&mut buf) {
                    gb.push(buf[..k].to_vec());
                }
            };
            for op in t[3].split(',') {
                match &op[..1] {
                    "E" => {
                        let m = String::from_utf8(unhex(&op[1..])).expect("utf8");
                        res.push(match sink.emit(&m) {
                            Ok(k) => format!("k{}", k),
                            Err(_) => "e".to_string(),
                        });
                    }
                    "F" => res.push(match sink.flush() {
                        Ok(()) => "k0".to_string(),
                        Err(_) => "e".to_string(),
                    }),
                    "m" => {
                        let tmp = dir.join("l.tmp");
                        let _ = std::fs::remove_file(&tmp);
                        std::os::unix::fs::symlink(&pb, &tmp).expect("symlink b");
                        std::fs::rename(&tmp, &pl).expect("rename");
                        res.push("-".to_string());
                    }
                    _ => panic!("bad op {}", op),
                }
                pull(&mut ga, &mut gb);
                seen.push((ga.len() + gb.len()).to_string());
            }
            let st = sink.stats();
            drop(sink);
            pull(&mut ga, &mut gb);
            let _ = std::fs::remove_dir_all(&dir);
            let at_a = ga.len();
            ga.extend(gb);
            format!(
                "R:{}|D:{}|S:{}|N:{}|P:{}",
                res.join(","),
                ga.iter().map(|d| hex(d)).collect::<Vec<_>>().join(";"),
                stats_str(&st),
                seen.join(","),
                at_a
            )
        }
        "SU" => {
            let stats = SocketStats::default();
            let mut res = vec![];
            for u in t[1].split(',') {
                // the four public incrementers called directly (ibs<n> ips ibd<n> ipd): what update() is made of
                if let Some(w) = u.strip_prefix('i') {
                    match &w[..2] {
                        "bs" => stats.incr_bytes_sent(w[2..].parse().unwrap()),
                        "ps" => stats.incr_packets_sent(),
                        "bd" => stats.incr_bytes_dropped(w[2..].parse().unwrap()),
                        "pd" => stats.incr_packets_dropped(),
                        _ => panic!("bad increment {}", u),
                    }
                    res.push("-".to_string());
                    continue;
                }
                let (r, len) = u.split_once('/').unwrap();
                let len: usize = len.parse().unwrap();
                let arg: std::io::Result<usize> = if let Some(w) = r.strip_prefix('k') {
                    Ok(w.parse().unwrap())
                } else {
                    Err(std::io::Error::from(kind_of(r[1..].parse().unwrap())))
                };
                res.push(match stats.update(arg, len) {
                    Ok(n) => format!("k{}", n),
                    Err(e) => format!("e{}", kind_no(e.kind())),
                });
            }
            let got: SinkStats = (&stats).into();
            format!("R:{}|S:{}", res.join(","), stats_str(&got))
        }
        "XW" => {
            let n: usize = t[2].parse().unwrap();
            let len: usize = t[3].parse().unwrap();
            let (recv, send, p) = unix_pair(true);
            let attempts = Arc::new(AtomicU64::new(0));
            let a2 = attempts.clone();
            cadence::verif::install(Arc::new(move |site| {
                if site == "sink.write" {
                    a2.fetch_add(1, Ordering::SeqCst);
                }
            }));
            let sink: Box<dyn MetricSink + Send + Sync + RefUnwindSafe> = if t[1] == "u" {
                Box::new(UnixMetricSink::from(&p, send))
            } else {
                Box::new(BufferedUnixMetricSink::with_capacity(&p, send, t[1].parse().unwrap()))
            };
            let mut res = vec![];
            for i in 0..n {
                let m = format!("w{}.{}", i, "x".repeat(len.saturating_sub(3 + i.to_string().len())));
                res.push(match sink.emit(&m) {
                    Ok(k) => format!("k{}", k),
                    Err(e) => format!("e{}", kind_no(e.kind())),
                });
            }
            let unbuffered_attempts = n as u64;
            let st = sink.stats();
            let att = if t[1] == "u" { unbuffered_attempts } else { attempts.load(Ordering::SeqCst) };
            cadence::verif::uninstall();
            let rv = Recv::Unix(Some(recv), p.clone());
            let mut got = vec![];
            rv.drain(&mut got, 20);
            // recovery (buffered sinks): the listener reads again; flush until it answers Ok, then drop.  Everything whose
            // emit returned Ok must be on the wire exactly once afterwards, nothing whose emit returned an error
            let mut after = vec![];
            let mut flushes = vec![];
            if t[1] == "u" {
                std::mem::forget(sink);
            } else {
                for _ in 0..200 {
                    let r = sink.flush();
                    rv.drain(&mut after, 5);
                    flushes.push(if r.is_ok() { "k" } else { "e" });
                    if r.is_ok() {
                        break;
                    }
                }
                drop(sink);
                rv.drain(&mut after, 20);
            }
            let _ = std::fs::remove_file(&p);
            format!(
                "R:{}|D:{}|S:{}|A:{}|G:{}|Y:{}",
                res.join(","),
                got.iter().map(|d| hex(d)).collect::<Vec<_>>().join(";"),
                stats_str(&st),
                att,
                after.iter().map(|d| hex(d)).collect::<Vec<_>>().join(";"),
                flushes.join("")
            )
        }
        "XL" => {
            let n: usize = t[2].parse().unwrap();
            let len: usize = t[3].parse().unwrap();
            let p: PathBuf = if t[4] == "nul" {
                PathBuf::from(std::ffi::OsStr::from_bytes(b"/tmp/cadence\0verif.sock"))
            } else {
                PathBuf::from(format!("/tmp/{}", "p".repeat(120)))
            };
            let send = UnixDatagram::unbound().expect("unbound");
            let attempts = Arc::new(AtomicU64::new(0));
            let a2 = attempts.clone();
            cadence::verif::install(Arc::new(move |site| {
                if site == "sink.write" {
                    a2.fetch_add(1, Ordering::SeqCst);
                }
            }));
            let sink: Box<dyn MetricSink + Send + Sync + RefUnwindSafe> = if t[1] == "u" {
                Box::new(UnixMetricSink::from(&p, send))
            } else if t[1] == "d" {
                Box::new(BufferedUnixMetricSink::from(&p, send))
            } else {
                Box::new(BufferedUnixMetricSink::with_capacity(&p, send, t[1].parse().unwrap()))
            };
            let mut res = vec![];
            for i in 0..n {
                let m = format!("l{}.{}", i, "x".repeat(len.saturating_sub(3 + i.to_string().len())));
                res.push(match sink.emit(&m) {
                    Ok(k) => format!("k{}", k),
                    Err(e) => format!("e{}", kind_no(e.kind())),
                });
            }
            res.push(match sink.flush() {
                Ok(()) => "k0".to_string(),
                Err(e) => format!("e{}", kind_no(e.kind())),
            });
            let st = sink.stats();
            let att = if t[1] == "u" { n as u64 } else { attempts.load(Ordering::SeqCst) };
            std::mem::forget(sink);
            cadence::verif::uninstall();
            format!("R:{}|S:{}|A:{}", res.join(","), stats_str(&st), att)
        }
        "UR" => {
            let n: usize = t[2].parse().unwrap();
            let len: usize = t[3].parse().unwrap();
            // a port nobody listens on: bind, note the address, close
            let addr = {
                let tmp = UdpSocket::bind("127.0.0.1:0").expect("bind");
                tmp.local_addr().unwrap()
            };
            let send = UdpSocket::bind("127.0.0.1:0").expect("bind");
            send.connect(addr).expect("connect");
            let attempts = Arc::new(AtomicU64::new(0));
            let a2 = attempts.clone();
            cadence::verif::install(Arc::new(move |site| {
                if site == "sink.write" {
                    a2.fetch_add(1, Ordering::SeqCst);
                }
            }));
            let sink: Box<dyn MetricSink + Send + Sync + RefUnwindSafe> = if t[1] == "u" {
                Box::new(UdpMetricSink::from(addr, send).expect("sink"))
            } else if t[1] == "d" {
                Box::new(BufferedUdpMetricSink::from(addr, send).expect("sink"))
            } else {
                Box::new(BufferedUdpMetricSink::with_capacity(addr, send, t[1].parse().unwrap()).expect("sink"))
            };
            let show = |r: std::io::Result<usize>| match r {
                Ok(k) => format!("k{}", k),
                Err(e) => format!("e{}", kind_no(e.kind())),
            };
            let mut res = vec![];
            for i in 0..n {
                let m = format!("r{}.{}", i, "x".repeat(len.saturating_sub(3 + i.to_string().len())));
                res.push(show(sink.emit(&m)));
                thread::sleep(Duration::from_millis(1));     // let the ICMP answer arrive
            }
            let st = sink.stats();
            let att = if t[1] == "u" { n as u64 } else { attempts.load(Ordering::SeqCst) };
            // the listener appears; a bounce that is still pending may fail the first flush, not the second
            let recv = UdpSocket::bind(addr);
            let mut fl = vec![];
            for _ in 0..2 {
                fl.push(show(sink.flush().map(|_| 0)));
                thread::sleep(Duration::from_millis(1));
            }
            // the figures again after the two explicit flushes (a refused explicit flush is one refused send, once)
            let st2 = sink.stats();
            let att2 = if t[1] == "u" { n as u64 } else { attempts.load(Ordering::SeqCst) };
            drop(sink);
            cadence::verif::uninstall();
            let mut got = vec![];
            if let Ok(r) = recv {
                r.set_nonblocking(true).unwrap();
                Recv::Udp(r).drain(&mut got, 30);
            } else {
                fl.push("norebind".to_string());
            }
            format!(
                "R:{}|F:{}|D:{}|S:{}|A:{}|S2:{}|A2:{}",
                res.join(","),
                fl.join(","),
                got.iter().map(|d| hex(d)).collect::<Vec<_>>().join(";"),
                stats_str(&st),
                att,
                stats_str(&st2),
                att2
            )
        }
        "UC" => {
            let threads: usize = t[1].parse().unwrap();
            let n: usize = t[2].parse().unwrap();
            let (recv, send, addr) = udp_pair(false);
            // a generous receive buffer; volumes are small
            let sink = Arc::new(UdpMetricSink::from(addr, send).expect("sink"));
            let got = Arc::new(std::sync::Mutex::new(Vec::<Vec<u8>>::new()));
            let done = Arc::new(std::sync::atomic::AtomicBool::new(false));
            let rh = {
                let got = got.clone();
                let done = done.clone();
                thread::spawn(move || {
                    let mut buf = vec![0u8; 70_000];
                    loop {
                        match recv.recv(&mut buf) {
                            Ok(k) => got.lock().unwrap().push(buf[..k].to_vec()),
                            Err(_) => {
                                if done.load(Ordering::Acquire) {
                                    break;
                                }
                                thread::sleep(Duration::from_micros(200));
                            }
                        }
                    }
                })
            };
            let mut hs = vec![];
            for th in 0..threads {
                let s = sink.clone();
                hs.push(thread::spawn(move || {
                    let mut ok = (0u64, 0u64, 0u64, 0u64);
                    for i in 0..n {
                        let m = format!("t{}.s{}:{}|c", th, i, "x".repeat(i % 17));
                        match s.emit(&m) {
                            Ok(k) => {
                                ok.0 += k as u64;
                                ok.1 += 1;
                            }
                            Err(_) => {
                                ok.2 += m.len() as u64;
                                ok.3 += 1;
                            }
                        }
                        if i % 16 == 0 {
                            thread::sleep(Duration::from_micros(100));
                        }
                    }
                    ok
                }));
            }
            let mut tot = (0u64, 0u64, 0u64, 0u64);
            for h in hs {
                let o = h.join().unwrap();
                tot = (tot.0 + o.0, tot.1 + o.1, tot.2 + o.2, tot.3 + o.3);
            }
            thread::sleep(Duration::from_millis(30));
            done.store(true, Ordering::Release);
            rh.join().unwrap();
            let st = sink.stats();
            let rec = got.lock().unwrap();
            let rbytes: u64 = rec.iter().map(|d| d.len() as u64).sum();
            format!("S:{}|W:{}.{}.{}.{}|N:{}.{}", stats_str(&st), tot.0, tot.1, tot.2, tot.3, rec.len(), rbytes)
        }
        _ => panic!("bad sock case"),
    }
}
