(* C02 — Numeric values and durations reach the wire without loss.

   Pinned statements about Cadence.Base.Decimal (the decimal numerals that Rust's Display
   for u64/i64 produces), Cadence.Model.Convert (the 22 To*Value impls of client.rs with the
   u128 guard and the `as u64` narrowing cast of the Duration conversions) and, for "nothing
   is sent", Cadence.Model.Client.  Integers are unbounded Z / N: every statement holds in
   particular over the whole range of i64/i32/u64/u32.  A float is carried as the text
   std's Display gives for it; what is proved is that cadence passes that text through
   unaltered (the digits themselves are std's: an environment assumption validated by the
   harness, not a theorem). *)
Require Import Cadence.Base.Prelude.
Require Import Cadence.Base.Decimal.
Require Import Cadence.Model.Convert.
Require Import Cadence.Model.Wire.
Require Import Cadence.Model.Client.
Require Import Cadence.Proofs.SplitProofs.
Require Import Cadence.Proofs.DecimalProofs.
Require Import Cadence.Proofs.WireDefs.
Require Import Cadence.Proofs.WireProofs.
Require Import Cadence.Proofs.ConvertProofs.
Require Import Cadence.Proofs.ClientProofs.

(* ------------------------------------------------------------------ numerals *)
(* a server reading the numeral gets exactly the value supplied *)
Theorem c02_render_parse_N : forall n, parse_N (render_N n) = Some n.
Proof. exact render_parse_N. Qed.

Theorem c02_render_parse_Z : forall z, parse_Z (render_Z z) = Some z.
Proof. exact render_parse_Z. Qed.

(* different values never share a numeral *)
Theorem c02_render_injective :
  (forall n m, render_N n = render_N m -> n = m) /\ (forall a b, render_Z a = render_Z b -> a = b).
Proof. split; [exact render_N_inj|exact render_Z_inj]. Qed.

(* canonical form of an unsigned numeral: non-empty, ASCII digits only, and no leading '0'
   unless the numeral is exactly "0" (which is the numeral of 0 and of nothing else) *)
Theorem c02_canonical_N : forall n,
  render_N n <> [] /\
  forallb (fun b => (48 <=? b)%N && (b <=? 57)%N) (render_N n) = true /\
  (render_N n = [48%N] \/ exists b r, render_N n = b :: r /\ b <> 48%N) /\
  (render_N n = [48%N] <-> n = 0%N).
Proof.
  intros n. split; [apply render_N_nonempty|]. split; [exact (render_N_digits n)|].
  split; [apply render_N_no_leading_zero|apply render_N_zero_iff].
Qed.

(* canonical form of a signed numeral: '-' exactly for negative values, followed by the
   unsigned numeral of the magnitude *)
Theorem c02_canonical_Z : forall z,
  render_Z z = if (z <? 0)%Z then 45%N :: render_N (Z.abs_N z) else render_N (Z.abs_N z).
Proof. exact render_Z_sign. Qed.

(* numerals contain none of the delimiters ':' '|' '#' ',' '@' '\n' *)
Theorem c02_numerals_clean : forall n z, clean (render_N n) = true /\ clean (render_Z z) = true.
Proof. intros n z. split; [apply render_N_clean|apply render_Z_clean]. Qed.

(* ------------------------------------------------------------------ integer entry points *)
(* every integer entry point carries exactly the argument (widening i32 -> i64 and
   u32 -> u64 changes nothing), and the single value text is its numeral *)
Theorem c02_int : forall (z : Z) (n : N),
  to_value Counter (AI64 z) = Some (inr (Signed z)) /\
  to_value Counter (AI32 z) = Some (inr (Signed z)) /\
  to_value Counter (AU64 n) = Some (inr (Unsigned n)) /\
  to_value Counter (AU32 n) = Some (inr (Unsigned n)) /\
  to_value Timer (AU64 n) = Some (inr (Unsigned n)) /\
  to_value Gauge (AU64 n) = Some (inr (Unsigned n)) /\
  to_value Meter (AU64 n) = Some (inr (Unsigned n)) /\
  to_value Histogram (AU64 n) = Some (inr (Unsigned n)) /\
  to_value Distribution (AU64 n) = Some (inr (Unsigned n)) /\
  to_value SetK (AI64 z) = Some (inr (Signed z)) /\
  value_texts (Signed z) = [render_Z z] /\
  value_texts (Unsigned n) = [render_N n].
Proof. intros z n. repeat split. Qed.

(* ... and that numeral is what a server reads between ':' and '|' (clean key, prefix, tags) *)
Theorem c02_int_on_the_wire : forall cfg c l,
  config_ok cfg = true -> call_ok c = true -> client_line cfg c = Some (inr l) ->
  (forall z, to_value (k_kind c) (k_arg c) = Some (inr (Signed z)) ->
     exists p, parse_line l = Some p /\ p_values p = [render_Z z] /\ map parse_Z (p_values p) = [Some z]) /\
  (forall n, to_value (k_kind c) (k_arg c) = Some (inr (Unsigned n)) ->
     exists p, parse_line l = Some p /\ p_values p = [render_N n] /\ map parse_N (p_values p) = [Some n]).
Proof.
  intros cfg c l Hcfg Hc Hl. destruct (roundtrip _ _ _ Hcfg Hc Hl) as [v [Hv Hp]].
  split; intros x Hx; rewrite Hx in Hv; inversion Hv; subst v; eexists; (split; [exact Hp|]);
    cbn [p_values value_texts map]; (split; [reflexivity|]).
  - rewrite render_parse_Z. reflexivity.
  - rewrite render_parse_N. reflexivity.
Qed.

(* packed integer lists: same length, same order, every element its own numeral *)
Theorem c02_packed_ints : forall (l : list N) (zs : list Z),
  to_value Timer (AVecU64 l) = Some (inr (PackedUnsigned l)) /\
  to_value Histogram (AVecU64 l) = Some (inr (PackedUnsigned l)) /\
  to_value Distribution (AVecU64 l) = Some (inr (PackedUnsigned l)) /\
  value_texts (PackedUnsigned l) = map render_N l /\
  value_texts (PackedSigned zs) = map render_Z zs /\
  map parse_N (map render_N l) = map Some l /\
  map parse_Z (map render_Z zs) = map Some zs.
Proof.
  intros l zs. repeat (split; [reflexivity|]). split.
  - rewrite map_map. apply map_ext. exact render_parse_N.
  - rewrite map_map. apply map_ext. exact render_parse_Z.
Qed.

(* ------------------------------------------------------------------ durations *)
(* the counts: whole milliseconds rounded down / whole nanoseconds of secs*10^9 + nanos *)
Theorem c02_duration_counts : forall d,
  as_millis d = ((secs d * 10 ^ 9 + nanos d) / 10 ^ 6)%N /\
  as_nanos d = (secs d * 10 ^ 9 + nanos d)%N.
Proof. intros d. split; [apply as_millis_floor|apply as_nanos_total]. Qed.

(* a timer sends the millisecond count itself when it fits in 64 bits (the narrowing cast,
   modelled as mod 2^64, is lossless under the guard) and reports InvalidInput otherwise *)
Theorem c02_timer_duration : forall d,
  to_value Timer (ADur d) =
  Some (if (as_millis d <=? 2 ^ 64 - 1)%N then inr (Unsigned (as_millis d)) else inl EInvalid).
Proof. exact timer_duration. Qed.

Theorem c02_hist_duration : forall d,
  to_value Histogram (ADur d) =
  Some (if (as_nanos d <=? 2 ^ 64 - 1)%N then inr (Unsigned (as_nanos d)) else inl EInvalid).
Proof. exact hist_duration. Qed.

(* the exact boundaries, for well-formed Durations (secs < 2^64, nanos < 10^9) *)
Theorem c02_duration_boundaries : forall d, dur_ok d ->
  (((as_millis d <=? 2 ^ 64 - 1) = true <->
    (secs d < 18446744073709551 \/ (secs d = 18446744073709551 /\ nanos d < 616000000))) /\
   ((as_nanos d <=? 2 ^ 64 - 1) = true <->
    (secs d < 18446744073 \/ (secs d = 18446744073 /\ nanos d <= 709551615))))%N.
Proof. intros d H. split; [exact (millis_guard d H)|exact (nanos_guard d H)]. Qed.

(* packed Durations: InvalidInput iff SOME element, at any index, overflows; otherwise the
   element-wise counts — same length, same order *)
Theorem c02_packed_durations : forall l,
  (to_value Timer (AVecDur l) = Some (inl EInvalid) <->
   exists i d, nth_error l i = Some d /\ (2 ^ 64 - 1 < as_millis d)%N) /\
  (to_value Timer (AVecDur l) = Some (inl EInvalid) \/
   to_value Timer (AVecDur l) = Some (inr (PackedUnsigned (map as_millis l)))) /\
  (to_value Histogram (AVecDur l) = Some (inl EInvalid) <->
   exists i d, nth_error l i = Some d /\ (2 ^ 64 - 1 < as_nanos d)%N) /\
  (to_value Histogram (AVecDur l) = Some (inl EInvalid) \/
   to_value Histogram (AVecDur l) = Some (inr (PackedUnsigned (map as_nanos l)))).
Proof.
  intros l. cbn [to_value]. repeat split.
  - intros H. apply conv_durs_reject_iff. congruence.
  - intros H. f_equal. apply conv_durs_reject_iff. exact H.
  - destruct (conv_durs_dichotomy as_millis l) as [H|[H _]]; rewrite H; [left|right]; reflexivity.
  - intros H. apply conv_durs_reject_iff. congruence.
  - intros H. f_equal. apply conv_durs_reject_iff. exact H.
  - destruct (conv_durs_dichotomy as_nanos l) as [H|[H _]]; rewrite H; [left|right]; reflexivity.
Qed.

(* ------------------------------------------------------------------ floats *)
(* cadence adds nothing to a float: the value texts are exactly the supplied (std) texts,
   single or packed, in order *)
Theorem c02_float_delegates : forall (t : str) (l : list str),
  to_value Gauge (AF64 t) = Some (inr (Float t)) /\
  to_value Histogram (AF64 t) = Some (inr (Float t)) /\
  to_value Distribution (AF64 t) = Some (inr (Float t)) /\
  to_value Histogram (AVecF64 l) = Some (inr (PackedFloat l)) /\
  to_value Distribution (AVecF64 l) = Some (inr (PackedFloat l)) /\
  value_texts (Float t) = [t] /\ value_texts (PackedFloat l) = l.
Proof. intros t l. repeat split. Qed.

(* the same for the sampling rate: the section is "|@" followed by the supplied text *)
Theorem c02_rate_delegates : forall cfg c l r,
  client_line cfg c = Some (inr l) -> op_rate (k_ops c) = Some r ->
  exists before after, l = before ++ b_pipe :: b_at :: r ++ after /\
    (forall ops, op_rate (ops ++ [WithSamplingRate r]) = Some r).
Proof.
  intros cfg c l r H Hr. destruct (shape _ _ _ H) as [v [_ [_ Hl]]]. unfold wire_line in Hl. rewrite Hr in Hl.
  exists (full_name (c_prefix cfg) (k_key c) ++ b_colon :: join b_colon (value_texts v) ++ b_pipe :: code (k_kind c)).
  eexists. split.
  - rewrite Hl. rewrite <- !app_assoc. cbn [app]. rewrite <- !app_assoc. cbn [app]. reflexivity.
  - intros ops. apply (op_summaries_snoc ops (WithSamplingRate r)).
Qed.

(* ------------------------------------------------------------------ rejection *)
(* a value rejected by its conversion yields exactly the conversion's error -- the
   invalid-input error, unless the argument is a user-defined value whose own conversion
   returned [e] --, nothing is handed to the sink and no sink outcome is consumed — whatever the
   form and the sink script *)
Theorem c02_reject_no_emit : forall cfg fm c script e,
  to_value (k_kind c) (k_arg c) = Some (inl e) ->
  (exists o, send_call cfg fm c script = Some (o, script) /\ o_emitted o = [] /\
    match fm with
    | Quiet => o_ret o = RUnit /\ o_handled o = [e]
    | _ => o_ret o = RError e /\ o_handled o = []
    end) /\
  (e = EInvalid \/ k_arg c = AUserErr e).
Proof.
  intros cfg fm c script e H. split; [exact (reject_no_emit cfg fm c script e H)|exact (to_value_err _ _ _ H)].
Qed.

(* the same for an empty packed list (the repaired behaviour, defect D1) *)
Theorem c02_empty_no_emit : forall cfg fm c script v,
  to_value (k_kind c) (k_arg c) = Some (inr v) -> mv_count v = 0 ->
  exists o, send_call cfg fm c script = Some (o, script) /\ o_emitted o = [] /\
    match fm with
    | Quiet => o_ret o = RUnit /\ o_handled o = [EInvalid]
    | _ => o_ret o = RError EInvalid /\ o_handled o = []
    end.
Proof. exact empty_no_emit. Qed.

(* ------------------------------------------------------------------ non-vacuity *)
(* i64::MIN, i64::MAX, u64::MAX, 0, -1 as numerals *)
Example c02_witness_numerals :
  render_Z (- 2 ^ 63) = [45; 57; 50; 50; 51; 51; 55; 50; 48; 51; 54; 56; 53; 52; 55; 55; 53; 56; 48; 56]%N /\
  render_Z (2 ^ 63 - 1) = [57; 50; 50; 51; 51; 55; 50; 48; 51; 54; 56; 53; 52; 55; 55; 53; 56; 48; 55]%N /\
  render_N (2 ^ 64 - 1) = [49; 56; 52; 52; 54; 55; 52; 52; 48; 55; 51; 55; 48; 57; 53; 53; 49; 54; 49; 53]%N /\
  render_N 0 = [48]%N /\ render_Z (-1) = [45; 49]%N /\
  parse_Z (render_Z (- 2 ^ 63)) = Some (- 2 ^ 63)%Z.
Proof. vm_compute. repeat split. Qed.

(* the guard boundaries: the last accepted and the first rejected Duration of a timer and of
   a histogram; sub-unit truncation; the maximal Duration; an overflow at index 1 of 3 *)
Local Open Scope N_scope.
Example c02_witness_durations :
  let d s n := {| secs := s; nanos := n |} in
  to_value Timer (ADur (d 18446744073709551 615999999)) = Some (inr (Unsigned 18446744073709551615)) /\
  to_value Timer (ADur (d 18446744073709551 616000000)) = Some (inl EInvalid) /\
  to_value Histogram (ADur (d 18446744073 709551615)) = Some (inr (Unsigned 18446744073709551615)) /\
  to_value Histogram (ADur (d 18446744073 709551616)) = Some (inl EInvalid) /\
  to_value Timer (ADur (d 1 1999999)) = Some (inr (Unsigned 1001)) /\
  to_value Timer (ADur (d 18446744073709551615 999999999)) = Some (inl EInvalid) /\
  to_value Timer (AVecDur [d 0 1000000; d 18446744073709551615 0; d 2 0]) = Some (inl EInvalid) /\
  to_value Timer (AVecDur [d 0 1000000; d 3 999999; d 2 0]) = Some (inr (PackedUnsigned [1; 3000; 2000])) /\
  (forall cfg fm script,
     option_map (fun os => (o_emitted (fst os), snd os))
       (send_call cfg fm {| k_kind := Timer; k_key := [107]; k_arg := ADur (d 18446744073709551615 0); k_ops := [] |} script)
     = Some ([], script)).
Proof. vm_compute. repeat split; intros cfg fm script; destruct fm; reflexivity. Qed.

(* ==== added after the audit of 2026-10-02 (selftest/audit/REPORT-2026-10-02.md) ==== *)
Require Import Cadence.Proofs.AuditM1.
(* (C02.v has N_scope open at its end: nat literals are marked %nat) *)
(* FLOATS, with the environment assumption as explicit hypotheses.  [F] is any type of numbers
   (for cadence: f64), [show] any printer (std's Display for f64), [read] any reader (the
   server's).  For every value x whose text reads back to x and contains no delimiter byte, a
   gauge / histogram / distribution call with that value produces a line, the server splits
   out exactly that text as the only value, and reading it gives x back (equality of Coq
   values: bit identity when F is a type of bit patterns) *)
Theorem c02_float_on_the_wire : forall (F : Type) (show : F -> str) (read : str -> option F) cfg c x,
  read (show x) = Some x -> clean (show x) = true ->
  config_ok cfg = true -> clean (k_key c) = true -> forallb bop_ok (k_ops c) = true ->
  (k_kind c = Gauge \/ k_kind c = Histogram \/ k_kind c = Distribution) -> k_arg c = AF64 (show x) ->
  exists l p, client_line cfg c = Some (inr l) /\ parse_line l = Some p /\
    p_values p = [show x] /\ map read (p_values p) = [Some x] /\ p_type p = code (k_kind c).
Proof. exact float_on_the_wire_pin. Qed.

(* the same for a sampling rate: with any accepted value of any kind, the LAST
   with_sampling_rate of the chain is what the server reads back *)
Theorem c02_rate_on_the_wire : forall (F : Type) (show : F -> str) (read : str -> option F) cfg c r ops1 ops2 v,
  read (show r) = Some r -> clean (show r) = true ->
  config_ok cfg = true -> clean (k_key c) = true -> arg_ok (k_arg c) = true ->
  to_value (k_kind c) (k_arg c) = Some (inr v) -> mv_count v <> 0%nat ->
  k_ops c = ops1 ++ WithSamplingRate (show r) :: ops2 -> op_rate ops2 = None ->
  forallb bop_ok ops1 = true -> forallb bop_ok ops2 = true ->
  exists l p, client_line cfg c = Some (inr l) /\ parse_line l = Some p /\
    p_rate p = Some (show r) /\ option_map read (p_rate p) = Some (Some r) /\
    p_values p = value_texts v.
Proof. exact rate_on_the_wire_pin. Qed.

(* a float value sent with a float sampling rate: both read back *)
Theorem c02_float_and_rate_on_the_wire :
  forall (F : Type) (show : F -> str) (read : str -> option F) cfg c x r ops1 ops2,
  read (show x) = Some x -> clean (show x) = true ->
  read (show r) = Some r -> clean (show r) = true ->
  config_ok cfg = true -> clean (k_key c) = true ->
  (k_kind c = Gauge \/ k_kind c = Histogram \/ k_kind c = Distribution) -> k_arg c = AF64 (show x) ->
  k_ops c = ops1 ++ WithSamplingRate (show r) :: ops2 -> op_rate ops2 = None ->
  forallb bop_ok ops1 = true -> forallb bop_ok ops2 = true ->
  exists l p, client_line cfg c = Some (inr l) /\ parse_line l = Some p /\
    map read (p_values p) = [Some x] /\ option_map read (p_rate p) = Some (Some r).
Proof. exact float_and_rate_on_the_wire_pin. Qed.

(* packed floats (histogram / distribution of a Vec<f64>): a non-empty list arrives with the
   same length, in the same order, every element reading back to itself *)
Theorem c02_packed_floats_on_the_wire :
  forall (F : Type) (show : F -> str) (read : str -> option F) cfg c xs,
  Forall (fun x => read (show x) = Some x /\ clean (show x) = true) xs -> xs <> [] ->
  config_ok cfg = true -> clean (k_key c) = true -> forallb bop_ok (k_ops c) = true ->
  (k_kind c = Histogram \/ k_kind c = Distribution) -> k_arg c = AVecF64 (map show xs) ->
  exists l p, client_line cfg c = Some (inr l) /\ parse_line l = Some p /\
    p_values p = map show xs /\ map read (p_values p) = map Some xs /\
    length (p_values p) = length xs /\
    (forall i, nth_error (p_values p) i = option_map show (nth_error xs i)) /\
    (forall i, option_map read (nth_error (p_values p) i) = option_map Some (nth_error xs i)).
Proof. exact packed_floats_on_the_wire. Qed.

(* ... and the empty list is invalid input *)
Theorem c02_packed_floats_empty : forall cfg c,
  (k_kind c = Histogram \/ k_kind c = Distribution) -> k_arg c = AVecF64 [] ->
  client_line cfg c = Some (inl EInvalid).
Proof. intros cfg c. exact (packed_floats_empty unit (fun _ => []) cfg c). Qed.

(* the assumption stated for ALL values (the form suggested by the audit, for any F): then
   every line of a call with a float argument / a Vec<f64> argument / a sampling rate reads
   back, whatever the kind *)
Theorem c02_float_on_the_wire_total : forall (F : Type) (show : F -> str) (read : str -> option F),
  (forall x, read (show x) = Some x) -> (forall x, clean (show x) = true) ->
  (forall cfg c l x, config_ok cfg = true -> call_ok c = true -> k_arg c = AF64 (show x) ->
     client_line cfg c = Some (inr l) ->
     exists p, parse_line l = Some p /\ p_values p = [show x] /\ map read (p_values p) = [Some x]) /\
  (forall cfg c l xs, config_ok cfg = true -> call_ok c = true -> k_arg c = AVecF64 (map show xs) ->
     client_line cfg c = Some (inr l) ->
     exists p, parse_line l = Some p /\ p_values p = map show xs /\ map read (p_values p) = map Some xs /\
       length (p_values p) = length xs /\ xs <> []) /\
  (forall cfg c l r, config_ok cfg = true -> call_ok c = true -> op_rate (k_ops c) = Some (show r) ->
     client_line cfg c = Some (inr l) ->
     exists p, parse_line l = Some p /\ p_rate p = Some (show r) /\ option_map read (p_rate p) = Some (Some r)).
Proof.
  intros F show read H1 H2. split; [exact (float_on_the_wire_total F show read H1)|].
  split; [exact (packed_floats_on_the_wire_total F show read H1 H2)|exact (rate_on_the_wire_total F show read H1)].
Qed.

(* the hypotheses are satisfiable for all values of an infinite type (the integers with their
   numerals), and for a table of two float texts "0.5" / "-1.25e-7": a gauge with two
   with_sampling_rate calls (the last wins) and a packed histogram of three elements *)
Example c02_float_hyps_satisfiable : forall z, parse_Z (render_Z z) = Some z /\ clean (render_Z z) = true.
Proof. exact float_hyps_satisfiable. Qed.

Example c02_float_witness :
  let cfg := {| c_prefix := []; c_tags := []; c_container := None |} in
  let g := {| k_kind := Gauge; k_key := [107]%N; k_arg := AF64 (toy_show false);
              k_ops := [WithSamplingRate (toy_show false); WithSamplingRate (toy_show true)] |} in
  let h := {| k_kind := Histogram; k_key := [107]%N; k_arg := AVecF64 (map toy_show [true; false; true]);
              k_ops := [] |} in
  let view c := match client_line cfg c with
                | Some (inr l) => option_map (fun p => (map toy_read (p_values p), option_map toy_read (p_rate p)))
                                             (parse_line l)
                | _ => None
                end in
  (forall b, toy_read (toy_show b) = Some b /\ clean (toy_show b) = true) /\
  config_ok cfg = true /\ call_ok g = true /\ call_ok h = true /\
  client_line cfg g =
    Some (inr [107; 58; 45; 49; 46; 50; 53; 101; 45; 55; 124; 103; 124; 64; 48; 46; 53]%N) /\
  client_line cfg h =
    Some (inr [107; 58; 48; 46; 53; 58; 45; 49; 46; 50; 53; 101; 45; 55; 58; 48; 46; 53; 124; 104]%N) /\
  view g = Some ([Some false], Some (Some true)) /\
  view h = Some ([Some true; Some false; Some true], None).
Proof. split; [exact toy_faithful|exact float_witness]. Qed.

(* audit A.24: a user-defined To*Value type whose conversion returns Ok(v) is [AUser v]; such a
   call is rejected only for an empty packed value, never ill-typed, never a conversion error
   (a conversion returning Err(e) is [AUserErr e]: c02_user_error below) *)
Theorem c02_user_value : forall cfg c v,
  k_arg c = AUser v ->
  (forall e, to_value (k_kind c) (k_arg c) <> Some (inl e)) /\
  (client_line cfg c = Some (inl EInvalid) <->
     (v = PackedSigned [] \/ v = PackedUnsigned [] \/ v = PackedFloat [])) /\
  (~ (v = PackedSigned [] \/ v = PackedUnsigned [] \/ v = PackedFloat []) ->
     exists l, client_line cfg c = Some (inr l)) /\
  client_line cfg c <> None.
Proof.
  intros cfg c v Ha. split; [|exact (user_value_rejected_iff_pin cfg c v Ha)].
  intros e. rewrite Ha. exact (proj2 (user_value_never_conversion_error (k_kind c) v e)).
Qed.

(* ==== added after the audit of 2026-10-02 (selftest/audit/REPORT-2026-10-02.md) ==== *)
(* ==== added for audit item A.24 (model extension: a user-defined value whose conversion fails) ==== *)
Require Import Cadence.Proofs.AuditU1.
(* a user-defined To*Value type whose conversion returns Err(e) is [AUserErr e]: for EVERY kind
   the call type-checks, the conversion answers exactly e and no MetricValue *)
Theorem c02_user_error_conversion : forall k e,
  to_value k (AUserErr e) = Some (inl e) /\
  to_value k (AUserErr e) <> None /\
  (forall v, to_value k (AUserErr e) <> Some (inr v)) /\
  (forall e', to_value k (AUserErr e) = Some (inl e') -> e' = e).
Proof. exact user_error_conversion. Qed.

(* the client's answer for such a call is exactly that error, whatever the configuration, the
   kind, the key and the builder calls (an error builder ignores them); never a line; the model of
   the tree before the fix of defect D1 agrees *)
Theorem c02_user_error : forall cfg c e,
  k_arg c = AUserErr e ->
  client_line cfg c = Some (inl e) /\
  client_line_v0 cfg c = Some (inl e) /\
  build cfg c = Some (inl e) /\
  accepted cfg c = false /\
  (forall l, client_line cfg c <> Some (inr l)).
Proof. exact user_error_line. Qed.

(* conversely a conversion error is InvalidInput and comes from a Duration, a packed Duration
   list or a user's impl -- or it is an I/O error and comes from a user's impl *)
Theorem c02_conversion_error_source : forall k a e,
  to_value k a = Some (inl e) ->
  (e = EInvalid /\ ((exists d, a = ADur d) \/ (exists l, a = AVecDur l) \/ a = AUserErr EInvalid)) \/
  (exists ki id, e = EIo ki id /\ a = AUserErr (EIo ki id)).
Proof. exact conversion_error_source. Qed.

(* a rejection of kind IoError is never the library's own *)
Theorem c02_io_kind_only_from_user : forall cfg c e,
  client_line cfg c = Some (inl e) -> ekind e = IoError -> k_arg c = AUserErr e.
Proof. exact io_kind_only_from_user. Qed.

(* the outcome of such a call depends on the error and the call form only *)
Theorem c02_user_error_independent : forall cfg cfg' fm c c' script script' e,
  k_arg c = AUserErr e -> k_arg c' = AUserErr e ->
  option_map fst (send_call cfg fm c script) = option_map fst (send_call cfg' fm c' script').
Proof. exact user_error_call_independent. Qed.
