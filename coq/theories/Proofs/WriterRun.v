(* Run-level consequences of the step specifications: what holds of the whole log
   after any history of operations, for any fault script. *)
Require Import Cadence.Base.Prelude.
Require Import Cadence.Model.Writer.
Require Import Cadence.Proofs.WriterBase.
Require Import Cadence.Proofs.WriterInv.

(* ------------------------------------------------------------------ bookkeeping of a history *)
Definition fitg (c : nat) (e : str) (g : gm) : bool := fitsb c e (snd g).

(* the metric acknowledged by operation number [n], if any *)
Definition acked1 (n : nat) (o : op) (x : ores) : list gm :=
  match o, x with Emit m, OOk _ => [(n, m)] | _, _ => [] end.
Fixpoint acked (n : nat) (ops : list op) (rs : list ores) : list gm :=
  match ops, rs with
  | o :: ops', x :: rs' => acked1 n o x ++ acked (S n) ops' rs'
  | _, _ => []
  end.
(* every metric emitted, acknowledged or not *)
Fixpoint emitted (n : nat) (ops : list op) : list gm :=
  match ops with
  | Emit m :: ops' => (n, m) :: emitted (S n) ops'
  | Flush :: ops' => emitted (S n) ops'
  | [] => []
  end.

Definition res_ok (o : op) (x : ores) : Prop :=
  match o, x with
  | Emit m, OOk k => k = length m
  | Flush, OOk k => k = 0
  | _, OPanic => False
  | _, _ => True
  end.

(* an error result is the outcome of the last underlying write made during the operation *)
Definition res_err (atts : list attempt) (x : ores) : Prop :=
  match x with
  | OErr e => err_last atts (WErr e)
  | OIntr => err_last atts WIntr
  | _ => True
  end.

Record step_post (s : st) (n : nat) (o : op) (x : ores) (s' : st) (atts : list attempt) : Prop := {
  sp_inv : Inv s';
  sp_cfg : same_cfg s s';
  sp_ext : ext s s' n atts;
  sp_frame : Forall (frame_ok (cap s) (ending s)) atts;
  sp_res : res_ok o x;
  sp_err : res_err atts x;
  sp_ledger : filter (nzb (ending s)) (sentL atts ++ bids s') =
              filter (nzb (ending s)) (bids s ++ filter (fitg (cap s) (ending s)) (acked1 n o x));
  sp_alone : sentA atts = filter (fun g => negb (fitg (cap s) (ending s) g)) (acked1 n o x);
  sp_must : forall m, o = Emit m -> atts <> [] ->
            cap s <= length (bbuf s) + length m + length (ending s);
  sp_max : forall m a ms, o = Emit m -> In a atts -> a_lab a = Lines ms -> ~ In (n, m) ms ->
            cap s < length (a_bytes a) + length m + length (ending s);
  sp_flush : o = Flush -> (bbuf s = [] -> atts = []) /\
             (forall k, x = OOk k -> bbuf s' = [] /\ bids s' = [] /\ written s' = 0)
}.

Lemma step_spec s n o x s' :
  Inv s -> step s n o = (x, s') -> exists atts, step_post s n o x s' atts.
Proof.
  intros I H. destruct o as [m|]; cbn [step] in H.
  - destruct (mlw_write s m n) as [r s1] eqn:W. inversion H; subst; clear H.
    apply mlw_write_spec in W; [|exact I].
    destruct W as (I' & C & atts & X & F & Must & Max & R).
    exists atts. constructor.
    + exact I'.
    + exact C.
    + exact X.
    + exact F.
    + destruct r; cbn; auto. now destruct R.
    + destruct r; cbn; auto; now destruct R as (_ & _ & R).
    + unfold acked1, fitg. destruct r; cbn [ores_of_nat filter snd]; try (destruct R as (_ & R & _); rewrite R, app_nil_r; reflexivity); try contradiction.
      destruct R as [_ R]. destruct (fitsb (cap s) (ending s) m).
      * now destruct R.
      * destruct R as (_ & R1 & R2). rewrite R1, R2, app_nil_r. reflexivity.
    + unfold acked1, fitg. destruct r; cbn [ores_of_nat filter snd]; try (now destruct R); try contradiction.
      destruct R as [_ R]. destruct (fitsb (cap s) (ending s) m); cbn; now destruct R.
    + intros m' E. inversion E; subst. exact Must.
    + intros m' a ms E. inversion E; subst. apply Max.
    + discriminate.
  - destruct (mlw_flush s n) as [r s1] eqn:W. inversion H; subst; clear H.
    apply mlw_flush_spec in W; [|exact I].
    destruct W as (I' & C & atts & X & F & A & Fl & Nil & L & R).
    exists atts. constructor.
    + exact I'.
    + exact C.
    + exact X.
    + exact F.
    + destruct r; cbn; auto.
    + destruct r; cbn; auto; try contradiction. now destruct R.
    + unfold acked1. destruct r; cbn [ores_of_unit filter]; now rewrite app_nil_r.
    + unfold acked1. destruct r; cbn [ores_of_unit filter]; exact A.
    + discriminate.
    + discriminate.
    + intros _. split; [exact Nil|]. intros k E. destruct r; cbn in E; try discriminate. exact R.
Qed.

(* ------------------------------------------------------------------ whole histories *)
Definition LogOk (s : st) : Prop := Forall (frame_ok (cap s) (ending s)) (lg s).

Lemma acked_nil n ops : acked n ops [] = [].
Proof. destruct ops; reflexivity. Qed.

Record run_post (s : st) (n : nat) (ops : list op) (rs : list ores) (s' : st) (atts : list attempt) : Prop := {
  rp_inv : Inv s';
  rp_cfg : same_cfg s s';
  rp_log : lg s' = lg s ++ atts;
  rp_ops : Forall (fun a => n <= a_op a < n + length ops) atts;
  rp_frame : Forall (frame_ok (cap s) (ending s)) atts;
  rp_len : length rs = length ops;
  rp_res : Forall2 res_ok ops rs;
  rp_ledger : filter (nzb (ending s)) (sentL atts ++ bids s') =
              filter (nzb (ending s)) (bids s ++ filter (fitg (cap s) (ending s)) (acked n ops rs));
  rp_alone : sentA atts = filter (fun g => negb (fitg (cap s) (ending s) g)) (acked n ops rs);
  (* an error result is the outcome of an underlying write made during that very operation *)
  rp_err : forall i x, nth_error rs i = Some x ->
           match x with
           | OErr e => exists a, In a atts /\ a_op a = n + i /\ a_out a = WErr e
           | OIntr => exists a, In a atts /\ a_op a = n + i /\ a_out a = WIntr
           | _ => True
           end;
  (* an oversized metric goes out during its own emit *)
  rp_own : Forall (fun a => forall g, In g (ok_alone a) -> a_op a = fst g) atts
}.

Lemma err_last_in atts o : err_last atts o -> exists a, In a atts /\ a_out a = o.
Proof. intros (pre & a & E & O). exists a. split; [subst; apply in_or_app; right; left; reflexivity|exact O]. Qed.

Lemma sentA_in a atts g : In a atts -> In g (ok_alone a) -> In g (sentA atts).
Proof. intros Ha Hg. unfold sentA. apply in_flat_map. exists a. split; assumption. Qed.

Lemma run_from_spec ops : forall s n rs s',
  Inv s -> run_from s n ops = (rs, s') -> exists atts, run_post s n ops rs s' atts.
Proof.
  induction ops as [|o ops IH]; intros s n rs s' I H; cbn [run_from] in H.
  - inversion H; subst. exists []. constructor; auto using same_cfg_refl.
    + now rewrite app_nil_r.
    + cbn. now rewrite app_nil_r.
    + intros i x Hn. destruct i; discriminate.
  - destruct (step s n o) as [x s1] eqn:S1.
    destruct (run_from s1 (S n) ops) as [xs s2] eqn:R. inversion H; subst; clear H.
    destruct (step_spec _ _ _ _ _ I S1) as [a1 P1].
    destruct P1 as [I1 [C1 E1] [X1 O1] F1 R1 Er1 L1 A1 _ _ _].
    destruct (IH _ _ _ _ I1 R) as [a2 P2].
    destruct P2 as [I2 [C2 E2] X2 O2 F2 Len2 R2 L2 A2 Err2 Own2].
    rewrite C1, E1 in *.
    exists (a1 ++ a2). constructor.
    + exact I2.
    + split; congruence.
    + rewrite X2, X1. now rewrite app_assoc.
    + apply Forall_app; split.
      * eapply Forall_impl; [|exact O1]. cbn. intros a Ha. cbn [length]. lia.
      * eapply Forall_impl; [|exact O2]. cbn. intros a Ha. cbn [length]. lia.
    + apply Forall_app; split; assumption.
    + cbn. now rewrite Len2.
    + constructor; assumption.
    + cbn [acked].
      rewrite sentL_app, <- app_assoc, (filter_app _ (sentL a1)), L2, <- filter_app.
      rewrite app_assoc, (filter_app _ (sentL a1 ++ bids s1)), L1, <- filter_app.
      rewrite (filter_app _ (acked1 n o x)). now rewrite !app_assoc.
    + cbn [acked]. rewrite sentA_app, A1, A2, filter_app. reflexivity.
    + intros i y Hn. destruct i as [|i]; cbn in Hn.
      * inversion Hn; subst y. rewrite Nat.add_0_r.
        assert (Hin : forall o', err_last a1 o' -> exists a, In a (a1 ++ a2) /\ a_op a = n /\ a_out a = o').
        { intros o' El. destruct (err_last_in _ _ El) as (a & Ia & Oa). exists a.
          split; [apply in_or_app; left; exact Ia|]. split; [|exact Oa].
          rewrite Forall_forall in O1. now apply O1. }
        destruct x; cbn in Er1; auto.
      * specialize (Err2 i y Hn).
        replace (n + S i) with (S n + i) by lia.
        destruct y; auto; destruct Err2 as (a & Ia & Oa & Ua); exists a;
          (split; [apply in_or_app; right; exact Ia|split; assumption]).
    + apply Forall_app; split; [|exact Own2].
      apply Forall_forall. intros a Ha g Hg.
      pose proof (sentA_in _ _ _ Ha Hg) as Hs. rewrite A1 in Hs.
      apply filter_In in Hs. destruct Hs as [Hs _].
      rewrite Forall_forall in O1. rewrite (O1 a Ha).
      unfold acked1 in Hs. destruct o; [|contradiction]. destruct x; try contradiction.
      destruct Hs as [Hs|[]]. subst g. reflexivity.
Qed.
