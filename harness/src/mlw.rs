//! `mlw`: cadence::ext::MultiLineWriter over a scripted, recording, all-or-nothing
//! `Write`, and the BufferedSpyMetricSink over a bounded, never-drained channel.
//!
//! case:  W <cap> <ending-hex> <ops> <script>        (writer over scripted Write)
//!        S <cap|d> <queue|u> <ops>                   (BufferedSpyMetricSink, d = default capacity, u = unbounded queue)
//!        CW <cap> <ending-hex> <ops> <script>       (the same history driven through a StatsdClient: a user-written
//!                                                     buffered sink = Mutex<MultiLineWriter<scripted Write>>, emits via
//!                                                     send_metric(&Counter::from(text)), flushes via StatsdClient::flush;
//!                                                     results k | e<id> | i | p - the client does not report byte counts)
//!   ops    = comma separated  E<hex> | F   ("-" = none)
//!   script = comma separated  o | i | e<id>  ("-" = empty; exhausted = o)
//! observation:  R:<res>,..|L:<op>:<hex>:<outcome>;..
//!   res = k<n> | e<id> | i | p     (flush Ok is k0; e0 = an error without payload)
use crate::util::{catch, hex, payload_of, unhex, Payload};
use cadence::ext::MultiLineWriter;
use cadence::{BufferedSpyMetricSink, MetricSink};
use std::cell::RefCell;
use std::io::{self, ErrorKind, Write};
use std::rc::Rc;

#[derive(Clone, Debug)]
enum Outcome {
    Ok,
    Intr,
    Err(u64),
}

struct Shared {
    script: Vec<Outcome>,
    pos: usize,
    cur_op: usize,
    log: Vec<(usize, Vec<u8>, Outcome)>,
    flushes: usize,
}

const ERR_KINDS: [ErrorKind; 12] = [
    ErrorKind::Other,
    ErrorKind::WouldBlock,
    ErrorKind::TimedOut,
    ErrorKind::BrokenPipe,
    ErrorKind::ConnectionRefused,
    ErrorKind::WriteZero,
    ErrorKind::UnexpectedEof,
    ErrorKind::NotConnected,
    ErrorKind::PermissionDenied,
    ErrorKind::InvalidInput,
    ErrorKind::OutOfMemory,
    ErrorKind::ConnectionReset,
];

struct Scripted(Rc<RefCell<Shared>>);

impl Write for Scripted {
    fn write(&mut self, buf: &[u8]) -> io::Result<usize> {
        let mut s = self.0.borrow_mut();
        let o = if s.pos < s.script.len() {
            let o = s.script[s.pos].clone();
            s.pos += 1;
            o
        } else {
            Outcome::Ok
        };
        let op = s.cur_op;
        s.log.push((op, buf.to_vec(), o.clone()));
        match o {
            Outcome::Ok => Ok(buf.len()),
            Outcome::Intr => Err(io::Error::new(ErrorKind::Interrupted, Payload(0))),
            // the kind varies with the payload id: the writer must pass every kind but Interrupted through unchanged
            Outcome::Err(id) => Err(io::Error::new(ERR_KINDS[(id as usize) % ERR_KINDS.len()], Payload(id))),
        }
    }
    fn flush(&mut self) -> io::Result<()> {
        self.0.borrow_mut().flushes += 1;
        Ok(())
    }
}

pub enum Op {
    Emit(Vec<u8>),
    Flush,
}

pub fn parse_ops(s: &str) -> Vec<Op> {
    if s == "-" {
        return vec![];
    }
    s.split(',')
        .map(|t| {
            if t == "F" {
                Op::Flush
            } else if let Some(h) = t.strip_prefix('E') {
                Op::Emit(unhex(h))
            } else {
                panic!("bad op {:?}", t)
            }
        })
        .collect()
}

fn parse_script(s: &str) -> Vec<Outcome> {
    if s == "-" {
        return vec![];
    }
    s.split(',')
        .map(|t| match t {
            "o" => Outcome::Ok,
            "i" => Outcome::Intr,
            _ => Outcome::Err(t.strip_prefix('e').expect("bad outcome").parse().unwrap()),
        })
        .collect()
}

fn res_usize(r: &io::Result<usize>) -> String {
    match r {
        Ok(n) => format!("k{}", n),
        Err(e) if e.kind() == ErrorKind::Interrupted => "i".to_string(),
        Err(e) => format!("e{}", payload_of(e).unwrap_or(0)),
    }
}

fn res_unit(r: &io::Result<()>) -> String {
    match r {
        Ok(()) => "k0".to_string(),
        Err(e) if e.kind() == ErrorKind::Interrupted => "i".to_string(),
        Err(e) => format!("e{}", payload_of(e).unwrap_or(0)),
    }
}

fn outcome_str(o: &Outcome) -> String {
    match o {
        Outcome::Ok => "o".to_string(),
        Outcome::Intr => "i".to_string(),
        Outcome::Err(id) => format!("e{}", id),
    }
}

fn run_writer(cap: usize, ending: &[u8], ops: &[Op], script: Vec<Outcome>) -> String {
    let shared = Rc::new(RefCell::new(Shared {
        script,
        pos: 0,
        cur_op: 0,
        log: vec![],
        flushes: 0,
    }));
    let ending = String::from_utf8(ending.to_vec()).expect("ending must be UTF-8");
    let mut results: Vec<String> = vec![];
    // both constructors: `new` is `with_ending(.., "\n")`
    let mut w = Some(if ending == "\n" && cap % 2 == 0 {
        MultiLineWriter::new(Scripted(shared.clone()), cap)
    } else {
        MultiLineWriter::with_ending(Scripted(shared.clone()), cap, &ending)
    });
    let mut panicked = false;
    for (i, op) in ops.iter().enumerate() {
        shared.borrow_mut().cur_op = i;
        let wr = w.as_mut().unwrap();
        let r = catch(|| match op {
            Op::Emit(m) => res_usize(&wr.write(m)),
            Op::Flush => res_unit(&wr.flush()),
        });
        match r {
            Ok(s) => results.push(s),
            Err(_) => {
                results.push("p".to_string());
                panicked = true;
                break;
            }
        }
    }
    shared.borrow_mut().cur_op = ops.len();
    if panicked {
        // state after a panic is unspecified: leak the writer instead of dropping it
        std::mem::forget(w.take());
    } else if catch(|| drop(w.take())).is_err() {
        results.push("p".to_string());
    }
    let s = shared.borrow();
    let log: Vec<String> = s
        .log
        .iter()
        .map(|(op, b, o)| format!("{}:{}:{}", op, hex(b), outcome_str(o)))
        .collect();
    format!("R:{}|L:{}", results.join(","), log.join(";"))
}

/// BufferedSpyMetricSink with a bounded queue that is never drained during the case:
/// the first `queue` underlying writes succeed, every later one fails ("channel full").
/// Only successful writes are observable (as messages on the receiver).
fn run_spy(cap: Option<usize>, queue: Option<usize>, ops: &[Op]) -> String {
    let (rx, sink) = if queue.is_none() && cap.is_none() {
        BufferedSpyMetricSink::new()
    } else {
        BufferedSpyMetricSink::with_capacity(queue, cap)
    };
    let mut results: Vec<String> = vec![];
    let mut sink = Some(sink);
    for op in ops {
        let sk = sink.as_ref().unwrap();
        let r = catch(|| match op {
            Op::Emit(m) => res_usize(&sk.emit(std::str::from_utf8(m).expect("utf8 metric"))),
            Op::Flush => res_unit(&sk.flush()),
        });
        match r {
            Ok(s) => results.push(s),
            Err(_) => {
                results.push("p".to_string());
                break;
            }
        }
    }
    if catch(|| drop(sink.take())).is_err() {
        results.push("p".to_string());
    }
    let msgs: Vec<String> = rx.try_iter().map(|m| hex(&m)).collect();
    format!("R:{}|M:{}", results.join(","), msgs.join(";"))
}

/// QF: StatsdClient -> QueuingMetricSink -> (gate) -> BufferedSpyMetricSink.  The gate logs, in real order, every call
/// that reaches the buffered sink and can park the worker before it hands a metric over (a deterministic backlog).
///   ops: E<hex> emit on the queuing sink | P arm the gate (the next metric parks) | G open the gate
///        | F flush() on the queuing sink | C flush() through the client
/// observation: R:<per op>|I:<calls that reached the buffered sink, in order: E<hex>=k<n>|e , F=k0|e>
///              |M:<messages on the spy channel>|N:<per op: messages so far>|A:<per op: inner calls completed so far>
fn run_qf(cap: Option<usize>, ops: &str) -> String {
    use cadence::{QueuingMetricSink, StatsdClient};
    use std::sync::{Arc, Condvar, Mutex};
    struct GSt {
        armed: bool,
        parked: bool,
        open: bool,
        log: Vec<String>,
    }
    struct Gate {
        inner: BufferedSpyMetricSink,
        st: Arc<(Mutex<GSt>, Condvar)>,
    }
    impl std::panic::RefUnwindSafe for Gate {}
    impl MetricSink for Gate {
        fn emit(&self, m: &str) -> io::Result<usize> {
            {
                let (mx, cv) = &*self.st;
                let mut g = mx.lock().unwrap();
                if g.armed {
                    g.armed = false;
                    g.parked = true;
                    cv.notify_all();
                    while !g.open {
                        g = cv.wait(g).unwrap();
                    }
                    g.open = false;
                    g.parked = false;
                    cv.notify_all();
                }
            }
            let r = self.inner.emit(m);
            let s = match &r {
                Ok(n) => format!("E{}=k{}", hex(m.as_bytes()), n),
                Err(_) => format!("E{}=e", hex(m.as_bytes())),
            };
            self.st.0.lock().unwrap().log.push(s);
            r
        }
        fn flush(&self) -> io::Result<()> {
            let r = self.inner.flush();
            self.st.0.lock().unwrap().log.push(if r.is_ok() { "F=k0".to_string() } else { "F=e".to_string() });
            r
        }
    }
    let (rx, spy) = BufferedSpyMetricSink::with_capacity(None, cap);
    let st = Arc::new((Mutex::new(GSt { armed: false, parked: false, open: false, log: vec![] }), Condvar::new()));
    // how the queuing wrapper is constructed is decided by the case text: every constructor / builder configuration
    // must flush the wrapped sink the same way
    let gate = Gate { inner: spy, st: st.clone() };
    let how = ops.bytes().fold(cap.unwrap_or(7) as u32, |a, b| a.wrapping_mul(31).wrapping_add(b as u32)) % 4;
    let q = match how {
        0 => QueuingMetricSink::from(gate),
        1 => QueuingMetricSink::builder().with_error_handler(|_| {}).build(gate),
        2 => QueuingMetricSink::builder().with_capacity(4096).with_error_handler(|_| {}).build(gate),
        _ => QueuingMetricSink::builder().with_error_handler(|_| {}).with_capacity(4096).build(gate),
    };
    let client = StatsdClient::from_sink("", q.clone());
    let mut got: Vec<Vec<u8>> = vec![];
    let (mut res, mut ns, mut accs) = (vec![], vec![], vec![]);
    let idle = |q: &QueuingMetricSink, st: &Arc<(Mutex<GSt>, Condvar)>| {
        // wait until the worker has handed over everything it can: queue drained (or the worker parked in the gate)
        let t0 = std::time::Instant::now();
        let mut calm = 0;
        while t0.elapsed() < std::time::Duration::from_secs(2) {
            let parked = st.0.lock().unwrap().parked;
            if (q.drained() >= q.submitted() || parked) && crate::queue::others_asleep() {
                calm += 1;
                if calm >= 2 {
                    break;
                }
            } else {
                calm = 0;
            }
            std::thread::sleep(std::time::Duration::from_micros(150));
        }
    };
    for op in ops.split(',') {
        let r = match &op[..1] {
            "E" => {
                let m = String::from_utf8(unhex(&op[1..])).expect("utf8");
                let r = q.emit(&m);
                idle(&q, &st);
                match r {
                    Ok(n) => format!("k{}", n),
                    Err(_) => "e".to_string(),
                }
            }
            "P" => {
                st.0.lock().unwrap().armed = true;
                "-".to_string()
            }
            "G" => {
                {
                    let (mx, cv) = &*st;
                    let mut g = mx.lock().unwrap();
                    g.armed = false;
                    if g.parked {
                        g.open = true;
                        cv.notify_all();
                        while g.parked {
                            g = cv.wait(g).unwrap();
                        }
                    }
                }
                idle(&q, &st);
                "-".to_string()
            }
            "F" => match q.flush() {
                Ok(()) => "k0".to_string(),
                Err(_) => "e".to_string(),
            },
            "C" => match client.flush() {
                Ok(()) => "k0".to_string(),
                Err(_) => "e".to_string(),
            },
            _ => panic!("bad QF op {}", op),
        };
        res.push(r);
        got.extend(rx.try_iter());
        ns.push(got.len().to_string());
        accs.push(st.0.lock().unwrap().log.len().to_string());
    }
    // let everything through, then drop the whole stack (the worker drops the buffered sink, which flushes)
    {
        let (mx, cv) = &*st;
        let mut g = mx.lock().unwrap();
        g.armed = false;
        if g.parked {
            g.open = true;
            cv.notify_all();
        }
    }
    idle(&q, &st);
    drop(client);
    drop(q);
    let t0 = std::time::Instant::now();
    while t0.elapsed() < std::time::Duration::from_millis(500) {
        got.extend(rx.try_iter());
        if crate::queue::others_asleep() && Arc::strong_count(&st) == 1 {
            break;
        }
        std::thread::sleep(std::time::Duration::from_micros(200));
    }
    got.extend(rx.try_iter());
    let log = st.0.lock().unwrap().log.join(",");
    format!(
        "R:{}|I:{}|M:{}|N:{}|A:{}",
        res.join(","),
        log,
        got.iter().map(|m| hex(m)).collect::<Vec<_>>().join(";"),
        ns.join(","),
        accs.join(",")
    )
}

// ------------------------------------------------------------------------------------------------
// CW: a writer history through the client

struct SharedTs {
    script: Vec<Outcome>,
    pos: usize,
    cur_op: usize,
    log: Vec<(usize, Vec<u8>, Outcome)>,
}

struct ScriptedTs(std::sync::Arc<std::sync::Mutex<SharedTs>>);

impl Write for ScriptedTs {
    fn write(&mut self, buf: &[u8]) -> io::Result<usize> {
        let mut s = self.0.lock().unwrap_or_else(|e| e.into_inner());
        let o = if s.pos < s.script.len() {
            let o = s.script[s.pos].clone();
            s.pos += 1;
            o
        } else {
            Outcome::Ok
        };
        let op = s.cur_op;
        s.log.push((op, buf.to_vec(), o.clone()));
        match o {
            Outcome::Ok => Ok(buf.len()),
            Outcome::Intr => Err(io::Error::new(ErrorKind::Interrupted, Payload(0))),
            Outcome::Err(id) => Err(io::Error::new(ERR_KINDS[(id as usize) % ERR_KINDS.len()], Payload(id))),
        }
    }
    fn flush(&mut self) -> io::Result<()> {
        Ok(())
    }
}

/// what the crate's own buffered sinks are, written by a user from the public pieces
struct UserBufferedSink {
    w: std::sync::Mutex<MultiLineWriter<ScriptedTs>>,
}

impl MetricSink for UserBufferedSink {
    fn emit(&self, metric: &str) -> io::Result<usize> {
        self.w.lock().unwrap_or_else(|e| e.into_inner()).write(metric.as_bytes())
    }
    fn flush(&self) -> io::Result<()> {
        self.w.lock().unwrap_or_else(|e| e.into_inner()).flush()
    }
}

fn res_metric(r: &cadence::MetricResult<()>) -> String {
    use std::error::Error;
    match r {
        Ok(()) => "k".to_string(),
        Err(e) => match e.source().and_then(|s| s.downcast_ref::<io::Error>()) {
            Some(ioe) if ioe.kind() == ErrorKind::Interrupted => "i".to_string(),
            Some(ioe) => format!("e{}", payload_of(ioe).unwrap_or(0)),
            None => "e?".to_string(),
        },
    }
}

fn run_client_writer(cap: usize, ending: &[u8], ops: &[Op], script: Vec<Outcome>) -> String {
    use cadence::ext::MetricBackend;
    let shared = std::sync::Arc::new(std::sync::Mutex::new(SharedTs { script, pos: 0, cur_op: 0, log: vec![] }));
    let ending = String::from_utf8(ending.to_vec()).expect("ending must be UTF-8");
    let sink = UserBufferedSink {
        w: std::sync::Mutex::new(MultiLineWriter::with_ending(ScriptedTs(shared.clone()), cap, &ending)),
    };
    let mut client = Some(cadence::StatsdClient::from_sink("", sink));
    let mut results: Vec<String> = vec![];
    let mut panicked = false;
    for (i, op) in ops.iter().enumerate() {
        shared.lock().unwrap_or_else(|e| e.into_inner()).cur_op = i;
        let c = client.as_ref().unwrap();
        let r = catch(|| match op {
            Op::Emit(m) => {
                let text = String::from_utf8(m.clone()).expect("CW payloads are UTF-8");
                res_metric(&c.send_metric(&cadence::Counter::from(text)))
            }
            Op::Flush => res_metric(&c.flush()),
        });
        match r {
            Ok(s) => results.push(s),
            Err(_) => {
                results.push("p".to_string());
                panicked = true;
                break;
            }
        }
    }
    shared.lock().unwrap_or_else(|e| e.into_inner()).cur_op = ops.len();
    if panicked {
        std::mem::forget(client.take());
    } else if catch(|| drop(client.take())).is_err() {
        results.push("p".to_string());
    }
    let s = shared.lock().unwrap_or_else(|e| e.into_inner());
    let log: Vec<String> = s
        .log
        .iter()
        .map(|(op, b, o)| format!("{}:{}:{}", op, hex(b), outcome_str(o)))
        .collect();
    format!("R:{}|L:{}", results.join(","), log.join(";"))
}

pub fn run_case(line: &str) -> String {
    let t: Vec<&str> = line.split_whitespace().collect();
    match t[0] {
        "CW" => {
            let cap: usize = t[1].parse().unwrap();
            let ending = unhex(t[2]);
            let ops = parse_ops(t[3]);
            let script = parse_script(t[4]);
            run_client_writer(cap, &ending, &ops, script)
        }
        "QF" => {
            let cap = if t[1] == "d" { None } else { Some(t[1].parse().unwrap()) };
            run_qf(cap, t[2])
        }
        "W" => {
            let cap: usize = t[1].parse().unwrap();
            let ending = unhex(t[2]);
            let ops = parse_ops(t[3]);
            let script = parse_script(t[4]);
            run_writer(cap, &ending, &ops, script)
        }
        "S" => {
            let cap = if t[1] == "d" { None } else { Some(t[1].parse().unwrap()) };
            let queue: Option<usize> = if t[2] == "u" { None } else { Some(t[2].parse().unwrap()) };
            let ops = parse_ops(t[3]);
            run_spy(cap, queue, &ops)
        }
        _ => panic!("bad mlw case {:?}", line),
    }
}
