(* C13 — Socket sinks put exactly the metric bytes on the wire.

   Pinned statements about Cadence.Model.Stats / Cadence.Model.Sock.  What is proved is what is
   handed to send_to (one call per emit, the metric's bytes unchanged, the configured
   destination, the OS's answer passed through) and, for the buffered sinks, that the datagram
   stream is the C05/C06 stream of the line-buffering writer with terminator "\n".  What the OS
   does with a datagram is outside any model: the correspondence check observes it on real
   local sockets (partial by nature, see DESIGN.md 8.C13). *)
Require Import Cadence.Base.Prelude.
Require Import Cadence.Model.Writer.
Require Import Cadence.Model.Stats.
Require Import Cadence.Model.Sock.
Require Import Cadence.Proofs.WriterBase.
Require Import Cadence.Proofs.WriterThms.
Require Import Cadence.Proofs.StatsProofs.
Require Import Cadence.Proofs.SockProofs.
Require Import Cadence.Proofs.SockFF.

(* an unbuffered sink: exactly one send per emit, payload = the metric's bytes, nothing added or
   removed, destination as configured; the result is the number of bytes (Ok) or the socket's error *)
Theorem c13_one_send : forall dest st (m : str) o,
  sock_emit dest st m o =
  ({| sd_dest := dest; sd_payload := m |},
   match o with OsOk => inl (N.of_nat (length m)) | OsErr k => inr k end,
   update st {| at_len := N.of_nat (length m);
                at_res := match o with OsOk => Some (N.of_nat (length m)) | OsErr _ => None end |}).
Proof. exact sock_emit_spec. Qed.

(* ... for every sequence of emits: one datagram per emit, in order *)
Theorem c13_sends : forall dest (ms : list str) st os,
  map (fun x => sd_payload (fst x)) (fst (sock_emits dest st ms os)) = ms /\
  Forall (fun x => sd_dest (fst x) = dest) (fst (sock_emits dest st ms os)).
Proof.
  intros dest ms. induction ms as [|m ms IH]; intros st os; cbn [sock_emits]; [split; constructor|].
  destruct os as [|o t]; rewrite sock_emit_spec.
  - destruct (IH (update st (attempt_of m OsOk)) []) as [A B].
    destruct (sock_emits dest (update st (attempt_of m OsOk)) ms []) as [rest st2]. cbn in *.
    split; [now rewrite A|constructor; auto].
  - destruct (IH (update st (attempt_of m o)) t) as [A B].
    destruct (sock_emits dest (update st (attempt_of m o)) ms t) as [rest st2]. cbn in *.
    split; [now rewrite A|constructor; auto].
Qed.

(* the destination is the first address the constructor argument resolves to; none = invalid input *)
Theorem c13_first_address : forall (a : N) (l : list N), get_addr (a :: l) = Some a /\ get_addr [] = None.
Proof. intros. split; reflexivity. Qed.

(* buffered sinks: every datagram is whole lines terminated by "\n" within the capacity (512 when
   none is given), or one oversized metric alone — C05 for the sink configuration *)
Theorem c13_buffered_frames : forall (co : option nat) (script : list outcome) (ops : list op) rs s dest,
  run_from (sink_init co script) 0 ops = (rs, s) ->
  let c := match co with Some n => n | None => 512 end in
  Forall (fun d => exists a, In a (lg (mlw_drop s (length ops))) /\ a_out a = WOk /\ sd_payload d = a_bytes a /\
                   sd_dest d = dest /\
                   match a_lab a with
                   | Lines ms => ms <> [] /\ a_bytes a = concat (map (fun g => snd g ++ [10%N]) ms) /\
                                 length (a_bytes a) <= c
                   | Alone m => a_bytes a = snd m /\ c < length (snd m) + 1
                   end)
         (datagrams dest (lg (mlw_drop s (length ops)))).
Proof.
  intros co script ops rs s dest H c.
  assert (F : Forall (frame_ok c newline) (lg (mlw_drop s (length ops)))).
  { apply (frame_all c newline script ops rs). unfold run.
    change (init c newline script) with (sink_init co script). now rewrite H. }
  unfold datagrams. apply Forall_forall. intros d Hd. apply in_flat_map in Hd.
  destruct Hd as (a & Ia & Hd). rewrite Forall_forall in F. specialize (F a Ia).
  destruct (a_out a) eqn:E; try contradiction. destruct Hd as [Hd|[]]. subst d.
  exists a. cbn. repeat split; auto.
Qed.

(* what remains buffered is sent when the sink is flushed (C06/C07 flush point) *)
Theorem c13_flush_sends_rest : forall c e script ops rs k s,
  run_from (init c e script) 0 (ops ++ [Flush]) = (rs ++ [OOk k], s) -> length rs = length ops ->
  bbuf s = [] /\ bids s = [].
Proof.
  intros c e script ops rs k s H L. destruct (flush_point c e script ops rs k s H L) as (A & B & _). auto.
Qed.

(* the statistics of a buffered sink count its datagrams: one attempt per underlying write *)
Theorem c13_buffered_stats : forall lg,
  let s := buffered_stats lg in
  packets_sent s = (sent_count (map attempt_of_log lg) mod 2 ^ 64)%N /\
  bytes_sent s = (sent_bytes (map attempt_of_log lg) mod 2 ^ 64)%N /\
  packets_dropped s = (dropped_count (map attempt_of_log lg) mod 2 ^ 64)%N /\
  bytes_dropped s = (dropped_bytes (map attempt_of_log lg) mod 2 ^ 64)%N.
Proof.
  intros lg0 s. destruct (updates_totals (map attempt_of_log lg0)) as (A & B & C & D). auto.
Qed.

(* a whole scenario on an unbuffered socket sink (what the correspondence check drives on real local
   sockets): for every script of emits and flushes while the listener goes away and comes back, the
   wire carries exactly the metrics emitted while the listener was there - their bytes unchanged, one
   datagram each, in order; every emit answers Ok(len) exactly when its datagram went out (always,
   behind a queuing sink); the statistics are the updates of these attempts *)
Theorem c13_scenario_unbuffered : forall queued ops,
  let es := sc_emits true ops in
  sc_unbuffered queued ops =
  (sc_answers queued true ops, map fst (filter snd es), updates stats0 (map att_of es)).
Proof. exact sc_unbuffered_spec. Qed.

(* ... on a buffered socket sink, whatever the listener does and whenever: every datagram that
   reaches the wire - those of the final drop included - is a non-empty run of whole lines
   "metric\n" within the capacity (512 unless configured), or one oversized metric alone *)
Theorem c13_scenario_buffered : forall co queued ops rs dg st,
  sc_buffered co queued ops = (rs, dg, st) ->
  let c := match co with Some n => n | None => 512 end in
  length rs = length ops /\
  Forall (fun d => (exists ms : list str, ms <> [] /\ d = concat (map (fun m => m ++ [10%N]) ms) /\ length d <= c) \/
                   (c < length d + 1)) dg.
Proof. exact sc_buffered_frames. Qed.

(* without an outage a buffered socket sink IS the fault-free line-buffering writer: answers and
   datagrams of the scenario are those of Writer.run with the empty fault script on the same emits
   and flushes (so everything C05/C06/C19 say about the writer holds of the sink) *)
Theorem c13_scenario_up : forall co queued ops, no_down ops ->
  let c := match co with Some n => n | None => default_capacity end in
  let '(xs, w) := Writer.run c newline [] (wops ops) in
  fst (sc_buffered co queued ops) = (sres_of queued ops xs, map sd_payload (datagrams 0 (lg w))).
Proof. exact sc_buffered_up. Qed.

(* exactly the metric bytes on the wire: metrics that fit a datagram leave as the byte stream
   m1 "\n" m2 "\n" ... - nothing added, removed, duplicated or reordered -, every emit answers
   Ok(len), and the datagrams are as few as greedy packing allows *)
Theorem c13_scenario_bytes : forall co queued (ms : list str),
  let c := match co with Some n => n | None => default_capacity end in
  Forall (fun m => length m + 1 <= c) ms ->
  let '(rs, dg, st) := sc_buffered co queued (map SEmit ms) in
  rs = map (fun m => SK (N.of_nat (length m))) ms /\
  concat dg = concat (map (fun m => m ++ [10%N]) ms) /\
  length (filter (fun d => match d with [] => false | _ => true end) dg) =
    Greedy.greedy_count c (map (fun m => length m + 1) ms).
Proof. exact sc_buffered_bytes. Qed.

(* non-vacuity *)
Example c13_witness :
  let '(rs, s) := run_from (sink_init (Some 16) []) 0 [Emit [102;111;111]; Emit [98;97;114]; Emit [98;97;122;122;122;122;122;122;122;122;122]; Flush]%N in
  map sd_payload (datagrams 7%N (lg s)) = [[102;111;111;10;98;97;114;10]; [98;97;122;122;122;122;122;122;122;122;122;10]]%N.
Proof. vm_compute. reflexivity. Qed.

(* a scenario with an outage: the refused metric and flush answer with the error, the metric
   emitted before the outage stays buffered and leaves with the final drop, the oversized one
   goes out alone at once *)
Example c13_scenario_witness :
  sc_buffered (Some 8) false [SEmit [97;98]; SDown; SEmit [99;100;101;102;103]; SFlush; SUp; SEmit [104];
                              SEmit [105;106;107;108;109;110;111;112;113]]%N
  = ([SK 2; SNone; SE; SE; SNone; SK 1; SK 9],
     [[105;106;107;108;109;110;111;112;113]; [97;98;10;104;10]],
     {| bytes_sent := 9; packets_sent := 1; bytes_dropped := 6; packets_dropped := 2 |})%N /\
  sc_unbuffered false [SEmit [97;98]; SDown; SEmit [99]; SFlush; SUp; SEmit [104]]%N
  = ([SK 2; SNone; SE; SK 0; SNone; SK 1], [[97;98]; [104]],
     {| bytes_sent := 3; packets_sent := 2; bytes_dropped := 1; packets_dropped := 1 |})%N.
Proof. vm_compute. split; reflexivity. Qed.

(* ==== added after the audit of 2026-10-02 (selftest/audit/REPORT-2026-10-02.md) ==== *)
(* ------------------------------------------------------------------ audit A.6 / A.10 additions *)
Require Import Cadence.Proofs.AuditS.

(* a flush at any position of any scenario on a buffered socket sink, with or without a queuing
   wrapper in front (QueuingMetricSink::flush calls the wrapped sink's flush), is answered by the
   writer's own flush of that moment: Ok when the listener is there or nothing is pending, the
   socket's error when lines are pending and the listener is away *)
Theorem c13_flush_answer : forall co q pre post rs0 s n up,
  sc_buf q true (sink_init co []) 0 pre = (rs0, s, n, up) ->
  nth_error (fst (fst (sc_buffered co q (pre ++ SFlush :: post)))) (length pre) =
  Some (match fst (step (with_script s up) n Flush) with OOk k => SK (N.of_nat k) | _ => SE end) /\
  fst (step (with_script s up) n Flush) =
    if up || match bbuf s with [] => true | _ => false end then OOk 0 else OErr 0.
Proof. exact sc_buffered_flush_at. Qed.

(* the queuing wrapper changes answers only: same datagrams (final drop included), same statistics *)
Theorem c13_queuing_same_wire : forall co q1 q2 ops,
  snd (fst (sc_buffered co q1 ops)) = snd (fst (sc_buffered co q2 ops)) /\
  snd (sc_buffered co q1 ops) = snd (sc_buffered co q2 ops).
Proof. exact sc_buffered_queued_same_wire. Qed.

(* content for "exactly one send per emit, the metric's bytes, the OS's answer" (c13_one_send
   restates the body of sock_emit): the unbuffered sink, specified by sock_emit, and the
   independently specified line-buffering writer agree where they must - a buffered socket sink of
   capacity 0 (every metric oversized: sent alone, unterminated, during its own emit) gives the same
   answers, the same datagrams and the same statistics as the unbuffered sink, for every scenario
   of emits, flushes and outages, with or without a queuing wrapper *)
Theorem c13_capacity0_is_unbuffered : forall q ops, sc_buffered (Some 0) q ops = sc_unbuffered q ops.
Proof. exact buffered_cap0_is_unbuffered. Qed.
Example c13_capacity0_witness :
  sc_buffered (Some 0) false [SEmit [1;2]; SDown; SEmit [3]; SFlush; SUp; SEmit []]%N =
  ([SK 2; SNone; SE; SK 0; SNone; SK 0], [[1;2]; []]%N,
   {| bytes_sent := 2; packets_sent := 2; bytes_dropped := 1; packets_dropped := 1 |})%N.
Proof. vm_compute. reflexivity. Qed.

(* Note after the second read-only review of these pins (selftest/audit/REVIEW-2-2026-10-02.md): c13_queuing_same_wire and c14_queuing_scenario are one statement pinned in two files; it holds because the flag 'queued' only selects the answer in Sock.sc_buf. *)
