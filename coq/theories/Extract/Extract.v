(* Extraction of the executable models to OCaml for the correspondence check.
   Only the directives of the standard library's ExtrOcamlBasic are used (bool,
   option, unit, list, prod, sumbool, sumor -> the OCaml types; andb/orb inlined);
   nat, positive, N and Z stay the extracted inductive types. *)
Require Import Cadence.Base.Prelude.
Require Import Cadence.Model.Writer.
Require Extraction.
Require Import ExtrOcamlBasic.
Extraction Language OCaml.

Extraction "../build/extracted/model.ml"
  Writer.run Writer.sink_init Writer.run_from Writer.mlw_drop.
