(* C16 — Queuing sink error handler sees each wrapped-sink failure exactly once.

   Pinned statements about Cadence.Model.Queue, [step true] = the repaired code.  q_handled is
   the log of handler invocations (metric, error); q_delivered the log of completed calls of
   the wrapped sink (metric, outcome); [handler] says whether with_error_handler was used.
   Vocabulary as in Props/C08.v;  errs d = [(m, e) | (m, SErr e) in d], in order. *)
Require Import Cadence.Base.Prelude.
Require Import Cadence.Model.Writer.
Require Import Cadence.Proofs.WriterBase.
Require Import Cadence.Proofs.WriterRun.
Require Import Cadence.Proofs.WriterThms.
Require Import Cadence.Model.Queue.
Require Import Cadence.Proofs.QueueInv.
Require Import Cadence.Proofs.QueueLive.
Require Import Cadence.Proofs.StackProofs.

(* in every state of every history: with a handler, the handler log is exactly the failures of
   the wrapped sink, in order, once each, with that very error — and nothing for a metric the
   wrapped sink accepted or panicked on; without a handler it is empty *)
Theorem c16_exact : forall cap handler evs s rs,
  run true (init_q cap handler) evs = Some (s, rs) ->
  q_handled s = if handler then errs (q_delivered s) else [].
Proof. exact reach_handled. Qed.

Theorem c16_errs : forall d m e,
  In (m, e) (errs d) <-> In (m, SErr e) d.
Proof. exact errs_in. Qed.

(* each failing metric is handled exactly once (identities in the delivery log are unique) *)
Theorem c16_once : forall cap evs s rs m e,
  run true (init_q cap true) evs = Some (s, rs) -> In (m, e) (q_handled s) ->
  In (m, SErr e) (q_delivered s) /\
  count_occ Nat.eq_dec (map fst (q_delivered s)) m = 1 /\
  NoDup (map fst (q_handled s)).
Proof. exact reach_handled_once. Qed.

(* before the next metric is processed: the handler entry is appended by the very event that
   completes the failing call (the worker's EWFinish, while it still holds that metric and has
   not gone back to recv), hence before any later EWDequeue / EWStep / EWFinish; an Ok or a
   panic appends nothing *)
Theorem c16_before_next : forall fixed s o s' r,
  step fixed s (EWFinish o) = Some (s', r) ->
  exists id, q_wk s = WCounted id /\ q_wk s' = WRecv /\ r = RNone /\
    q_delivered s' = q_delivered s ++ [(id, o)] /\
    q_handled s' = q_handled s ++ match o with
                                  | SErr e => if q_handler s then [(id, e)] else []
                                  | _ => []
                                  end.
Proof.
  intros fixed s o s' r H. apply step_finish_spec in H.
  destruct H as (id & A & B & C & D & E & _). exists id. auto.
Qed.

(* only that worker-side event ever touches the handler log: it is never run by a caller *)
Theorem c16_actor : forall fixed s ev s' r,
  step fixed s ev = Some (s', r) -> ~ is_finish ev ->
  q_handled s' = q_handled s /\ q_delivered s' = q_delivered s.
Proof.
  intros fixed s ev s' r H N. destruct (step_actor _ _ _ _ _ H N) as (A & B & _). auto.
Qed.

(* without a handler the error is discarded and later metrics are delivered as usual: the log
   stays empty, the commit equation and eventual delivery hold (they are stated for both
   handler settings in C08; here spelled out for handler = false and a failing script) *)
Theorem c16_no_handler : forall cap evs s rs outs fuel,
  run true (init_q cap false) evs = Some (s, rs) -> mu s < fuel ->
  let s' := quiesce true fuel s outs in
  q_handled s = [] /\ q_handled s' = [] /\
  map fst (q_delivered s) ++ inflight (q_wk s) ++ somes (q_chan s) = seq 0 (q_accepted s) /\
  q_delivered s' = q_delivered s ++ answers (pending_ids s) outs /\
  map fst (q_delivered s') = seq 0 (q_accepted s).
Proof. exact no_handler_eventually. Qed.

(* with a handler, after the background side has run: the log is the failures so far plus the
   failures scripted for the remaining metrics, in order *)
Theorem c16_eventually : forall cap evs s rs outs fuel,
  run true (init_q cap true) evs = Some (s, rs) -> mu s < fuel ->
  let s' := quiesce true fuel s outs in
  q_handled s' = q_handled s ++ errs (answers (pending_ids s) outs).
Proof. exact handler_eventually. Qed.

(* end to end with a BUFFERED wrapped sink (client -> QueuingMetricSink -> buffered sink over a
   socket that may refuse any write): when the outcomes the worker saw are the writer's results for
   the delivered metrics, the queue's handler has been given exactly the writer's error results -
   each once, in order, with the identity of its metric -, every such error is one the socket
   returned during that very emit, and the writer's framing (C05) and ledger (C07) hold for what the
   worker was told was accepted *)
Theorem c16_stack : forall cap evs s rs c e script pay xs w,
  Queue.run true (init_q cap true) evs = Some (s, rs) ->
  Writer.run_from (init c e script) 0 (delivered_ops pay (q_delivered s)) = (xs, w) ->
  map snd (q_delivered s) = map sout_of xs ->
  q_handled s = werrs (map fst (q_delivered s)) xs /\
  (forall i er, nth_error xs i = Some (OErr er) ->
     exists a, In a (lg w) /\ a_op a = i /\ a_out a = WErr er) /\
  Forall (frame_ok c e) (lg w) /\
  filter (nzb e) (sentL (lg w) ++ bids w) =
    filter (nzb e) (fit_ids c e (acked 0 (delivered_ops pay (q_delivered s)) xs)) /\
  sentA (lg w) = big_ids c e (acked 0 (delivered_ops pay (q_delivered s)) xs).
Proof. exact stack_faults. Qed.

(* non-vacuity: Ok / Err / panic patterns with and without a handler *)
Example c16_witness :
  let go handler :=
    match run true (init_q None handler)
              [ETrySend; ETrySend; ETrySend; ETrySend; EWDequeue; EWStep; EWFinish (SErr 4);
               EWDequeue; EWStep; EWFinish SOk; EDropH] with
    | Some (s, _) =>
      let s' := quiesce true (fuel_of s) s [SPanic; SErr 9] in
      Some (q_handled s, q_delivered s', q_handled s', q_wk s')
    | None => None
    end in
  go true = Some ([(0, 4)], [(0, SErr 4); (1, SOk); (2, SPanic); (3, SErr 9)], [(0, 4); (3, 9)], WExited) /\
  go false = Some ([], [(0, SErr 4); (1, SOk); (2, SPanic); (3, SErr 9)], [], WExited).
Proof. vm_compute. split; reflexivity. Qed.

(* ==== added after the audit of 2026-10-02 (selftest/audit/REPORT-2026-10-02.md) ==== *)
Require Import Cadence.Proofs.AuditQ.

(* the handler log at the end of EVERY maximal background schedule: extended by exactly the
   failures among the pending metrics paired with the outcomes the schedule's completions
   carried (one outcome per pending metric); nothing without a handler *)
Theorem c16_any_schedule : forall cap handler evs s rs wevs s' wrs,
  Queue.run true (init_q cap handler) evs = Some (s, rs) ->
  Forall worker_side wevs -> Queue.run true s wevs = Some (s', wrs) -> stuck true s' ->
  q_handled s' = q_handled s ++
    (if handler then errs (combine (pending_ids s) (finish_outs wevs)) else []) /\
  length (finish_outs wevs) = length (pending_ids s).
Proof. exact handler_any_schedule. Qed.

(* [c16_stack] for any handler setting, plus: a buffered wrapped sink never panics, so under the
   coupled hypothesis no delivery outcome is a panic and the panic counter is 0 *)
Theorem c16_stack_any : forall cap handler evs s rs c e script pay xs w,
  Queue.run true (init_q cap handler) evs = Some (s, rs) ->
  Writer.run_from (init c e script) 0 (delivered_ops pay (q_delivered s)) = (xs, w) ->
  map snd (q_delivered s) = map sout_of xs ->
  q_handled s = (if handler then werrs (map fst (q_delivered s)) xs else []) /\
  map fst (q_delivered s) = seq 0 (length (q_delivered s)) /\
  (forall i, nth_error xs i <> Some OPanic) /\
  (forall i, nth_error (map snd (q_delivered s)) i <> Some SPanic) /\
  q_panics s = 0.
Proof. exact stack_faults_any. Qed.

(* joint non-vacuity of [c16_stack]: the coupled hypothesis in the MIDDLE of a history (a handle
   alive, the worker processing metric 4, metric 5 queued, the writer not dropped) under the
   fault script [ok; ok; error 5]; see also c09_stack_joint_witness_1/2 in Props/C09.v *)
Example c16_stack_joint_witness :
  let script := [WOk; WOk; WErr 5]%N in
  match Queue.run true (init_q (Some 2) true)
          [ETrySend; ETrySend; EWDequeue; ETrySend; ETrySend; EWStep; EIncSubmitted;
           EWFinish SOk; EWDequeue; EWStep; EClone; ETrySend; EWFinish SOk; EWDequeue; EWStep;
           EWFinish SOk; EDropH; ETrySend; EWDequeue; EWStep; ETrySend; EWFinish (SErr 5);
           EWDequeue; EWStep] with
  | Some (s, rs) =>
    let '(xs, w) := Writer.run_from (init 8 [10%N] script) 0 (delivered_ops wit_pay (q_delivered s)) in
    (q_wk s, q_handles s, q_chan s) = (WCounted 4, 1, [Some 5]) /\
    map snd (q_delivered s) = map sout_of xs /\
    xs = [OOk 3; OOk 5; OOk 10; OErr 5%N] /\
    q_handled s = [(3, 5)] /\ q_handled s = werrs (map fst (q_delivered s)) xs /\
    map fst (sentL (lg w)) = [0] /\ map fst (bids w) = [1] /\ map fst (sentA (lg w)) = [2]
  | None => False
  end.
Proof. exact stack_joint_witness_mid. Qed.
