(* Singleton (C18): list lemmas and the case analysis of one step of the view machine. *)
Require Import Cadence.Base.Prelude.
Require Import Cadence.Model.Singleton.

(* ------------------------------------------------------------------ lists *)

Lemma upd_length {A} (l : list A) n x : length (sg_upd n x l) = length l.
Proof.
  revert n; induction l as [|y l IH]; intros [|n]; cbn [sg_upd length]; auto.
Qed.

Lemma upd_same {A} (l : list A) n x y :
  nth_error l n = Some y -> nth_error (sg_upd n x l) n = Some x.
Proof.
  revert n; induction l as [|z l IH]; intros [|n] H; cbn in *; try discriminate; auto.
Qed.

Lemma upd_other {A} (l : list A) n x m :
  m <> n -> nth_error (sg_upd n x l) m = nth_error l m.
Proof.
  revert n m; induction l as [|z l IH]; intros [|n] [|m] H; cbn; auto; try congruence.
Qed.

Lemma upd_cases {A} (l : list A) n x m y :
  nth_error (sg_upd n x l) m = Some y ->
  (m = n /\ y = x) \/ (m <> n /\ nth_error l m = Some y).
Proof.
  revert n m; induction l as [|z l IH]; intros [|n] [|m] H; cbn in *; try discriminate.
  - left; split; congruence.
  - right; split; auto.
  - right; split; auto.
  - destruct (IH _ _ H) as [[-> ->]|[Hn Hm]]; [left|right]; auto.
Qed.

Lemma snoc_cases {A} (l : list A) x k y :
  nth_error (l ++ [x]) k = Some y ->
  (k < length l /\ nth_error l k = Some y) \/ (k = length l /\ y = x).
Proof.
  intros H. destruct (Nat.lt_ge_cases k (length l)) as [Hlt|Hge].
  - left. split; auto. now rewrite nth_error_app1 in H.
  - right. rewrite nth_error_app2 in H by lia.
    destruct (k - length l) as [|d] eqn:E; cbn in H.
    + split; [lia|congruence].
    + destruct d; discriminate.
Qed.

Lemma snoc_old {A} (l : list A) x k y :
  nth_error l k = Some y -> nth_error (l ++ [x]) k = Some y.
Proof.
  intros H. rewrite nth_error_app1; auto. apply nth_error_Some. congruence.
Qed.

Lemma snoc_new {A} (l : list A) x : nth_error (l ++ [x]) (length l) = Some x.
Proof. rewrite nth_error_app2 by lia. now rewrite Nat.sub_diag. Qed.

Lemma nth_lt {A} (l : list A) k y : nth_error l k = Some y -> k < length l.
Proof. intros H. apply nth_error_Some. congruence. Qed.

Lemma mem_nat_In j l : mem_nat j l = true <-> In j l.
Proof.
  unfold mem_nat. rewrite existsb_exists. split.
  - intros [x [Hx E]]. apply Nat.eqb_eq in E. now subst.
  - intros H. exists j. split; auto. apply Nat.eqb_refl.
Qed.

Lemma filter_snoc {A} (f : A -> bool) l x :
  filter f (l ++ [x]) = if f x then filter f l ++ [x] else filter f l.
Proof.
  induction l as [|y l IH]; cbn.
  - destruct (f x); reflexivity.
  - rewrite IH. destruct (f y), (f x); reflexivity.
Qed.

(* ------------------------------------------------------------------ the machine *)

Definition vals (s : sg_state) : list nat := map mval (g_msgs s).
Definition thr_at (s : sg_state) (t : nat) (th : sg_thr) : Prop := nth_error (g_thrs s) t = Some th.
Definition rec_at (s : sg_state) (k : nat) (r : sg_rec) : Prop := nth_error (g_trace s) k = Some r.

Lemma vals_nth s i m : nth_error (g_msgs s) i = Some m -> nth_error (vals s) i = Some (mval m).
Proof. intros H. unfold vals. now apply map_nth_error. Qed.

Lemma vals_length s : length (vals s) = length (g_msgs s).
Proof. unfold vals. apply map_length. Qed.

Lemma rd_idx_bounds tv n r : tv < n -> tv <= rd_idx tv (n - 1) r /\ rd_idx tv (n - 1) r < n.
Proof. unfold rd_idx. lia. Qed.

Lemma races_from_reads i known accs :
  Forall (fun a => acc_write a = false) accs -> races_from i known false accs = false.
Proof.
  intros H. revert i. induction H as [|a l Ha _ IH]; intros i; cbn [races_from]; auto.
  rewrite Ha, IH. reflexivity.
Qed.

Lemma sg_run_snoc os progs sched x :
  sg_run os progs (sched ++ [x]) = sg_step os (sg_run os progs sched) x.
Proof. unfold sg_run. now rewrite fold_left_app. Qed.

Lemma sg_run_app os progs a b :
  sg_run os progs (a ++ b) = fold_left (sg_step os) b (sg_run os progs a).
Proof. unfold sg_run. now rewrite fold_left_app. Qed.

(* One step, as a relation: either nothing happened, or exactly one of eight instructions ran. *)
Inductive step_case (os : ords) (s : sg_state) (t : nat) (th : sg_thr) : sg_state -> Prop :=
  | SC_cas_ok v rest i m :
      th_pc th = PIdle -> th_calls th = CSet v :: rest ->
      th_idx th <= i -> i = length (g_msgs s) - 1 -> nth_error (g_msgs s) i = Some m -> mval m = UNSET ->
      step_case os s t th
        (let kn := join_if (acquires (o_cas_ok os)) (th_known th) (mview m) in
         sg_commit s t {| th_idx := S i; th_known := kn; th_pc := PWrite v; th_calls := th_calls th |}
           (g_msgs s ++ [{| mval := LOADING; mview := (if releases (o_cas_ok os) then kn else []) ++ mview m |}])
           (OpCas (o_cas_ok os) (o_cas_fail os) i (mval m) true) None)
  | SC_cas_fail v rest i m :
      th_pc th = PIdle -> th_calls th = CSet v :: rest ->
      th_idx th <= i -> i < length (g_msgs s) -> nth_error (g_msgs s) i = Some m -> mval m <> UNSET ->
      step_case os s t th
        (sg_commit s t {| th_idx := i; th_known := join_if (acquires (o_cas_fail os)) (th_known th) (mview m);
                          th_pc := PIdle; th_calls := rest |}
           (g_msgs s) (OpCas (o_cas_ok os) (o_cas_fail os) i (mval m) false) (Some RUnit))
  | SC_get_hit rest i m :
      th_pc th = PIdle -> th_calls th = CGet :: rest ->
      th_idx th <= i -> i < length (g_msgs s) -> nth_error (g_msgs s) i = Some m -> mval m = COMPLETE ->
      step_case os s t th
        (sg_commit s t {| th_idx := i; th_known := join_if (acquires (o_load os)) (th_known th) (mview m);
                          th_pc := PRead; th_calls := th_calls th |}
           (g_msgs s) (OpLoad (o_load os) i (mval m)) None)
  | SC_get_miss rest i m :
      th_pc th = PIdle -> th_calls th = CGet :: rest ->
      th_idx th <= i -> i < length (g_msgs s) -> nth_error (g_msgs s) i = Some m -> mval m <> COMPLETE ->
      step_case os s t th
        (sg_commit s t {| th_idx := i; th_known := join_if (acquires (o_load os)) (th_known th) (mview m);
                          th_pc := PIdle; th_calls := rest |}
           (g_msgs s) (OpLoad (o_load os) i (mval m)) (Some (RGet None)))
  | SC_is_set rest i m :
      th_pc th = PIdle -> th_calls th = CIsSet :: rest ->
      th_idx th <= i -> i < length (g_msgs s) -> nth_error (g_msgs s) i = Some m ->
      step_case os s t th
        (sg_commit s t {| th_idx := i; th_known := join_if (acquires (o_load os)) (th_known th) (mview m);
                          th_pc := PIdle; th_calls := rest |}
           (g_msgs s) (OpLoad (o_load os) i (mval m)) (Some (RIsSet (mval m =? COMPLETE))))
  | SC_write v :
      th_pc th = PWrite v ->
      step_case os s t th (sg_access_cell s t th true (Some v) PStore (th_calls th) None)
  | SC_store :
      th_pc th = PStore ->
      step_case os s t th
        (sg_commit s t {| th_idx := S (length (g_msgs s) - 1); th_known := th_known th; th_pc := PIdle;
                          th_calls := tl (th_calls th) |}
           (g_msgs s ++ [{| mval := COMPLETE; mview := if releases (o_store os) then th_known th else [] |}])
           (OpStore (o_store os) (S (length (g_msgs s) - 1)) COMPLETE) (Some RUnit))
  | SC_read :
      th_pc th = PRead ->
      step_case os s t th
        (sg_access_cell s t th false (g_cell s) PIdle (tl (th_calls th)) (Some (RGet (g_cell s)))).

Lemma sg_step_cases os s t r :
  (forall t th, thr_at s t th -> th_idx th < length (g_msgs s)) ->
  sg_step os s (t, r) = s \/
  exists th, thr_at s t th /\ step_case os s t th (sg_step os s (t, r)).
Proof.
  intros Hidx. unfold sg_step.
  destruct (nth_error (g_thrs s) t) as [th|] eqn:Eth; [|now left].
  pose proof (Hidx _ _ Eth) as Hlt.
  destruct (rd_idx_bounds (th_idx th) (length (g_msgs s)) r Hlt) as [Hlo Hhi].
  set (i := rd_idx (th_idx th) (length (g_msgs s) - 1) r) in *.
  destruct (th_pc th) eqn:Epc.
  - destruct (th_calls th) as [|c rest] eqn:Ec; [now left|].
    destruct c.
    + destruct (nth_error (g_msgs s) i) as [m|] eqn:Em; [|now left].
      destruct (mval m =? UNSET) eqn:Ev.
      * destruct (i =? length (g_msgs s) - 1) eqn:Ei; [|now left].
        right. exists th. split; [exact Eth|].
        apply Nat.eqb_eq in Ev. apply Nat.eqb_eq in Ei.
        rewrite <- Ec.
        replace (S (length (g_msgs s) - 1)) with (S i) by lia.
        eapply SC_cas_ok; eauto.
      * right. exists th. split; [exact Eth|].
        apply Nat.eqb_neq in Ev. eapply SC_cas_fail; eauto.
    + destruct (nth_error (g_msgs s) i) as [m|] eqn:Em; [|now left].
      right. exists th. split; [exact Eth|].
      destruct (mval m =? COMPLETE) eqn:Ev.
      * apply Nat.eqb_eq in Ev. rewrite <- Ec. eapply SC_get_hit; eauto.
      * apply Nat.eqb_neq in Ev. eapply SC_get_miss; eauto.
    + destruct (nth_error (g_msgs s) i) as [m|] eqn:Em; [|now left].
      right. exists th. split; [exact Eth|]. eapply SC_is_set; eauto.
  - right. exists th. split; [exact Eth|]. now apply SC_write.
  - right. exists th. split; [exact Eth|]. now apply SC_store.
  - right. exists th. split; [exact Eth|]. now apply SC_read.
Qed.
