(* Audit follow-up (worker S): statistics counters (A.1), the executed hint root
   Hint.call_hint (A.5), flushes through the client / queuing wrappers (A.6), the answers of a
   buffered sink behind a queuing wrapper (A.10).  New theorems only; the two wrapper functions
   [client_flush] / [queuing_flush] and the histories [hop] are NEW DEFINITIONS of this file. *)
Require Import Cadence.Base.Prelude.
Require Import Cadence.Base.MachineInt.
Require Import Cadence.Model.Convert.
Require Import Cadence.Model.Wire.
Require Import Cadence.Model.Client.
Require Import Cadence.Model.Hint.
Require Import Cadence.Model.Writer.
Require Import Cadence.Model.Stats.
Require Import Cadence.Model.Sock.
Require Import Cadence.Proofs.WireDefs.
Require Import Cadence.Proofs.WireProofs.
Require Import Cadence.Proofs.HintProofs.
Require Import Cadence.Proofs.WriterBase.
Require Import Cadence.Proofs.WriterInv.
Require Import Cadence.Proofs.WriterRun.
Require Import Cadence.Proofs.WriterThms.
Require Import Cadence.Proofs.StatsProofs.
Require Import Cadence.Proofs.SockProofs.

(* ====================================================================== A.1  statistics *)
Section StatsA1.
Local Open Scope N_scope.

Lemma W64s_pos : Stats.W64 <> 0.
Proof. exact StatsProofs.W64_pos. Qed.

(* what [wadd] IS: addition modulo 2^64.  A model whose wadd were plain addition fails this
   (see [wadd_not_plain] below). *)
Theorem wadd_is_add_mod : forall a b, wadd a b = (a + b) mod 2 ^ 64.
Proof. intros a b. reflexivity. Qed.

Theorem wadd_bounded : forall a b, wadd a b < Stats.W64.
Proof. intros a b. unfold wadd. apply N.mod_lt, W64s_pos. Qed.

Theorem wadd_bounded_pow : forall a b, wadd a b < 2 ^ 64.
Proof. exact wadd_bounded. Qed.

(* no wrap while the true sum fits ... *)
Theorem wadd_exact : forall a b, a + b < 2 ^ 64 -> wadd a b = a + b.
Proof. intros a b H. unfold wadd. apply N.mod_small. exact H. Qed.

(* ... and exactly one wrap otherwise (for 64-bit operands) *)
Theorem wadd_wraps : forall a b, a < 2 ^ 64 -> b < 2 ^ 64 -> 2 ^ 64 <= a + b ->
  wadd a b = a + b - 2 ^ 64.
Proof.
  intros a b Ha Hb H. unfold wadd, Stats.W64.
  assert (E : a + b = (a + b - 2 ^ 64) + 1 * 2 ^ 64) by lia.
  rewrite E at 1. rewrite N.mod_add by (apply N.pow_nonzero; discriminate).
  apply N.mod_small. lia.
Qed.

(* the wrap really happens: u64::MAX + 1 = 0, so wadd is NOT plain addition *)
Example wadd_max_one : wadd (2 ^ 64 - 1) 1 = 0.
Proof. vm_compute. reflexivity. Qed.
Theorem wadd_not_plain : exists a b, a < 2 ^ 64 /\ b < 2 ^ 64 /\ wadd a b <> a + b.
Proof. exists (2 ^ 64 - 1), 1. repeat split; try (apply N.ltb_lt; reflexivity). vm_compute. discriminate. Qed.

(* SocketStats::update, spelled out: an accepted attempt adds what was written / one packet to
   the sent counters, a refused one adds the size offered / one packet to the dropped counters,
   each modulo 2^64; the other two counters are untouched *)
Theorem update_spec : forall st a,
  update st a =
  match at_res a with
  | Some w => {| bytes_sent := (bytes_sent st + w) mod 2 ^ 64;
                 packets_sent := (packets_sent st + 1) mod 2 ^ 64;
                 bytes_dropped := bytes_dropped st; packets_dropped := packets_dropped st |}
  | None => {| bytes_sent := bytes_sent st; packets_sent := packets_sent st;
               bytes_dropped := (bytes_dropped st + at_len a) mod 2 ^ 64;
               packets_dropped := (packets_dropped st + 1) mod 2 ^ 64 |}
  end.
Proof.
  intros st a. unfold update, update_incrs. destruct (at_res a); reflexivity.
Qed.

(* the counters an update touches are 64-bit values afterwards, whatever they were before *)
Theorem update_touched_bounded : forall st a,
  let st' := update st a in
  match at_res a with
  | Some _ => bytes_sent st' < 2 ^ 64 /\ packets_sent st' < 2 ^ 64
  | None => bytes_dropped st' < 2 ^ 64 /\ packets_dropped st' < 2 ^ 64
  end.
Proof.
  intros st a. cbv zeta. rewrite update_spec.
  destruct (at_res a); cbn [bytes_sent packets_sent bytes_dropped packets_dropped];
    split; apply N.mod_lt; apply N.pow_nonzero; discriminate.
Qed.

Lemma apply_incr_wf s i : wf s -> wf (apply_incr s i).
Proof.
  intros (A & B & C & D).
  destruct i; unfold wf; cbn [apply_incr bytes_sent packets_sent bytes_dropped packets_dropped];
    repeat split; auto; apply wadd_bounded.
Qed.

Lemma fold_incr_wf l : forall s, wf s -> wf (fold_left apply_incr l s).
Proof.
  induction l as [|i l IH]; intros s H; cbn [fold_left]; [exact H|].
  apply IH, apply_incr_wf, H.
Qed.

(* A.1: all four counters stay below 2^64 across an update ... *)
Theorem stats_wf_update : forall st a,
  (bytes_sent st < 2 ^ 64 /\ packets_sent st < 2 ^ 64 /\
   bytes_dropped st < 2 ^ 64 /\ packets_dropped st < 2 ^ 64) ->
  let st' := update st a in
  (bytes_sent st' < 2 ^ 64 /\ packets_sent st' < 2 ^ 64 /\
   bytes_dropped st' < 2 ^ 64 /\ packets_dropped st' < 2 ^ 64).
Proof.
  intros st a H. cbv zeta. unfold update. exact (fold_incr_wf _ _ H).
Qed.

(* ... hence across any list of attempts ... *)
Theorem stats_wf_updates : forall l st,
  (bytes_sent st < 2 ^ 64 /\ packets_sent st < 2 ^ 64 /\
   bytes_dropped st < 2 ^ 64 /\ packets_dropped st < 2 ^ 64) ->
  let st' := updates st l in
  (bytes_sent st' < 2 ^ 64 /\ packets_sent st' < 2 ^ 64 /\
   bytes_dropped st' < 2 ^ 64 /\ packets_dropped st' < 2 ^ 64).
Proof.
  intros l st H. cbv zeta. rewrite updates_as_incrs. exact (fold_incr_wf _ _ H).
Qed.

(* ... and from the zeroed counters of a new sink: always *)
Theorem stats_wf_from_zero : forall l,
  let st := updates stats0 l in
  (bytes_sent st < 2 ^ 64 /\ packets_sent st < 2 ^ 64 /\
   bytes_dropped st < 2 ^ 64 /\ packets_dropped st < 2 ^ 64).
Proof. intros l. apply stats_wf_updates. exact wf0. Qed.

(* the totals from ANY 64-bit starting point (StatsProofs.updates_totals is the case stats0):
   each counter is its old value plus the true total, modulo 2^64 *)
Theorem updates_totals_from : forall l st,
  (bytes_sent st < 2 ^ 64 /\ packets_sent st < 2 ^ 64 /\
   bytes_dropped st < 2 ^ 64 /\ packets_dropped st < 2 ^ 64) ->
  let st' := updates st l in
  bytes_sent st' = (bytes_sent st + sent_bytes l) mod 2 ^ 64 /\
  packets_sent st' = (packets_sent st + sent_count l) mod 2 ^ 64 /\
  bytes_dropped st' = (bytes_dropped st + dropped_bytes l) mod 2 ^ 64 /\
  packets_dropped st' = (packets_dropped st + dropped_count l) mod 2 ^ 64.
Proof.
  intros l st H. cbv zeta. rewrite updates_as_incrs.
  destruct (fold_incr_totals (all_incrs l) st H) as (A & B & C & D & _).
  destruct (incrs_totals l) as (E1 & E2 & E3 & E4).
  rewrite A, B, C, D, E1, E2, E3, E4. repeat split; reflexivity.
Qed.

(* the sinks: the statistics of an unbuffered socket sink after any emits and OS answers, and of
   a buffered socket sink after any log of underlying writes, are 64-bit values *)
Theorem sock_emits_wf : forall dest ms os st,
  (bytes_sent st < 2 ^ 64 /\ packets_sent st < 2 ^ 64 /\
   bytes_dropped st < 2 ^ 64 /\ packets_dropped st < 2 ^ 64) ->
  let st' := snd (sock_emits dest st ms os) in
  (bytes_sent st' < 2 ^ 64 /\ packets_sent st' < 2 ^ 64 /\
   bytes_dropped st' < 2 ^ 64 /\ packets_dropped st' < 2 ^ 64).
Proof.
  intros dest ms os st H. cbv zeta.
  pose proof (sock_emits_spec dest ms st os) as E. cbv zeta in E. rewrite E. cbn [snd].
  apply stats_wf_updates. exact H.
Qed.

Theorem buffered_stats_wf : forall lg,
  let st := buffered_stats lg in
  (bytes_sent st < 2 ^ 64 /\ packets_sent st < 2 ^ 64 /\
   bytes_dropped st < 2 ^ 64 /\ packets_dropped st < 2 ^ 64).
Proof. intros lg. unfold buffered_stats. apply stats_wf_from_zero. Qed.

(* a history of attempts that does wrap: 2^64 - 1 bytes sent, then 2 more *)
Example stats_wrap_witness :
  let st := updates stats0 [ {| at_len := 2 ^ 64 - 1; at_res := Some (2 ^ 64 - 1) |};
                             {| at_len := 2; at_res := Some 2 |};
                             {| at_len := 7; at_res := None |} ] in
  (bytes_sent st, packets_sent st, bytes_dropped st, packets_dropped st) = (1, 2, 7, 1).
Proof. vm_compute. reflexivity. Qed.

End StatsA1.

Print Assumptions wadd_is_add_mod.
Print Assumptions wadd_bounded.
Print Assumptions wadd_exact.
Print Assumptions wadd_wraps.
Print Assumptions wadd_not_plain.
Print Assumptions update_spec.
Print Assumptions update_touched_bounded.
Print Assumptions stats_wf_update.
Print Assumptions stats_wf_updates.
Print Assumptions stats_wf_from_zero.
Print Assumptions updates_totals_from.
Print Assumptions sock_emits_wf.
Print Assumptions buffered_stats_wf.

(* ====================================================================== A.5  the executed hint root *)
Section HintA5.
Local Open Scope N_scope.
Local Arguments N.add : simpl never.
Local Arguments N.mul : simpl never.
Local Arguments N.sub : simpl never.
Local Arguments N.pow : simpl never.

Notation MW64 := MachineInt.W64.

(* inversion of the checked operations *)
Lemma uadd_inv a b c : uadd a b = Some c -> c = a + b /\ a + b < MW64.
Proof. unfold uadd. destruct (N.ltb_spec (a + b) MW64); intros E; inversion E; auto. Qed.
Lemma umul_inv a b c : umul a b = Some c -> c = a * b /\ a * b < MW64.
Proof. unfold umul. destruct (N.ltb_spec (a * b) MW64); intros E; inversion E; auto. Qed.
Lemma usub_inv a b c : usub a b = Some c -> c = a - b /\ b <= a.
Proof. unfold usub. destruct (N.leb_spec b a); intros E; inversion E; auto. Qed.
Lemma obind_inv {A B} (x : option A) (f : A -> option B) r :
  obind x f = Some r -> exists a, x = Some a /\ f a = Some r.
Proof. destruct x as [a|]; cbn [obind]; intros H; [exists a; auto|discriminate]. Qed.

Lemma kv_step_inv k t r : kv_step (Some k) t = Some r -> r = k + tag_bytes t.
Proof.
  destruct t as [[tk|] tv]; unfold kv_step, tag_bytes; cbn [obind].
  - intros H. apply obind_inv in H. destruct H as (a & Ha & H).
    apply obind_inv in H. destruct H as (b & Hb & H).
    apply uadd_inv in Ha. apply uadd_inv in Hb. apply uadd_inv in H. lia.
  - intros H. apply uadd_inv in H. lia.
Qed.

Lemma kv_fold_none ts : fold_left kv_step ts None = None.
Proof. induction ts as [|t ts IH]; [reflexivity|]. cbn [fold_left kv_step obind]. exact IH. Qed.

Lemma kv_fold_inv ts : forall k r, fold_left kv_step ts (Some k) = Some r -> r = k + kv_total ts.
Proof.
  induction ts as [|t ts IH]; intros k r H.
  - cbn in H. inversion H. cbn [kv_total fold_right]. lia.
  - cbn [fold_left] in H. destruct (kv_step (Some k) t) as [k'|] eqn:E.
    + apply kv_step_inv in E. apply IH in H. rewrite kv_total_cons. lia.
    + rewrite kv_fold_none in H. discriminate.
Qed.

Lemma tag_size_hint_inv ts r : tag_size_hint ts = Some r -> r = tag_hint_value ts.
Proof.
  unfold tag_size_hint, tag_hint_value. destruct ts as [|t ts]; [intros H; inversion H; reflexivity|].
  set (l := t :: ts). intros H.
  apply obind_inv in H. destruct H as (kv & Hkv & H).
  apply obind_inv in H. destruct H as (a & Ha & H).
  apply obind_inv in H. destruct H as (b & Hb & H).
  unfold kv_size in Hkv. apply kv_fold_inv in Hkv.
  apply uadd_inv in Ha. apply uadd_inv in Hb. apply usub_inv in H. lia.
Qed.

(* whenever the checked computation of the hint succeeds, its value is [hint_value] and it is a
   64-bit value: the converse of HintProofs.size_hint_spec *)
Theorem size_hint_inv : forall f h, size_hint f = Some h -> h = hint_value f /\ h < MW64.
Proof.
  intros f h H. unfold size_hint, base_size in H.
  repeat (apply obind_inv in H; let x := fresh "x" in let Hx := fresh "Hx" in destruct H as (x & Hx & H)).
  repeat match goal with
         | E : obind _ _ = Some _ |- _ =>
           apply obind_inv in E; let y := fresh "y" in let Hy := fresh "Hy" in destruct E as (y & Hy & E)
         end.
  match goal with E : tag_size_hint _ = Some _ |- _ => apply tag_size_hint_inv in E; unfold tag_hint_value in E end.
  unfold sampling_rate_size_hint, timestamp_size_hint, container_id_size_hint in *.
  unfold hint_value.
  repeat match goal with
         | E : uadd _ _ = Some _ |- _ => apply uadd_inv in E
         | E : umul _ _ = Some _ |- _ => apply umul_inv in E
         end.
  destruct (f_rate f), (f_timestamp f), (f_container f), (f_tags f) as [|t tl];
    repeat match goal with
           | E : uadd _ _ = Some _ |- _ => apply uadd_inv in E
           | E : Some _ = Some _ |- _ => inversion E; clear E
           end; subst; split; lia.
Qed.

(* the hint arithmetic panics exactly when the hint itself does not fit in 64 bits *)
Theorem size_hint_exact : forall f,
  size_hint f = if hint_value f <? MW64 then Some (hint_value f) else None.
Proof.
  intros f. destruct (N.ltb_spec (hint_value f) MW64) as [L|L].
  - apply size_hint_spec, L.
  - destruct (size_hint f) as [h|] eqn:E; [|reflexivity].
    apply size_hint_inv in E. lia.
Qed.

(* [call_hint] is defined exactly for the calls that get as far as formatting a line *)
Theorem call_hint_defined : forall cfg c,
  call_hint cfg c <> None <-> exists l, client_line cfg c = Some (inr l).
Proof.
  intros cfg c. unfold call_hint, client_line.
  destruct (build cfg c) as [[e|f]|]; split.
  - intros H; congruence.
  - intros [l H]; discriminate.
  - intros _. exists (format f). reflexivity.
  - intros _. discriminate.
  - intros H; congruence.
  - intros [l H]; discriminate.
Qed.

(* ... i.e. for the well-typed calls with at least one value; an invalid call reports its error
   before any hint is computed *)
Theorem call_hint_defined_iff_value : forall cfg c,
  call_hint cfg c <> None <->
  exists v, to_value (k_kind c) (k_arg c) = Some (inr v) /\ mv_count v <> 0%nat.
Proof.
  intros cfg c. unfold call_hint. split.
  - destruct (build cfg c) as [[e|f]|] eqn:B; try congruence. intros _.
    destruct (build_inr _ _ _ B) as (v & Hv & Hc & _). exists v. split; assumption.
  - intros (v & Hv & Hc). unfold build. rewrite Hv. destruct (mv_count v); [congruence|discriminate].
Qed.

(* A.5: the executed root.  For the formatter [f] that [build] hands to format, the hint is
   computed without a panic, equals [hint_value f] and is a capacity String::with_capacity accepts *)
Theorem call_hint_ok : forall cfg c f, build cfg c = Some (inr f) ->
  arg_bytes f + 10 * N.of_nat (mv_count (f_val f)) + N.of_nat (length (f_tags f)) + 40 < 2 ^ 63 ->
  call_hint cfg c = Some (Some (hint_value f)) /\ hint_value f < 2 ^ 63.
Proof.
  intros cfg c f B H. unfold call_hint. rewrite B.
  destruct (hint_never_panics f H) as (h & A & L & E). subst h. rewrite A. split; [reflexivity|exact L].
Qed.

(* the exact answer of the root, without any size hypothesis: no hint for a call that does not
   format, else the hint when it fits in 64 bits and a panic ([Some None]) otherwise *)
Theorem call_hint_exact : forall cfg c,
  call_hint cfg c =
  match build cfg c with
  | Some (inr f) => Some (if hint_value f <? MW64 then Some (hint_value f) else None)
  | _ => None
  end.
Proof.
  intros cfg c. unfold call_hint. destruct (build cfg c) as [[e|f]|]; try reflexivity.
  now rewrite size_hint_exact.
Qed.

(* the same in terms of what the CALLER supplied.  [call_bytes]: the bytes of the prefix, the
   key, all tags (defaults and the call's own) and the container id in force. *)
Definition call_bytes (cfg : config) (c : call) : N :=
  len (c_prefix cfg) + len (k_key c) + kv_total (c_tags cfg ++ op_tags (k_ops c))
  + match or_else (op_container (k_ops c)) (c_container cfg) with Some s => len s | None => 0 end.

Lemma trim_end_dots_le p : (length (trim_end_dots p) <= length p)%nat.
Proof.
  induction p as [|b p IH]; [cbn; lia|].
  cbn [trim_end_dots]. destruct (trim_end_dots p) as [|x r].
  - destruct (N.eqb b b_dot); cbn [length]; lia.
  - cbn [length] in *. lia.
Qed.

Lemma formatted_prefix_len p : len (formatted_prefix p) <= len p + 1.
Proof.
  unfold formatted_prefix, len. destruct p as [|b p]; [cbn; lia|].
  rewrite app_length. pose proof (trim_end_dots_le (b :: p)). cbn [length] in *. lia.
Qed.

Theorem call_hint_never_panics : forall cfg c v,
  to_value (k_kind c) (k_arg c) = Some (inr v) -> mv_count v <> 0%nat ->
  call_bytes cfg c + 10 * N.of_nat (mv_count v)
    + N.of_nat (length (c_tags cfg ++ op_tags (k_ops c))) + 41 < 2 ^ 63 ->
  exists h, call_hint cfg c = Some (Some h) /\ h < 2 ^ 63.
Proof.
  intros cfg c v Hv Hc H.
  destruct (build cfg c) as [[e|f]|] eqn:B.
  - unfold build in B. rewrite Hv in B. destruct (mv_count v); [congruence|discriminate].
  - destruct (build_inr _ _ _ B) as (v' & Hv' & _ & Ef). rewrite Hv in Hv'. inversion Hv'; subst v'.
    exists (hint_value f). apply (call_hint_ok _ _ _ B).
    pose proof (formatted_prefix_len (c_prefix cfg)) as P.
    subst f. unfold arg_bytes, call_bytes in *.
    cbn [f_prefix f_key f_val f_tags f_container]. lia.
  - unfold build in B. rewrite Hv in B. destruct (mv_count v); discriminate.
Qed.

(* non-vacuity: a call with a prefix, default and own tags, a rate, a timestamp and a container *)
Example call_hint_witness :
  let cfg := {| c_prefix := [97; 46; 46]; c_tags := [(Some [1], [2; 3])]; c_container := Some [7; 7] |} in
  let c := {| k_kind := Timer; k_key := [98]; k_arg := AVecU64 [1; 2; 3];
              k_ops := [WithTagValue [5]; WithTimestamp 5; WithSamplingRate [49]] |} in
  call_hint cfg c = Some (Some 80) /\
  (exists f, build cfg c = Some (inr f) /\ hint_value f = 80) /\
  call_hint cfg {| k_kind := Timer; k_key := []; k_arg := AVecU64 []; k_ops := [] |} = None.
Proof. vm_compute. split; [reflexivity|]. split; [eexists; split; reflexivity|reflexivity]. Qed.

End HintA5.

Print Assumptions size_hint_inv.
Print Assumptions size_hint_exact.
Print Assumptions call_hint_defined.
Print Assumptions call_hint_defined_iff_value.
Print Assumptions call_hint_ok.
Print Assumptions call_hint_exact.
Print Assumptions call_hint_never_panics.

(* ====================================================================== A.10  a buffered sink behind a queue *)
Section SockA10.

Definition nilb {A} (l : list A) : bool := match l with [] => true | _ => false end.

(* the writer's own answer to a flush of a buffered socket sink: Ok unless there is something
   to send and the listener is away (then the socket's error) *)
Lemma flush_answer s up n :
  fst (step (with_script s up) n Flush) = if up || nilb (bbuf s) then OOk 0 else OErr 0.
Proof.
  destruct s as [w c b ids e scr l]. unfold step, mlw_flush, flush_buf, with_script.
  cbn [set_io bbuf sc]. destruct b as [|x r].
  - cbn [nilb fst ores_of_unit]. rewrite orb_true_r. reflexivity.
  - cbn [nilb]. rewrite orb_false_r. destruct up; reflexivity.
Qed.

(* the writer's own answer to an emit is Ok(the metric's length) whenever it is Ok, and never
   a panic *)
Lemma emit_answer s up n m x s1 : Inv s -> step (with_script s up) n (Emit m) = (x, s1) ->
  Inv s1 /\ match x with OOk k => k = length m | OPanic => False | _ => True end.
Proof.
  intros I H. destruct (step_spec _ _ _ _ _ (inv_with_script s up I) H) as [a P].
  split; [exact (sp_inv _ _ _ _ _ _ P)|]. pose proof (sp_res _ _ _ _ _ _ P) as R.
  unfold res_ok in R. destruct x; auto.
Qed.

Lemma flush_step_inv s up n x s1 : Inv s -> step (with_script s up) n Flush = (x, s1) ->
  Inv s1 /\ match x with OOk k => k = 0 | OPanic => False | _ => True end.
Proof.
  intros I H. destruct (step_spec _ _ _ _ _ (inv_with_script s up I) H) as [a P].
  split; [exact (sp_inv _ _ _ _ _ _ P)|]. pose proof (sp_res _ _ _ _ _ _ P) as R.
  unfold res_ok in R. destruct x; auto.
Qed.

(* what each call of a scenario is answered when the sink sits behind a queuing wrapper *)
Definition queued_answer_ok (o : sop) (r : sres) : Prop :=
  match o with
  | SEmit m => r = SK (N.of_nat (length m))
  | SFlush => r = SK 0 \/ r = SE
  | SDown | SUp => r = SNone
  end.

Lemma sc_buf_queued_answers : forall ops up s n rs s' n' up',
  Inv s -> sc_buf true up s n ops = (rs, s', n', up') -> Forall2 queued_answer_ok ops rs.
Proof.
  induction ops as [|o ops IH]; intros up s n rs s' n' up' I H.
  - inversion H; subst. constructor.
  - destruct o as [m| | |]; cbn [sc_buf] in H.
    + destruct (step (with_script s up) n (Emit m)) as [x s1] eqn:S1.
      destruct (sc_buf true up s1 (S n) ops) as [[[rs0 s2] n2] up2] eqn:R.
      inversion H; subst; clear H.
      destruct (emit_answer _ _ _ _ _ _ I S1) as [I1 X].
      constructor; [|exact (IH _ _ _ _ _ _ _ I1 R)].
      cbn [queued_answer_ok]. destruct x; try reflexivity. now subst.
    + destruct (step (with_script s up) n Flush) as [x s1] eqn:S1.
      destruct (sc_buf true up s1 (S n) ops) as [[[rs0 s2] n2] up2] eqn:R.
      inversion H; subst; clear H.
      destruct (flush_step_inv _ _ _ _ _ I S1) as [I1 X].
      constructor; [|exact (IH _ _ _ _ _ _ _ I1 R)].
      cbn [queued_answer_ok]. destruct x; auto. subst. left; reflexivity.
    + destruct (sc_buf true false s n ops) as [[[rs0 s2] n2] up2] eqn:R.
      inversion H; subst; clear H. constructor; [reflexivity|exact (IH _ _ _ _ _ _ _ I R)].
    + destruct (sc_buf true true s n ops) as [[[rs0 s2] n2] up2] eqn:R.
      inversion H; subst; clear H. constructor; [reflexivity|exact (IH _ _ _ _ _ _ _ I R)].
Qed.

(* A.10: a buffered socket sink behind a queuing wrapper.  Whatever the listener does and whenever,
   every emit is answered Ok(the metric's byte length) - also while the listener is away, also for
   an oversized metric whose own send is refused -, a flush is answered Ok or the socket's error,
   and the listener events answer nothing *)
Theorem sc_buffered_queued_answers : forall co ops rs dg st,
  sc_buffered co true ops = (rs, dg, st) ->
  Forall2 (fun o r => match o with
                      | SEmit m => r = SK (N.of_nat (length m))
                      | SFlush => r = SK 0 \/ r = SE
                      | SDown | SUp => r = SNone
                      end) ops rs.
Proof.
  intros co ops rs dg st H. unfold sc_buffered in H.
  destruct (sc_buf true true (sink_init co []) 0 ops) as [[[rs0 s] n] up] eqn:R.
  inversion H; subst; clear H.
  exact (sc_buf_queued_answers _ _ _ _ _ _ _ _ (inv_init _ _ _) R).
Qed.

(* the precise form: [xs] = the writer's own answers to the calls (SockProofs.wsteps over
   SockProofs.sc_wops).  An emit is answered Ok(len) without looking at [xs]; a flush is answered
   what the writer's own flush answered *)
Fixpoint queued_answers (ops : list sop) (xs : list ores) : list sres :=
  match ops with
  | [] => []
  | SEmit m :: r => SK (N.of_nat (length m)) :: queued_answers r (tl xs)
  | SFlush :: r => match xs with OOk _ :: _ => SK 0 | _ => SE end :: queued_answers r (tl xs)
  | SDown :: r => SNone :: queued_answers r xs
  | SUp :: r => SNone :: queued_answers r xs
  end.

Lemma sc_buf_queued_exact : forall ops up s n rs s' n' up',
  Inv s -> sc_buf true up s n ops = (rs, s', n', up') ->
  rs = queued_answers ops (fst (wsteps s n (sc_wops up ops))).
Proof.
  induction ops as [|o ops IH]; intros up s n rs s' n' up' I H.
  - inversion H; subst. reflexivity.
  - destruct o as [m| | |]; cbn [sc_buf sc_wops wsteps queued_answers] in H |- *.
    + destruct (step (with_script s up) n (Emit m)) as [x s1] eqn:S1.
      destruct (sc_buf true up s1 (S n) ops) as [[[rs0 s2] n2] up2] eqn:R.
      inversion H; subst; clear H.
      destruct (emit_answer _ _ _ _ _ _ I S1) as [I1 X].
      pose proof (IH _ _ _ _ _ _ _ I1 R) as E.
      destruct (wsteps s1 (S n) (sc_wops up ops)) as [xs sx]. cbn [fst tl] in *.
      f_equal; [|exact E]. destruct x; try reflexivity. now subst.
    + destruct (step (with_script s up) n Flush) as [x s1] eqn:S1.
      destruct (sc_buf true up s1 (S n) ops) as [[[rs0 s2] n2] up2] eqn:R.
      inversion H; subst; clear H.
      destruct (flush_step_inv _ _ _ _ _ I S1) as [I1 X].
      pose proof (IH _ _ _ _ _ _ _ I1 R) as E.
      destruct (wsteps s1 (S n) (sc_wops up ops)) as [xs sx]. cbn [fst tl] in *.
      f_equal; [|exact E]. destruct x; try reflexivity. now subst.
    + destruct (sc_buf true false s n ops) as [[[rs0 s2] n2] up2] eqn:R.
      inversion H; subst; clear H. f_equal. exact (IH _ _ _ _ _ _ _ I R).
    + destruct (sc_buf true true s n ops) as [[[rs0 s2] n2] up2] eqn:R.
      inversion H; subst; clear H. f_equal. exact (IH _ _ _ _ _ _ _ I R).
Qed.

Theorem sc_buffered_queued_exact : forall co ops,
  fst (fst (sc_buffered co true ops)) =
  queued_answers ops (fst (wsteps (sink_init co []) 0 (sc_wops true ops))).
Proof.
  intros co ops. unfold sc_buffered.
  destruct (sc_buf true true (sink_init co []) 0 ops) as [[[rs0 s] n] up] eqn:R. cbn [fst].
  exact (sc_buf_queued_exact _ _ _ _ _ _ _ _ (inv_init _ _ _) R).
Qed.

(* the queuing wrapper changes answers only: the sink's state, hence the datagrams on the wire
   (final drop included) and the statistics, are the same with and without it *)
Theorem sc_buffered_queued_same_wire : forall co q1 q2 ops,
  snd (fst (sc_buffered co q1 ops)) = snd (fst (sc_buffered co q2 ops)) /\
  snd (sc_buffered co q1 ops) = snd (sc_buffered co q2 ops).
Proof.
  intros co q1 q2 ops. unfold sc_buffered.
  destruct (sc_buf q1 true (sink_init co []) 0 ops) as [[[rs1 s1] n1] u1] eqn:R1.
  destruct (sc_buf q2 true (sink_init co []) 0 ops) as [[[rs2 s2] n2] u2] eqn:R2.
  destruct (sc_buf_wsteps q1 _ _ _ _ _ _ _ _ R1) as (A1 & B1 & C1).
  destruct (sc_buf_wsteps q2 _ _ _ _ _ _ _ _ R2) as (A2 & B2 & C2).
  cbn [fst snd]. subst. split; reflexivity.
Qed.

(* histories split: running [pre ++ post] is running [pre], then [post] from where it ended *)
Lemma sc_buf_app q : forall pre post up s n,
  sc_buf q up s n (pre ++ post) =
  let '(rs1, s1, n1, u1) := sc_buf q up s n pre in
  let '(rs2, s2, n2, u2) := sc_buf q u1 s1 n1 post in (rs1 ++ rs2, s2, n2, u2).
Proof.
  induction pre as [|o pre IH]; intros post up s n.
  - cbn [app sc_buf]. destruct (sc_buf q up s n post) as [[[rs2 s2] n2] u2]. reflexivity.
  - destruct o as [m| | |]; cbn [app sc_buf].
    + destruct (step (with_script s up) n (Emit m)) as [x s1]. rewrite IH.
      destruct (sc_buf q up s1 (S n) pre) as [[[rs1 s1'] n1] u1].
      destruct (sc_buf q u1 s1' n1 post) as [[[rs2 s2] n2] u2]. reflexivity.
    + destruct (step (with_script s up) n Flush) as [x s1]. rewrite IH.
      destruct (sc_buf q up s1 (S n) pre) as [[[rs1 s1'] n1] u1].
      destruct (sc_buf q u1 s1' n1 post) as [[[rs2 s2] n2] u2]. reflexivity.
    + rewrite IH. destruct (sc_buf q false s n pre) as [[[rs1 s1'] n1] u1].
      destruct (sc_buf q u1 s1' n1 post) as [[[rs2 s2] n2] u2]. reflexivity.
    + rewrite IH. destruct (sc_buf q true s n pre) as [[[rs1 s1'] n1] u1].
      destruct (sc_buf q u1 s1' n1 post) as [[[rs2 s2] n2] u2]. reflexivity.
Qed.

(* a flush at any position of any scenario, with or without the queuing wrapper, is answered by the
   writer's own flush: Ok(0) when the listener is there or nothing is pending, the socket's error
   otherwise *)
Theorem sc_buffered_flush_at : forall co q pre post rs0 s n up,
  sc_buf q true (sink_init co []) 0 pre = (rs0, s, n, up) ->
  nth_error (fst (fst (sc_buffered co q (pre ++ SFlush :: post)))) (length pre) =
  Some (match fst (step (with_script s up) n Flush) with OOk k => SK (N.of_nat k) | _ => SE end) /\
  fst (step (with_script s up) n Flush) = if up || nilb (bbuf s) then OOk 0 else OErr 0.
Proof.
  intros co q pre post rs0 s n up R. split; [|apply flush_answer].
  unfold sc_buffered. rewrite sc_buf_app, R. cbn [sc_buf].
  destruct (step (with_script s up) n Flush) as [x s1].
  destruct (sc_buf q up s1 (S n) post) as [[[rs2 s2] n2] u2]. cbn [fst].
  assert (Len : length rs0 = length pre).
  { destruct (sc_buf_inv q _ _ _ _ _ _ _ _ (inv_init _ _ _) (Forall_nil _) R) as (_ & _ & _ & _ & L & _).
    exact L. }
  rewrite nth_error_app2 by lia. rewrite Len, Nat.sub_diag. reflexivity.
Qed.

(* ... and an emit at any position, behind the queue, by Ok(len) *)
Theorem sc_buffered_queued_emit_at : forall co pre m post,
  nth_error (fst (fst (sc_buffered co true (pre ++ SEmit m :: post)))) (length pre) =
  Some (SK (N.of_nat (length m))).
Proof.
  intros co pre m post.
  destruct (sc_buffered co true (pre ++ SEmit m :: post)) as [[rs dg] st] eqn:E.
  pose proof (sc_buffered_queued_answers _ _ _ _ _ E) as F. cbn [fst].
  clear E. revert rs F. induction pre as [|o pre IH]; intros rs F; cbn [app] in F.
  - inversion F as [|o0 r0 l0 l1 Hx Hr]. cbn beta iota in Hx. rewrite Hx. reflexivity.
  - inversion F as [|o0 r0 l0 l1 Hx Hr]. cbn [length nth_error]. apply IH. exact Hr.
Qed.

(* non-vacuity (capacity 8): two metrics fill the buffer; while the listener is away a third emit
   forces a flush that is refused, an oversized metric is refused, an explicit flush is refused -
   all three emits are answered Ok(len) behind the queue, SE without it -; after the listener is
   back the flush sends the two buffered lines *)
Example queued_outage_witness :
  sc_buffered (Some 8) true
    [SEmit [1;2;3]; SDown; SEmit [4;5;6]; SEmit [7;8;9]; SEmit [1;1;1;1;1;1;1;1;1]; SFlush; SUp; SFlush]%N =
  ([SK 3; SNone; SK 3; SK 3; SK 9; SE; SNone; SK 0],
   [[1;2;3;10;4;5;6;10]]%N,
   {| bytes_sent := 8; packets_sent := 1; bytes_dropped := 25; packets_dropped := 3 |})%N /\
  fst (fst (sc_buffered (Some 8) false
    [SEmit [1;2;3]; SDown; SEmit [4;5;6]; SEmit [7;8;9]; SEmit [1;1;1;1;1;1;1;1;1]; SFlush; SUp; SFlush]%N)) =
  [SK 3; SNone; SK 3; SE; SE; SE; SNone; SK 0]%N.
Proof. vm_compute. split; reflexivity. Qed.

End SockA10.

Print Assumptions flush_answer.
Print Assumptions sc_buffered_queued_answers.
Print Assumptions sc_buffered_queued_exact.
Print Assumptions sc_buffered_queued_same_wire.
Print Assumptions sc_buffered_flush_at.
Print Assumptions sc_buffered_queued_emit_at.

(* ====================================================================== A.6  flushes through the wrappers
   NEW DEFINITIONS.  StatsdClient::flush (client.rs) is `self.sink.flush()`; QueuingMetricSink::flush
   (queuing.rs) is `self.wrapped.flush()`, called on the caller's thread, not through the queue.
   Both are modelled as what they are: the flush of the sink they hold.  For the buffered sinks the
   innermost flush is the writer's [Flush] step. *)
Section FlushA6.

Definition client_flush {S R : Type} (sink_flush : S -> nat -> R * S) (s : S) (n : nat) : R * S :=
  sink_flush s n.
Definition queuing_flush {S R : Type} (wrapped_flush : S -> nat -> R * S) (s : S) (n : nat) : R * S :=
  wrapped_flush s n.
(* BufferedUdpMetricSink / BufferedUnixMetricSink / BufferedSpyMetricSink ::flush *)
Definition writer_flush (s : st) (n : nat) : ores * st := step s n Flush.

(* the route a flush takes: on the sink itself, through the client, through a queuing wrapper
   around the sink, or through the client of a queuing wrapper *)
Inductive via := Direct | ViaClient | ViaQueuing | ViaClientQueuing.
Inductive hop := HEmit (m : str) | HFlush (v : via).

Definition flush_via (v : via) : st -> nat -> ores * st :=
  match v with
  | Direct => writer_flush
  | ViaClient => client_flush writer_flush
  | ViaQueuing => queuing_flush writer_flush
  | ViaClientQueuing => client_flush (queuing_flush writer_flush)
  end.

Definition hstep (s : st) (n : nat) (o : hop) : ores * st :=
  match o with HEmit m => step s n (Emit m) | HFlush v => flush_via v s n end.

Fixpoint hrun_from (s : st) (n : nat) (ops : list hop) : list ores * st :=
  match ops with
  | [] => ([], s)
  | o :: r => let '(x, s1) := hstep s n o in
              let '(xs, s2) := hrun_from s1 (S n) r in (x :: xs, s2)
  end.

Definition hrun (c : nat) (e : str) (script : list outcome) (ops : list hop) : list ores * st :=
  let '(rs, s) := hrun_from (init c e script) 0 ops in (rs, mlw_drop s (length ops)).

(* the writer operation a call amounts to *)
Definition plain (o : hop) : op := match o with HEmit m => Emit m | HFlush _ => Flush end.

Theorem flush_via_is_flush : forall v s n, flush_via v s n = step s n Flush.
Proof. intros [] s n; reflexivity. Qed.

Theorem hstep_plain : forall s n o, hstep s n o = step s n (plain o).
Proof. intros s n [m|v]; [reflexivity|apply flush_via_is_flush]. Qed.

(* A.6: a history in which some flushes go through the client and / or a queuing wrapper IS the
   writer history with plain flushes at the same positions - same answers, same final state, same
   log of underlying writes - for every state, numbering, capacity, terminator and fault script.
   Every theorem about [run_from] / [run] therefore applies verbatim. *)
Theorem hrun_from_plain : forall ops s n, hrun_from s n ops = run_from s n (map plain ops).
Proof.
  induction ops as [|o ops IH]; intros s n; [reflexivity|].
  cbn [hrun_from map run_from]. rewrite hstep_plain.
  destruct (step s n (plain o)) as [x s1]. rewrite IH. reflexivity.
Qed.

Theorem hrun_plain : forall c e script ops, hrun c e script ops = run c e script (map plain ops).
Proof.
  intros c e script ops. unfold hrun, run. rewrite hrun_from_plain, map_length. reflexivity.
Qed.

(* the C06 theorems, read through the wrappers *)
Theorem wrapped_flush_point : forall c e script ops v rs k s,
  hrun_from (init c e script) 0 (ops ++ [HFlush v]) = (rs ++ [OOk k], s) -> length rs = length ops ->
  bbuf s = [] /\ bids s = [] /\ written s = 0 /\
  filter (nzb e) (sentL (lg s)) = filter (nzb e) (filter (fitg c e) (acked 0 (map plain ops) rs)) /\
  sentA (lg s) = filter (fun g => negb (fitg c e g)) (acked 0 (map plain ops) rs).
Proof.
  intros c e script ops v rs k s H L. rewrite hrun_from_plain, map_app in H. cbn [map plain] in H.
  apply (flush_point c e script (map plain ops) rs k s H). now rewrite map_length.
Qed.

Theorem wrapped_ack : forall c e ops rs s,
  hrun_from (init c e []) 0 ops = (rs, s) ->
  Forall2 (fun o x => x = OOk (match o with HEmit m => length m | HFlush _ => 0 end)) ops rs.
Proof.
  intros c e ops rs s H. rewrite hrun_from_plain in H.
  pose proof (fault_free_all_ok _ _ _ _ _ H) as F. clear H.
  revert rs F. induction ops as [|o ops IH]; intros rs F; cbn [map] in F.
  - inversion F. constructor.
  - inversion F as [|o0 x l0 l1 Hx Hr]. constructor.
    + destruct o; exact Hx.
    + apply IH. exact Hr.
Qed.

Theorem wrapped_once_in_order : forall c e ops rs s,
  hrun c e [] ops = (rs, s) ->
  filter (nzb e) (sentL (lg s)) = filter (nzb e) (filter (fitg c e) (emitted 0 (map plain ops))) /\
  sentA (lg s) = filter (fun g => negb (fitg c e g)) (emitted 0 (map plain ops)) /\
  Forall (fun a => a_out a = WOk) (lg s) /\
  NoDup (map fst (emitted 0 (map plain ops))).
Proof.
  intros c e ops rs s H. rewrite hrun_plain in H.
  destruct (fault_free_conserve c e _ rs s H) as (A & B & C).
  repeat split; auto. apply emitted_nodup.
Qed.

Theorem wrapped_flush_idem : forall c e script ops rs s n v k s1 n' v' x s2,
  hrun_from (init c e script) 0 ops = (rs, s) ->
  flush_via v s n = (OOk k, s1) -> flush_via v' s1 n' = (x, s2) ->
  x = OOk 0 /\ lg s2 = lg s1.
Proof.
  intros c e script ops rs s n v k s1 n' v' x s2 H F1 F2.
  rewrite hrun_from_plain in H. rewrite flush_via_is_flush in F1, F2.
  exact (flush_idem _ _ _ _ _ _ _ _ _ _ _ _ H F1 F2).
Qed.

(* the ledger under faults (C07), through the wrappers *)
Theorem wrapped_ledger : forall c e script ops rs s,
  hrun c e script ops = (rs, s) ->
  filter (nzb e) (sentL (lg s) ++ bids s) =
    filter (nzb e) (fit_ids c e (acked 0 (map plain ops) rs)) /\
  sentA (lg s) = big_ids c e (acked 0 (map plain ops) rs).
Proof.
  intros c e script ops rs s H. rewrite hrun_plain in H. exact (ledger_run _ _ _ _ _ _ H).
Qed.

(* non-vacuity: the four routes in one life; the fourth flush finds nothing to do *)
Example wrapped_witness :
  let ops := [HEmit [1;2;3]; HFlush ViaClient; HEmit [4]; HFlush ViaQueuing; HEmit [5;6];
              HFlush ViaClientQueuing; HFlush Direct; HEmit [7]]%N in
  let '(rs, s) := hrun 8 [10%N] [WErr 3%N] ops in
  (rs, map a_bytes (lg s), map a_out (lg s), map fst (sentL (lg s))) =
  ([OOk 3; OErr 3%N; OOk 1; OOk 0; OOk 2; OOk 0; OOk 0; OOk 1],
   [[1;2;3;10]; [1;2;3;10;4;10]; [5;6;10]; [7;10]]%N, [WErr 3%N; WOk; WOk; WOk], [0; 2; 4; 7]).
Proof. vm_compute. reflexivity. Qed.

End FlushA6.

Print Assumptions flush_via_is_flush.
Print Assumptions hrun_from_plain.
Print Assumptions hrun_plain.
Print Assumptions wrapped_flush_point.
Print Assumptions wrapped_ack.
Print Assumptions wrapped_once_in_order.
Print Assumptions wrapped_flush_idem.
Print Assumptions wrapped_ledger.

(* ====================================================================== A.16 (extra)  content for the
   "one send per emit" clause: a buffered socket sink of capacity 0 IS the unbuffered sink.  Every
   metric is then oversized, goes out alone, without terminator, in its own emit; answers, datagrams
   and statistics of whole scenarios coincide.  This ties Stats.sock_emit (whose pinned theorem
   c13_one_send restates its body) to the independently specified writer. *)
Section Cap0.

Definition P0 (s : st) : Prop := cap s = 0 /\ written s = 0 /\ bbuf s = [] /\ ending s = newline.

Lemma emit0 s up n m x s1 : P0 s -> step (with_script s up) n (Emit m) = (x, s1) ->
  P0 s1 /\ x = (if up then OOk (length m) else OErr 0) /\
  lg s1 = lg s ++ [{| a_bytes := m; a_out := if up then WOk else WErr 0; a_lab := Alone (n, m); a_op := n |}].
Proof.
  destruct s as [w c b ids e scr l]. unfold P0. cbn [cap written bbuf ending]. intros (C & W & B & E) H. subst.
  unfold step, mlw_write, with_script, set_io in H. cbn [cap written ending length newline] in H.
  rewrite Nat.add_1_r in H. cbn [Nat.ltb Nat.leb Nat.sub] in H.
  unfold direct, under, up_script in H. cbn [sc repeat set_io lg] in H.
  destruct up; inversion H; subst; clear H; cbn [cap written bbuf ending lg]; repeat split; reflexivity.
Qed.

Lemma flush0 s up n x s1 : P0 s -> step (with_script s up) n Flush = (x, s1) ->
  P0 s1 /\ x = OOk 0 /\ lg s1 = lg s.
Proof.
  destruct s as [w c b ids e scr l]. unfold P0. cbn [cap written bbuf ending]. intros (C & W & B & E) H. subst.
  unfold step, mlw_flush, flush_buf, with_script, set_io in H. cbn [bbuf] in H.
  inversion H; subst; clear H. cbn. repeat split; reflexivity.
Qed.

Definition att_matches (a : attempt) (e : str * bool) : Prop :=
  a_bytes a = fst e /\ a_out a = (if snd e then WOk else WErr 0).

Lemma sc_buf_cap0 q : forall ops up s n rs s2 n2 up2,
  P0 s -> sc_buf q up s n ops = (rs, s2, n2, up2) ->
  rs = sc_answers q up ops /\ P0 s2 /\
  exists atts, lg s2 = lg s ++ atts /\ Forall2 att_matches atts (sc_emits up ops).
Proof.
  induction ops as [|o ops IH]; intros up s n rs s2 n2 up2 P H.
  - inversion H; subst. split; [reflexivity|]. split; [exact P|]. exists []. split; [now rewrite app_nil_r|constructor].
  - destruct o as [m| | |]; cbn [sc_buf sc_answers sc_emits] in H |- *.
    + destruct (step (with_script s up) n (Emit m)) as [x s1] eqn:S1.
      destruct (sc_buf q up s1 (S n) ops) as [[[rs0 s3] n3] up3] eqn:R. inversion H; subst; clear H.
      destruct (emit0 _ _ _ _ _ _ P S1) as (P1 & X & L1).
      destruct (IH _ _ _ _ _ _ _ P1 R) as (A & P2 & atts & L2 & F).
      split; [|split; [exact P2|]].
      * rewrite A, X. destruct up, q; reflexivity.
      * eexists (_ :: atts). split; [rewrite L2, L1, <- app_assoc; reflexivity|].
        constructor; [split; reflexivity|exact F].
    + destruct (step (with_script s up) n Flush) as [x s1] eqn:S1.
      destruct (sc_buf q up s1 (S n) ops) as [[[rs0 s3] n3] up3] eqn:R. inversion H; subst; clear H.
      destruct (flush0 _ _ _ _ _ P S1) as (P1 & X & L1).
      destruct (IH _ _ _ _ _ _ _ P1 R) as (A & P2 & atts & L2 & F).
      split; [rewrite A, X; reflexivity|]. split; [exact P2|]. exists atts. split; [congruence|exact F].
    + destruct (sc_buf q false s n ops) as [[[rs0 s3] n3] up3] eqn:R. inversion H; subst; clear H.
      destruct (IH _ _ _ _ _ _ _ P R) as (A & P2 & F). split; [now rewrite A|]. split; assumption.
    + destruct (sc_buf q true s n ops) as [[[rs0 s3] n3] up3] eqn:R. inversion H; subst; clear H.
      destruct (IH _ _ _ _ _ _ _ P R) as (A & P2 & F). split; [now rewrite A|]. split; assumption.
Qed.

Lemma atts_views atts es : Forall2 att_matches atts es ->
  map sd_payload (datagrams 0 atts) = map fst (filter snd es) /\
  map attempt_of_log atts = map att_of es.
Proof.
  induction 1 as [|a e atts es [B O] F [IH1 IH2]]; [split; reflexivity|].
  destruct e as [m u]. cbn [fst snd] in B, O. unfold datagrams in *. cbn [flat_map filter snd map].
  rewrite map_app, IH1, IH2. unfold attempt_of_log, att_of, attempt_of. rewrite O, B. cbn [fst snd].
  destruct u; split; reflexivity.
Qed.

Theorem buffered_cap0_is_unbuffered : forall q ops, sc_buffered (Some 0) q ops = sc_unbuffered q ops.
Proof.
  intros q ops. rewrite sc_unbuffered_spec. unfold sc_buffered.
  destruct (sc_buf q true (sink_init (Some 0) []) 0 ops) as [[[rs s] n] up] eqn:R.
  assert (P : P0 (sink_init (Some 0) [])) by (repeat split).
  destruct (sc_buf_cap0 q _ _ _ _ _ _ _ _ P R) as (A & (C & W & B & E) & atts & L & F).
  cbn [sink_init init lg app] in L. destruct (atts_views _ _ F) as [V1 V2].
  assert (D : lg (mlw_drop (with_script s up) n) = lg s).
  { unfold mlw_drop, flush_buf, with_script. cbn [set_io bbuf]. rewrite B. reflexivity. }
  rewrite D, L, V1. unfold buffered_stats. rewrite V2, A. reflexivity.
Qed.

Example cap0_witness :
  sc_buffered (Some 0) false [SEmit [1;2]; SDown; SEmit [3]; SFlush; SUp; SEmit []]%N =
  ([SK 2; SNone; SE; SK 0; SNone; SK 0], [[1;2]; []]%N,
   {| bytes_sent := 2; packets_sent := 2; bytes_dropped := 1; packets_dropped := 1 |})%N.
Proof. vm_compute. reflexivity. Qed.

End Cap0.

Print Assumptions buffered_cap0_is_unbuffered.
