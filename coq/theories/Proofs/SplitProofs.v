(* Lemmas about the string helpers of Model/Wire.v: join, split_on, split_first, clean,
   trim_end_dots.  Everything is by induction over arbitrary byte strings / lists. *)
Require Import Cadence.Base.Prelude.
Require Import Cadence.Base.Decimal.
Require Import Cadence.Model.Convert.
Require Import Cadence.Model.Wire.

(* ------------------------------------------------------------------ join *)
Lemma join_cons2 : forall sep p q r, join sep (p :: q :: r) = p ++ sep :: join sep (q :: r).
Proof. reflexivity. Qed.

Lemma join_cons : forall sep p r, r <> [] -> join sep (p :: r) = p ++ sep :: join sep r.
Proof. intros sep p [|q r] H; [congruence|reflexivity]. Qed.

Lemma join_single : forall sep p, join sep [p] = p.
Proof. reflexivity. Qed.

Lemma In_join : forall sep parts b, In b (join sep parts) -> b = sep \/ exists p, In p parts /\ In b p.
Proof.
  intros sep parts b. induction parts as [|p r IH]; cbn [join]; intros H.
  - destruct H.
  - destruct r as [|q r].
    + right. exists p. split; [left; reflexivity|exact H].
    + apply in_app_or in H. destruct H as [H|H].
      * right. exists p. split; [left; reflexivity|exact H].
      * destruct H as [H|H]; [left; congruence|].
        destruct (IH H) as [E|[p' [Hp Hb]]]; [left; exact E|].
        right. exists p'. split; [right; exact Hp|exact Hb].
Qed.

(* ------------------------------------------------------------------ split_on *)
Lemma split_on_nonnil : forall sep s, split_on sep s <> [].
Proof.
  intros sep s. destruct s as [|b r]; cbn [split_on]; [discriminate|].
  destruct (N.eqb b sep); [discriminate|]. destruct (split_on sep r); discriminate.
Qed.

Lemma split_on_nosep : forall sep s, ~ In sep s -> split_on sep s = [s].
Proof.
  intros sep s. induction s as [|b r IH]; intros H; [reflexivity|].
  cbn [split_on]. destruct (N.eqb b sep) eqn:E.
  - apply N.eqb_eq in E. exfalso. apply H. left. exact E.
  - rewrite IH; [reflexivity|]. intros Hin. apply H. right. exact Hin.
Qed.

Lemma split_on_app : forall sep a r, ~ In sep a -> split_on sep (a ++ sep :: r) = a :: split_on sep r.
Proof.
  intros sep a r. induction a as [|b a IH]; intros H.
  - cbn [app split_on]. rewrite N.eqb_refl. reflexivity.
  - cbn [app split_on]. destruct (N.eqb b sep) eqn:E.
    + apply N.eqb_eq in E. exfalso. apply H. left. exact E.
    + rewrite IH; [reflexivity|]. intros Hin. apply H. right. exact Hin.
Qed.

(* the inverse of join, for any non-empty list of separator-free parts *)
Lemma split_on_join : forall sep parts,
  parts <> [] -> Forall (fun p => ~ In sep p) parts -> split_on sep (join sep parts) = parts.
Proof.
  intros sep parts. induction parts as [|p r IH]; intros Hne Hall; [congruence|].
  inversion Hall as [|p' r' Hp Hr]; subst.
  destruct r as [|q r].
  - cbn [join]. apply split_on_nosep. exact Hp.
  - rewrite join_cons2, split_on_app by exact Hp. rewrite IH; [reflexivity|discriminate|exact Hr].
Qed.

(* and conversely: joining the parts gives the string back (no hypothesis at all) *)
Lemma join_split_on : forall sep s, join sep (split_on sep s) = s.
Proof.
  intros sep s. induction s as [|b r IH]; [reflexivity|].
  cbn [split_on]. destruct (N.eqb b sep) eqn:E.
  - apply N.eqb_eq in E. subst b.
    rewrite join_cons by apply split_on_nonnil. cbn [app]. rewrite IH. reflexivity.
  - destruct (split_on sep r) as [|p ps] eqn:Es; [exfalso; exact (split_on_nonnil _ _ Es)|].
    destruct ps as [|q ps].
    + cbn [join] in *. congruence.
    + rewrite join_cons2 in *. cbn [app]. congruence.
Qed.

Lemma split_on_parts_nosep : forall sep s, Forall (fun p => ~ In sep p) (split_on sep s).
Proof.
  intros sep s. induction s as [|b r IH]; cbn [split_on].
  - constructor; [intros []|constructor].
  - destruct (N.eqb b sep) eqn:E.
    + constructor; [intros []|exact IH].
    + destruct (split_on sep r) as [|p ps]; [constructor; [|constructor]|].
      * intros [H|[]]. subst. rewrite N.eqb_refl in E. discriminate.
      * inversion IH as [|p' ps' Hp Hps]; subst. constructor; [|exact Hps].
        intros [H|H]; [subst; rewrite N.eqb_refl in E; discriminate|exact (Hp H)].
Qed.

(* ------------------------------------------------------------------ split_first *)
Lemma split_first_app : forall sep a r, ~ In sep a -> split_first sep (a ++ sep :: r) = Some (a, r).
Proof.
  intros sep a r. induction a as [|b a IH]; intros H.
  - cbn [app split_first]. rewrite N.eqb_refl. reflexivity.
  - cbn [app split_first]. destruct (N.eqb b sep) eqn:E.
    + apply N.eqb_eq in E. exfalso. apply H. left. exact E.
    + rewrite IH; [reflexivity|]. intros Hin. apply H. right. exact Hin.
Qed.

Lemma split_first_none : forall sep s, ~ In sep s -> split_first sep s = None.
Proof.
  intros sep s. induction s as [|b r IH]; intros H; [reflexivity|].
  cbn [split_first]. destruct (N.eqb b sep) eqn:E.
  - apply N.eqb_eq in E. exfalso. apply H. left. exact E.
  - rewrite IH; [reflexivity|]. intros Hin. apply H. right. exact Hin.
Qed.

Lemma split_first_some : forall sep s a z,
  split_first sep s = Some (a, z) -> s = a ++ sep :: z /\ ~ In sep a.
Proof.
  intros sep s. induction s as [|b r IH]; intros a z H; cbn [split_first] in H; [discriminate|].
  destruct (N.eqb b sep) eqn:E.
  - apply N.eqb_eq in E. inversion H; subst. split; [reflexivity|intros []].
  - destruct (split_first sep r) as [[a' z']|] eqn:Es; [|discriminate].
    inversion H; subst. destruct (IH _ _ eq_refl) as [Hr Hn]. subst r.
    split; [reflexivity|]. intros [Hin|Hin]; [|exact (Hn Hin)].
    subst. rewrite N.eqb_refl in E. discriminate.
Qed.

(* ------------------------------------------------------------------ clean *)
Lemma clean_nil : clean [] = true.
Proof. reflexivity. Qed.

Lemma clean_cons : forall b s, clean (b :: s) = negb (is_delim b) && clean s.
Proof. reflexivity. Qed.

Lemma clean_app : forall a b, clean (a ++ b) = clean a && clean b.
Proof. intros a b. unfold clean. apply forallb_app. Qed.

Lemma clean_not_in : forall s b, clean s = true -> is_delim b = true -> ~ In b s.
Proof.
  intros s b Hc Hd Hin. unfold clean in Hc. rewrite forallb_forall in Hc.
  specialize (Hc b Hin). rewrite Hd in Hc. discriminate.
Qed.

Lemma clean_no_colon : forall s, clean s = true -> ~ In b_colon s.
Proof. intros s H. apply clean_not_in; [exact H|reflexivity]. Qed.
Lemma clean_no_pipe : forall s, clean s = true -> ~ In b_pipe s.
Proof. intros s H. apply clean_not_in; [exact H|reflexivity]. Qed.
Lemma clean_no_hash : forall s, clean s = true -> ~ In b_hash s.
Proof. intros s H. apply clean_not_in; [exact H|reflexivity]. Qed.
Lemma clean_no_comma : forall s, clean s = true -> ~ In b_comma s.
Proof. intros s H. apply clean_not_in; [exact H|reflexivity]. Qed.
Lemma clean_no_at : forall s, clean s = true -> ~ In b_at s.
Proof. intros s H. apply clean_not_in; [exact H|reflexivity]. Qed.
Lemma clean_no_nl : forall s, clean s = true -> ~ In b_nl s.
Proof. intros s H. apply clean_not_in; [exact H|reflexivity]. Qed.

(* clean = contains none of the six delimiter bytes *)
Lemma clean_spec : forall s,
  clean s = true <->
  (~ In b_colon s /\ ~ In b_pipe s /\ ~ In b_hash s /\ ~ In b_comma s /\ ~ In b_at s /\ ~ In b_nl s).
Proof.
  intros s. split.
  - intros H. repeat split; apply clean_not_in; try exact H; reflexivity.
  - intros (H1 & H2 & H3 & H4 & H5 & H6). unfold clean. apply forallb_forall. intros b Hb.
    unfold is_delim.
    destruct (N.eqb b b_colon) eqn:E1; [apply N.eqb_eq in E1; subst; tauto|].
    destruct (N.eqb b b_pipe) eqn:E2; [apply N.eqb_eq in E2; subst; tauto|].
    destruct (N.eqb b b_hash) eqn:E3; [apply N.eqb_eq in E3; subst; tauto|].
    destruct (N.eqb b b_comma) eqn:E4; [apply N.eqb_eq in E4; subst; tauto|].
    destruct (N.eqb b b_at) eqn:E5; [apply N.eqb_eq in E5; subst; tauto|].
    destruct (N.eqb b b_nl) eqn:E6; [apply N.eqb_eq in E6; subst; tauto|].
    reflexivity.
Qed.

(* ------------------------------------------------------------------ trim_end_dots *)
Definition all_dots (s : str) : Prop := Forall (fun b => b = b_dot) s.

(* the result is a prefix of the input and what is cut off consists of dots only *)
Lemma trim_end_dots_split : forall s, exists dots, s = trim_end_dots s ++ dots /\ all_dots dots.
Proof.
  induction s as [|b r IH]; [exists []; split; [reflexivity|constructor]|].
  destruct IH as [dots [Hr Hd]]. cbn [trim_end_dots].
  destruct (trim_end_dots r) as [|c r'] eqn:Et.
  - destruct (N.eqb b b_dot) eqn:E.
    + apply N.eqb_eq in E. exists (b :: dots). split.
      * cbn [app] in *. congruence.
      * constructor; [exact E|exact Hd].
    + exists dots. split; [|exact Hd]. cbn [app] in *. congruence.
  - exists dots. split; [|exact Hd]. cbn [app] in *. congruence.
Qed.

(* the result does not end with a dot *)
Lemma trim_end_dots_last : forall s, trim_end_dots s = [] \/ last (trim_end_dots s) 0%N <> b_dot.
Proof.
  induction s as [|b r IH]; [left; reflexivity|].
  cbn [trim_end_dots]. destruct (trim_end_dots r) as [|c r'] eqn:Et.
  - destruct (N.eqb b b_dot) eqn:E; [left; reflexivity|].
    right. cbn [last]. apply N.eqb_neq. exact E.
  - right. destruct IH as [IH|IH]; [discriminate|]. exact IH.
Qed.

Lemma trim_end_dots_no_trailing_dot : forall s t, trim_end_dots s <> t ++ [b_dot].
Proof.
  intros s t H. destruct (trim_end_dots_last s) as [E|E].
  - rewrite E in H. destruct t; discriminate.
  - rewrite H in E. rewrite last_last in E. congruence.
Qed.

(* uniqueness: trim_end_dots is THE decomposition "no trailing dot ++ dots" *)
Lemma trim_end_dots_app_dots : forall s dots, all_dots dots -> trim_end_dots (s ++ dots) = trim_end_dots s.
Proof.
  intros s dots Hd. induction s as [|b r IH].
  - cbn [app]. induction Hd as [|d ds Hd1 Hd2 IHd]; [reflexivity|].
    cbn [trim_end_dots]. rewrite IHd. subst d. reflexivity.
  - cbn [app trim_end_dots]. rewrite IH. reflexivity.
Qed.

Lemma trim_end_dots_fixed : forall s, (s = [] \/ last s 0%N <> b_dot) -> trim_end_dots s = s.
Proof.
  induction s as [|b r IH]; intros H; [reflexivity|].
  cbn [trim_end_dots]. destruct r as [|c r'].
  - cbn [trim_end_dots]. destruct H as [H|H]; [discriminate|]. cbn [last] in H.
    apply N.eqb_neq in H. rewrite H. reflexivity.
  - rewrite IH.
    + reflexivity.
    + right. destruct H as [H|H]; [discriminate|]. exact H.
Qed.

Lemma trim_end_dots_unique : forall s t dots,
  s = t ++ dots -> all_dots dots -> (t = [] \/ last t 0%N <> b_dot) -> trim_end_dots s = t.
Proof.
  intros s t dots -> Hd Ht. rewrite trim_end_dots_app_dots by exact Hd. apply trim_end_dots_fixed. exact Ht.
Qed.

Lemma trim_end_dots_clean : forall s, clean s = true -> clean (trim_end_dots s) = true.
Proof.
  intros s H. destruct (trim_end_dots_split s) as [dots [E _]].
  rewrite E in H. rewrite clean_app in H. apply andb_true_iff in H. tauto.
Qed.

Lemma trim_end_dots_idem : forall s, trim_end_dots (trim_end_dots s) = trim_end_dots s.
Proof. intros s. apply trim_end_dots_fixed. apply trim_end_dots_last. Qed.
