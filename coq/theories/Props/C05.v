(* C05 — A buffered sink never splits or merges metrics across datagrams.

   Pinned statements.  The model is Cadence.Model.Writer (MultiLineWriter over
   std's BufWriter over an all-or-nothing underlying writer); [run c e script ops]
   is a whole life of a writer with capacity [c] and line terminator [e]:
   construction, the operations [ops] (emit of any bytes / flush), the final drop,
   against ANY fault script.  [lg s] is every write attempted on the underlying
   writer; the ghost label of an attempt names the metrics (index of the emitting
   operation, bytes) it carries.  Nothing below bounds capacities, lengths, the
   number of operations or the fault script. *)
Require Import Cadence.Base.Prelude.
Require Import Cadence.Model.Writer.
Require Import Cadence.Proofs.WriterBase.
Require Import Cadence.Proofs.WriterIds.
Require Import Cadence.Proofs.WriterThms.

(* every write is whole lines within the capacity, or one oversized metric alone,
   unmodified and without terminator *)
Theorem c05_frame : forall (c : nat) (e : str) (script : list outcome) (ops : list op) rs s,
  run c e script ops = (rs, s) ->
  Forall (fun a =>
    match a_lab a with
    | Lines ms => ms <> [] /\
                  a_bytes a = concat (map (fun g => snd g ++ e) ms) /\
                  length (a_bytes a) <= c
    | Alone m => a_bytes a = snd m /\ c < length (snd m) + length e
    end) (lg s).
Proof. exact frame_all. Qed.

(* the metrics a label names are exactly metrics that were emitted: identity
   (i, m) means operation number i was [Emit m] *)
Theorem c05_real : forall (c : nat) (e : str) (script : list outcome) (ops : list op) rs s,
  run c e script ops = (rs, s) ->
  Forall (fun a =>
    Forall (fun g => nth_error ops (fst g) = Some (Emit (snd g)))
           (match a_lab a with Lines ms => ms | Alone m => [m] end)) (lg s).
Proof. exact ids_real. Qed.

(* the buffered sinks of the crate: terminator "\n", 512 bytes when no capacity is given *)
Theorem c05_sinks : forall (co : option nat) (script : list outcome) (ops : list op) rs s,
  run_from (sink_init co script) 0 ops = (rs, s) ->
  let c := match co with Some n => n | None => 512 end in
  Forall (fun a =>
    match a_lab a with
    | Lines ms => ms <> [] /\
                  a_bytes a = concat (map (fun g => snd g ++ [10%N]) ms) /\
                  length (a_bytes a) <= c
    | Alone m => a_bytes a = snd m /\ c < length (snd m) + 1
    end) (lg (mlw_drop s (length ops))).
Proof.
  intros co script ops rs s H c.
  apply (frame_all c newline script ops rs). unfold run.
  change (init c newline script) with (sink_init co script). now rewrite H.
Qed.

(* non-vacuity: a concrete life with an automatic flush, an exact fill, a bypass and a
   failed write — the log the theorem speaks about is not empty *)
Example c05_witness :
  map (fun a => (a_op a, a_bytes a, a_out a))
      (lg (snd (run 8 [10%N] [WErr 7%N]
                    [Emit [1;2;3]; Emit [4;5;6]; Emit [7]; Emit [1;1;1;1;1;1;1;1;1]; Emit [9;9;9;9;9;9;9]; Flush]%N)))
  = [(2, [1;2;3;10;4;5;6;10]%N, WErr 7%N); (3, [1;1;1;1;1;1;1;1;1]%N, WOk);
     (4, [1;2;3;10;4;5;6;10]%N, WOk); (5, [9;9;9;9;9;9;9;10]%N, WOk)].
Proof. vm_compute. reflexivity. Qed.
