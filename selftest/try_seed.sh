#!/bin/bash
# Run checks against a seeded change: apply to /repo's working tree, run the checks, undo.
# usage: try_seed.sh <patch> <ids...>
patch=$1; shift
git -C /repo apply $patch || exit 1
for id in "$@"; do
  out=$(cd /verif && ./check $id 2>&1 | grep -E "^(VIOLATION|OK|KNOWN|  input|  noinput)" | head -3 | tr '\n' ' ')
  echo "  $id: $out"
done
git -C /repo checkout -- .
