(* Interleavings of per-thread programs and what the sequential writer theorems say about
   them: every interleaving is an operation list, so framing, conservation and the ledger
   hold as they are; what is added here is the link back to the threads — the operations
   of a thread occur in an interleaving in program order, hence so do its metrics in the
   stream of datagrams. *)
Require Import Cadence.Base.Prelude.
Require Import Cadence.Model.Writer.
Require Import Cadence.Model.Merge.
Require Import Cadence.Proofs.WriterBase.
Require Import Cadence.Proofs.WriterInv.
Require Import Cadence.Proofs.WriterRun.
Require Import Cadence.Proofs.WriterThms.

Section Generic.
Context {A : Type}.
Implicit Types (ps : list (list A)) (l : list (nat * A)).

Lemma pick_spec t : forall ps x ps',
  pick t ps = Some (x, ps') ->
  nth t ps [] = x :: nth t ps' [] /\ length ps' = length ps /\
  forall u, u <> t -> nth u ps' [] = nth u ps [].
Proof.
  induction t as [|t IH]; intros [|p r] x ps' H; cbn [pick] in H; try discriminate.
  - destruct p as [|y p']; inversion H; subst; clear H. split; [reflexivity|]. split; [reflexivity|].
    intros [|u] Hu; [congruence|reflexivity].
  - destruct (pick t r) as [[y r']|] eqn:P; inversion H; subst; clear H.
    destruct (IH _ _ _ P) as (N & L & O). split; [|split].
    + exact N.
    + cbn [length]. now rewrite L.
    + intros [|u] Hu; [reflexivity|]. cbn [nth]. apply O. congruence.
Qed.

Lemma pick_none_iff t ps : pick t ps = None <-> nth t ps [] = [].
Proof.
  revert ps; induction t as [|t IH]; intros [|p r]; cbn [pick nth]; try (split; reflexivity).
  - destruct p; split; congruence.
  - specialize (IH r). destruct (pick t r) as [[y r']|]; split; intros H; try congruence.
    + apply IH in H. congruence.
    + now apply IH.
Qed.

Lemma proj_cons t u x l :
  proj t ((u, x) :: l) = if u =? t then x :: proj t l else proj t l.
Proof. unfold proj. cbn [filter fst]. destruct (u =? t); reflexivity. Qed.

(* the operations of each thread occur in an interleaving in program order, all of them *)
Lemma proj_merge ps l : is_merge ps l -> forall t, proj t l = nth t ps [].
Proof.
  induction 1 as [ps F | u x ps ps' l P M IH]; intros t.
  - unfold proj; cbn. destruct (nth_in_or_default t ps []) as [I|E]; [|now rewrite E].
    rewrite Forall_forall in F. symmetry. now apply F.
  - rewrite proj_cons. destruct (pick_spec _ _ _ _ P) as (N & _ & O).
    destruct (Nat.eqb_spec u t) as [->|Ne].
    + now rewrite N, IH.
    + rewrite IH. apply O. congruence.
Qed.

(* for any schedule, complete or not: what a thread has done so far followed by what it
   has left is its program *)
Lemma merge_by_proj sched : forall ps t,
  proj t (merge_by sched ps) ++ nth t (rest_by sched ps) [] = nth t ps [].
Proof.
  induction sched as [|u sched IH]; intros ps t; cbn [merge_by rest_by]; [reflexivity|].
  destruct (pick u ps) as [[x ps']|] eqn:P; [|apply IH].
  rewrite proj_cons. destruct (pick_spec _ _ _ _ P) as (N & _ & O).
  destruct (Nat.eqb_spec u t) as [->|Ne].
  - rewrite N. cbn [app]. now rewrite IH.
  - rewrite IH. apply O. congruence.
Qed.

(* every interleaving is the one chosen by some schedule (its own sequence of threads) *)
Lemma is_merge_sched ps l : is_merge ps l -> merge_by (map fst l) ps = l.
Proof.
  induction 1 as [ps F | u x ps ps' l P M IH]; [reflexivity|].
  cbn [map fst merge_by]. now rewrite P, IH.
Qed.

(* a schedule that lets every thread finish chooses an interleaving *)
Lemma merge_by_complete sched : forall ps,
  Forall (fun p => p = []) (rest_by sched ps) -> is_merge ps (merge_by sched ps).
Proof.
  induction sched as [|u sched IH]; intros ps F; cbn [merge_by rest_by] in *.
  - now constructor.
  - destruct (pick u ps) as [[x ps']|] eqn:P; [|now apply IH].
    econstructor; [exact P|now apply IH].
Qed.

Lemma merge_by_fst_length sched ps : length (merge_by sched ps) <= length sched.
Proof.
  revert ps; induction sched as [|u sched IH]; intros ps; cbn [merge_by length]; [lia|].
  destruct (pick u ps) as [[x ps']|]; cbn [length]; [specialize (IH ps')|specialize (IH ps)]; lia.
Qed.
End Generic.

(* ------------------------------------------------------------ threads and ghost identities *)

Lemma filter_comm {A} (f g : A -> bool) l : filter f (filter g l) = filter g (filter f l).
Proof.
  induction l as [|x l IH]; [reflexivity|]. cbn [filter].
  destruct (g x) eqn:G, (f x) eqn:F; cbn [filter]; rewrite ?G, ?F, IH; reflexivity.
Qed.

Lemma emits_of_app a b : emits_of (a ++ b) = emits_of a ++ emits_of b.
Proof. induction a as [|[m|] a IH]; cbn [emits_of app]; [reflexivity| |exact IH]. now rewrite IH. Qed.

(* the metrics emitted by thread [t], picked out of the interleaved history by identity,
   are the metrics of its share of the interleaving, in order *)
Lemma emitted_owner_gen t : forall (l pre : list (nat * op)),
  map snd (filter (owner (pre ++ l) t) (emitted (length pre) (map snd l))) = emits_of (proj t l).
Proof.
  induction l as [|[u o] l IH]; intros pre; [reflexivity|].
  assert (E : pre ++ (u, o) :: l = (pre ++ [(u, o)]) ++ l) by now rewrite <- app_assoc.
  assert (L : length (pre ++ [(u, o)]) = S (length pre)) by (rewrite app_length; cbn; lia).
  rewrite proj_cons. cbn [map snd]. destruct o as [m|]; cbn [emitted].
  - cbn [filter]. unfold owner at 1. cbn [fst].
    rewrite nth_error_app2, Nat.sub_diag by lia. cbn [nth_error].
    destruct (u =? t); cbn [map snd emits_of]; rewrite E, <- L, IH; reflexivity.
  - destruct (u =? t); cbn [emits_of]; rewrite E, <- L, IH; reflexivity.
Qed.

Lemma emitted_owner t l :
  map snd (filter (owner l t) (emitted 0 (map snd l))) = emits_of (proj t l).
Proof. exact (emitted_owner_gen t l []). Qed.

Lemma sublist_filter_mono {A} (f : A -> bool) (a b : list A) :
  sublist a b -> sublist (filter f a) (filter f b).
Proof.
  induction 1 as [|x a b S IH|x a b S IH]; cbn [filter]; [constructor| |].
  - destruct (f x); [apply sub_skip|]; exact IH.
  - destruct (f x); [apply sub_take|]; exact IH.
Qed.

(* C12, per-thread order, for every interleaving and every fault script: the metrics of
   thread [t] that have been written in whole lines, followed by those of its metrics that
   are still buffered, are — in this order — acknowledged fitting metrics of [t], and occur
   in [t]'s program order *)
Theorem thread_order c e script (ps : list (list op)) l rs s t :
  is_merge ps l ->
  run c e script (map snd l) = (rs, s) ->
  filter (nzb e) (filter (owner l t) (sentL (lg s) ++ bids s)) =
    filter (nzb e) (filter (fitg c e) (filter (owner l t) (acked 0 (map snd l) rs))) /\
  sublist (map snd (filter (owner l t) (acked 0 (map snd l) rs))) (emits_of (nth t ps [])).
Proof.
  intros M R. destruct (ledger_run _ _ _ _ _ _ R) as [L _]. split.
  - rewrite filter_comm, L. unfold fit_ids.
    rewrite (filter_comm (owner l t)). f_equal. apply filter_comm.
  - rewrite <- (proj_merge _ _ M t), <- emitted_owner.
    apply sublist_map, sublist_filter_mono, acked_sublist.
Qed.

(* fault-free: each thread's fitting metrics leave exactly once, in its program order *)
Theorem thread_order_ok c e (ps : list (list op)) l rs s t :
  is_merge ps l ->
  run c e [] (map snd l) = (rs, s) ->
  map snd (filter (nzb e) (filter (owner l t) (sentL (lg s)))) =
    filter (fun m => nzb e (0, m) && fitsb c e m) (emits_of (nth t ps [])).
Proof.
  intros M R. destruct (fault_free_conserve _ _ _ _ _ R) as (L & _ & _).
  rewrite filter_comm, L. unfold fit_ids.
  rewrite <- (proj_merge _ _ M t), <- emitted_owner.
  rewrite (filter_comm (owner l t)), (filter_comm (owner l t)).
  set (x := filter (owner l t) (emitted 0 (map snd l))). clearbody x.
  induction x as [|[i m] x IH]; [reflexivity|]. cbn [filter map snd].
  unfold fitg at 1. cbn [snd].
  assert (Z : nzb e (i, m) = nzb e (0, m)) by reflexivity.
  destruct (fitsb c e m) eqn:F; cbn [filter]; rewrite ?Z.
  - destruct (nzb e (0, m)); cbn [andb map snd filter]; now rewrite IH.
  - rewrite Bool.andb_false_r. exact IH.
Qed.
