#!/bin/bash
# usage: dbg.sh theories/Proofs/X.v LINE  -- show the proof state just before LINE
f=$1; n=$2
tmp=/tmp/dbg_$$.v
head -n $((n-1)) $f > $tmp
echo "Show. " >> $tmp
cd /verif/coq && timeout 120 coqtop -Q theories Cadence -batch -load-vernac-source $tmp 2>&1 | tail -${3:-40}
rm -f $tmp
