(* Model of cadence::io::MultiLineWriter (cadence/src/io.rs) on top of
   std::io::BufWriter (write / write_cold / flush_buf / Drop), over an
   all-or-nothing underlying writer driven by a fault script.

   The model is *instrumented*: besides the bytes it carries, for every metric,
   a ghost identity (the index of the operation that emitted it), the ghost list
   [bids] of the identities whose lines make up the buffer, and for every attempt
   on the underlying writer a ghost [label] saying which metrics it is meant to
   carry.  Ghost data never influences the plain behaviour (results, bytes handed
   to the underlying writer, outcomes consumed): see [AuditW.erasure]. The
   correspondence check compares the plain behaviour with the real code; the
   theorems use the ghost data to speak about identities instead of byte patterns.

   Definitions only; no proofs in this file. *)
Require Import Cadence.Base.Prelude.

(* outcome of one write on the underlying writer *)
Inductive outcome := WOk | WErr (e : N) | WIntr.

Notation gm := (nat * str)%type (only parsing).     (* ghost: (id, metric bytes) *)
Inductive label := Lines (ms : list gm) | Alone (m : gm).
Record attempt := { a_bytes : str; a_out : outcome; a_lab : label; a_op : nat }.

(* result of an API call: Ok, the underlying writer's error [e], ErrorKind::Interrupted
   passed through, or a panic (arithmetic underflow in a build with overflow checks) *)
Inductive res (A : Type) := ROk (a : A) | RErr (e : N) | RIntr | RPanic.
Arguments ROk {A}. Arguments RErr {A}. Arguments RIntr {A}. Arguments RPanic {A}.

Record st := {
  written : nat;          (* MultiLineWriter::written *)
  cap : nat;              (* MultiLineWriter::capacity = BufWriter capacity *)
  bbuf : str;             (* BufWriter's buffer *)
  bids : list gm;         (* ghost: metrics whose lines are in the buffer *)
  ending : str;           (* MultiLineWriter::line_ending *)
  sc : list outcome;      (* environment: outcomes of the future underlying writes *)
  lg : list attempt       (* environment: every write attempted on the underlying writer *)
}.

Definition line (e : str) (m : gm) : str := snd m ++ e.
Definition render (e : str) (ms : list gm) : str := concat (map (line e) ms).

Definition set_buf (s : st) b ids :=
  {| written := written s; cap := cap s; bbuf := b; bids := ids; ending := ending s; sc := sc s; lg := lg s |}.
Definition set_written (s : st) w :=
  {| written := w; cap := cap s; bbuf := bbuf s; bids := bids s; ending := ending s; sc := sc s; lg := lg s |}.
Definition set_io (s : st) c l :=
  {| written := written s; cap := cap s; bbuf := bbuf s; bids := bids s; ending := ending s; sc := c; lg := l |}.

(* one attempt on the underlying all-or-nothing writer; an exhausted script means Ok *)
Definition under (s : st) (b : str) (lab : label) (op : nat) : outcome * st :=
  match sc s with
  | [] => (WOk, set_io s [] (lg s ++ [{| a_bytes := b; a_out := WOk; a_lab := lab; a_op := op |}]))
  | o :: c => (o, set_io s c (lg s ++ [{| a_bytes := b; a_out := o; a_lab := lab; a_op := op |}]))
  end.

(* BufWriter::flush_buf: write the whole buffer; Ok => clear; Interrupted => retry;
   other error => return it, data kept.  Fuel = S (length script): an exhausted
   script answers Ok, so the loop ends before the fuel does. *)
Fixpoint flush_loop (fuel : nat) (s : st) (op : nat) : res unit * st :=
  match under s (bbuf s) (Lines (bids s)) op with
  | (WOk, s') => (ROk tt, set_buf s' [] [])
  | (WErr e, s') => (RErr e, s')
  | (WIntr, s') => match fuel with O => (RIntr, s') | S f => flush_loop f s' op end
  end.

Definition flush_buf (s : st) (op : nat) : res unit * st :=
  match bbuf s with
  | [] => (ROk tt, set_buf s [] [])
  | _ => flush_loop (S (length (sc s))) s op
  end.

(* a write that goes straight to the underlying writer; its result is passed through *)
Definition direct (s : st) (b : str) (lab : label) (op : nat) : res nat * st :=
  match under s b lab op with
  | (WOk, s') => (ROk (length b), s')
  | (WErr e, s') => (RErr e, s')
  | (WIntr, s') => (RIntr, s')
  end.

(* BufWriter::write (fast path + write_cold); [first] = this is the metric part of a
   line (registers the ghost id), otherwise it is the terminator part *)
Definition bw_write (s : st) (b : str) (g : gm) (first : bool) (op : nat) : res nat * st :=
  let push s := set_buf s (bbuf s ++ b) (if first then bids s ++ [g] else bids s) in
  if length b <? cap s - length (bbuf s) then (ROk (length b), push s)
  else
    let '(r, s1) := if cap s - length (bbuf s) <? length b then flush_buf s op else (ROk tt, s) in
    match r with
    | ROk _ =>
      if cap s1 <=? length b
      then direct (if first then s1 else set_buf s1 (bbuf s1) (removelast (bids s1))) b (Lines [g]) op
      else (ROk (length b), push s1)
    | RErr e => (RErr e, s1) | RIntr => (RIntr, s1) | RPanic => (RPanic, s1)
    end.

(* MultiLineWriter::flush = BufWriter::flush (flush_buf, then the underlying flush,
   which is Ok(()) for every adapter in the crate), then written = 0 *)
Definition mlw_flush (s : st) (op : nat) : res unit * st :=
  match flush_buf s op with
  | (ROk _, s') => (ROk tt, set_written s' 0)
  | (r, s') => (r, s')
  end.

(* MultiLineWriter::write *)
Definition mlw_write (s : st) (m : str) (op : nat) : res nat * st :=
  let g := (op, m) in
  if cap s <? written s then (RPanic, s) else        (* capacity - written underflows *)
  let left := cap s - written s in
  let required := length m + length (ending s) in
  if cap s <? required then direct s m (Alone g) op   (* bypass through get_mut() *)
  else
    let '(r0, s0) := if left <? required then mlw_flush s op else (ROk tt, s) in
    match r0 with
    | ROk _ =>
      match bw_write s0 m g true op with
      | (ROk w1, s1) =>
        let s1 := set_written s1 (written s1 + w1) in
        match bw_write s1 (ending s1) g false op with
        | (ROk w2, s2) => (ROk w1, set_written s2 (written s2 + w2))
        | (RErr e, s2) => (RErr e, s2) | (RIntr, s2) => (RIntr, s2) | (RPanic, s2) => (RPanic, s2)
        end
      | (RErr e, s1) => (RErr e, s1) | (RIntr, s1) => (RIntr, s1) | (RPanic, s1) => (RPanic, s1)
      end
    | RErr e => (RErr e, s0) | RIntr => (RIntr, s0) | RPanic => (RPanic, s0)
    end.

(* dropping the writer = BufWriter::drop = flush_buf with the result ignored *)
Definition mlw_drop (s : st) (op : nat) : st := snd (flush_buf s op).

Inductive op := Emit (m : str) | Flush.

Definition init (c : nat) (e : str) (script : list outcome) : st :=
  {| written := 0; cap := c; bbuf := []; bids := []; ending := e; sc := script; lg := [] |}.

(* result of one API call, erased to what the harness can observe *)
Inductive ores := OOk (n : nat) | OErr (e : N) | OIntr | OPanic.
Definition ores_of_nat (r : res nat) : ores :=
  match r with ROk n => OOk n | RErr e => OErr e | RIntr => OIntr | RPanic => OPanic end.
Definition ores_of_unit (r : res unit) : ores :=
  match r with ROk _ => OOk 0 | RErr e => OErr e | RIntr => OIntr | RPanic => OPanic end.

Definition step (s : st) (n : nat) (o : op) : ores * st :=
  match o with
  | Emit m => let '(r, s') := mlw_write s m n in (ores_of_nat r, s')
  | Flush => let '(r, s') := mlw_flush s n in (ores_of_unit r, s')
  end.

(* run a history from state [s], numbering the operations from [n] *)
Fixpoint run_from (s : st) (n : nat) (ops : list op) : list ores * st :=
  match ops with
  | [] => ([], s)
  | o :: r => let '(x, s1) := step s n o in
              let '(xs, s2) := run_from s1 (S n) r in (x :: xs, s2)
  end.

(* a whole life: construction, the operations, the final drop *)
Definition run (c : nat) (e : str) (script : list outcome) (ops : list op) : list ores * st :=
  let '(rs, s) := run_from (init c e script) 0 ops in (rs, mlw_drop s (length ops)).

(* the buffered sinks of the crate: newline terminator, 512 bytes unless configured *)
Definition newline : str := [10%N].
Definition default_capacity : nat := 512.
Definition sink_init (c : option nat) (script : list outcome) : st :=
  init (match c with Some n => n | None => default_capacity end) newline script.
