(* The stack client -> queuing sink -> buffered sink, end to end: what the queue machine delivers
   to its wrapped sink (C08/C09) is what the line-buffering writer is driven with (C06). *)
Require Import Cadence.Base.Prelude.
Require Import Cadence.Model.Writer.
Require Import Cadence.Model.Queue.
Require Import Cadence.Proofs.WriterBase.
Require Import Cadence.Proofs.WriterInv.
Require Import Cadence.Proofs.WriterRun.
Require Import Cadence.Proofs.WriterThms.
Require Import Cadence.Proofs.QueueInv.
Require Import Cadence.Proofs.QueueLive.

(* the calls the wrapped (buffered) sink receives: one emit per delivered metric, [pay i] being the
   text of the metric accepted as number i *)
Definition delivered_ops (pay : nat -> str) (dl : list (nat * soutcome)) : list op :=
  map (fun d => Emit (pay (fst d))) dl.

Lemma emitted_seq pay n : forall k,
  emitted k (map (fun i => Emit (pay i)) (seq k n)) = map (fun i => (i, pay i)) (seq k n).
Proof.
  induction n as [|n IH]; intros k; [reflexivity|].
  cbn [seq map emitted]. now rewrite IH.
Qed.

Lemma delivered_ops_seq pay dl n :
  map fst dl = seq 0 n -> delivered_ops pay dl = map (fun i => Emit (pay i)) (seq 0 n).
Proof. intros H. unfold delivered_ops. rewrite <- H, map_map. reflexivity. Qed.

(* once the worker has exited: the buffered sink behind the queue has been handed exactly the
   accepted metrics 0 .. n-1, in acceptance order, and (its socket never failing) has written each
   fitting one exactly once in whole lines, in that order, and each oversized one exactly once alone *)
Theorem stack_conservation cap handler evs s rs c e pay rs' w :
  Queue.run true (init_q cap handler) evs = Some (s, rs) -> q_wk s = WExited ->
  Writer.run c e [] (delivered_ops pay (q_delivered s)) = (rs', w) ->
  map fst (q_delivered s) = seq 0 (q_accepted s) /\
  Forall2 (fun i x => x = OOk (length (pay i))) (seq 0 (q_accepted s)) rs' /\
  filter (nzb e) (sentL (lg w)) =
    filter (nzb e) (filter (fitg c e) (map (fun i => (i, pay i)) (seq 0 (q_accepted s)))) /\
  sentA (lg w) = filter (fun g => negb (fitg c e g)) (map (fun i => (i, pay i)) (seq 0 (q_accepted s))).
Proof.
  intros R E W. destruct (reach_exited _ _ _ _ _ R E) as (_ & _ & _ & D).
  split; [exact D|].
  rewrite (delivered_ops_seq pay _ _ D) in W.
  destruct (fault_free_conserve _ _ _ _ _ W) as (A & B & _).
  rewrite emitted_seq in A, B. split; [|split; assumption].
  unfold Writer.run in W.
  destruct (run_from (init c e []) 0 (map (fun i => Emit (pay i)) (seq 0 (q_accepted s)))) as [r0 s0] eqn:R0.
  inversion W; subst rs'. pose proof (fault_free_all_ok _ _ _ _ _ R0) as F.
  clear -F. revert F. generalize (seq 0 (q_accepted s)). intros l. revert r0.
  induction l as [|i l IH]; intros r0 F; inversion F; subst; constructor; auto.
Qed.
