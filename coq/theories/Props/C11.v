(* C11 — Queuing sink survives panics in the wrapped sink.

   Pinned statements about Cadence.Model.Queue, [step true] = the repaired code.  A panic of the
   wrapped sink is the outcome SPanic of an EWFinish event (unwinding, Sentinel::drop counting
   the panic and respawning a thread that re-enters run() are one step).  All theorems quantify
   over ALL histories and ALL outcome scripts in {SOk, SErr e, SPanic}*: consecutive panics, a
   panic on the first or last queued metric, panics while a stop is pending (q_handles s = 0).
   Vocabulary as in Props/C08.v;  npanics d = number of SPanic outcomes in the delivery log d. *)
Require Import Cadence.Base.Prelude.
Require Import Cadence.Model.Queue.
Require Import Cadence.Proofs.QueueInv.
Require Import Cadence.Proofs.QueueLive.

(* only the panicking metric is consumed, and exactly once: a metric the wrapped sink was
   called for — whatever the outcome o, in particular SPanic — occurs exactly once in the
   delivery log and is neither in the worker's hands nor queued any more (never re-delivered) *)
Theorem c11_consumed_once : forall cap handler evs s rs id o,
  run true (init_q cap handler) evs = Some (s, rs) -> In (id, o) (q_delivered s) ->
  count_occ Nat.eq_dec (map fst (q_delivered s)) id = 1 /\
  ~ In id (inflight (q_wk s) ++ somes (q_chan s)) /\ id < q_accepted s.
Proof. exact reach_once. Qed.

Theorem c11_no_duplicates : forall cap handler evs s rs,
  run true (init_q cap handler) evs = Some (s, rs) ->
  NoDup (map fst (q_delivered s)) /\
  NoDup (map fst (q_delivered s) ++ inflight (q_wk s) ++ somes (q_chan s)).
Proof.
  intros cap handler evs s rs R. destruct (reach_prefix _ _ _ _ _ R) as (_ & _ & A & _ & B). auto.
Qed.

(* the panic itself: it completes the call for the metric the worker holds, appends (id, SPanic)
   to the log, counts one panic, leaves channel and handles alone, and the worker is back in
   recv; emit stays enabled, governed by room as ever (C10) *)
Theorem c11_accepting : forall fixed s s' r,
  step fixed s (EWFinish SPanic) = Some (s', r) ->
  q_wk s' = WRecv /\ q_panics s' = S (q_panics s) /\
  q_cap s' = q_cap s /\ q_chan s' = q_chan s /\ q_handles s' = q_handles s /\
  (q_handles s <> 0 ->
   exists s'', step fixed s' ETrySend = Some (s'', if room s' then ROk else RFull)).
Proof. exact after_panic. Qed.

Theorem c11_panic_step : forall fixed s s' r,
  step fixed s (EWFinish SPanic) = Some (s', r) ->
  exists id, q_wk s = WCounted id /\ q_delivered s' = q_delivered s ++ [(id, SPanic)] /\
             q_accepted s' = q_accepted s.
Proof.
  intros fixed s s' r H. apply step_finish_spec in H.
  destruct H as (id & A & _ & _ & B & _ & _ & _ & _ & _ & C & _). exists id. auto.
Qed.

(* ... with room again right after the panic unless the bounded queue is full *)
Theorem c11_accepting_room : forall cap handler evs s rs,
  run true (init_q cap handler) (evs ++ [EWFinish SPanic]) = Some (s, rs) ->
  q_wk s = WRecv /\
  room s = match cap with
           | None => true
           | Some 0 => true
           | Some (S c) => length (q_chan s) <? S c
           end.
Proof. exact after_panic_room. Qed.

(* all other metrics are unaffected: the commit equation holds in every state of every history,
   panics or not (this is c08_committed; EWFinish SPanic is just one of the events) ... *)
Theorem c11_others_committed : forall cap handler evs s rs,
  run true (init_q cap handler) evs = Some (s, rs) ->
  map fst (q_delivered s) ++ inflight (q_wk s) ++ somes (q_chan s) = seq 0 (q_accepted s).
Proof. intros cap handler evs s rs R. exact (I_commit s (inv_reach _ _ _ _ _ R)). Qed.

(* ... and so does eventual delivery, for every script: after any history (with any panics in
   it) and for any outcomes of the remaining calls (any of them panics), every accepted metric
   — queued before a panic or accepted after it — is delivered exactly once, in order; the
   panic count is what it was plus the panics scripted for the remaining metrics *)
Theorem c11_others_eventually : forall cap handler evs s rs outs fuel,
  run true (init_q cap handler) evs = Some (s, rs) -> mu s < fuel ->
  let s' := quiesce true fuel s outs in
  q_delivered s' = q_delivered s ++ answers (pending_ids s) outs /\
  map fst (q_delivered s') = seq 0 (q_accepted s) /\
  q_panics s' = q_panics s + npanics (answers (pending_ids s) outs) /\
  (q_handles s <> 0 -> q_wk s' = WRecv) /\
  (q_handles s = 0 -> q_wk s' = WExited /\ sink_released s' = true).
Proof. exact panic_script_eventually. Qed.

(* both together, as one statement *)
Theorem c11_others : forall cap handler evs s rs outs fuel,
  run true (init_q cap handler) evs = Some (s, rs) -> mu s < fuel ->
  let s' := quiesce true fuel s outs in
  map fst (q_delivered s) ++ inflight (q_wk s) ++ somes (q_chan s) = seq 0 (q_accepted s) /\
  q_delivered s' = q_delivered s ++ answers (pending_ids s) outs /\
  map fst (q_delivered s') = seq 0 (q_accepted s) /\
  q_panics s' = q_panics s + npanics (answers (pending_ids s) outs) /\
  (q_handles s <> 0 -> q_wk s' = WRecv) /\
  (q_handles s = 0 -> q_wk s' = WExited /\ sink_released s' = true).
Proof.
  intros cap handler evs s rs outs fuel R Hmu s'.
  split; [exact (I_commit s (inv_reach _ _ _ _ _ R)) | exact (panic_script_eventually _ _ _ _ _ _ _ R Hmu)].
Qed.

(* the extreme script: the wrapped sink panics on EVERY remaining metric, also while a stop is
   pending (q_handles s = 0): each metric is consumed once, in order; the worker ends waiting,
   or — no handle left — still exits and releases the wrapped sink *)
Theorem c11_others_all_panic : forall cap handler evs s rs fuel,
  run true (init_q cap handler) evs = Some (s, rs) -> mu s < fuel ->
  let s' := quiesce true fuel s (repeat SPanic (length (pending_ids s))) in
  q_delivered s' = q_delivered s ++ map (fun i => (i, SPanic)) (pending_ids s) /\
  map fst (q_delivered s') = seq 0 (q_accepted s) /\
  q_panics s' = q_panics s + length (pending_ids s) /\
  (q_handles s <> 0 -> q_wk s' = WRecv) /\
  (q_handles s = 0 -> q_wk s' = WExited /\ sink_released s' = true).
Proof. exact all_panic. Qed.

(* the reported panic count is the number of panics that occurred, at every moment *)
Theorem c11_count : forall cap handler evs s rs,
  run true (init_q cap handler) evs = Some (s, rs) -> q_panics s = npanics (q_delivered s).
Proof. exact reach_panics. Qed.

(* non-vacuity: consecutive panics, a panic on the first and on the last queued metric, a metric
   accepted after a panic, and panics while the stop marker is pending with the helper thread *)
Example c11_witness :
  match run true (init_q (Some 2) true)
            [ETrySend; ETrySend; EWDequeue; EWStep; EWFinish SPanic; ETrySend; EWDequeue; EWStep;
             EWFinish SPanic; ETrySend; EDropH] with
  | Some (s, rs) =>
    let s' := quiesce true (fuel_of s) s [SOk; SPanic] in
    (rs, q_chan s, q_handles s, q_pill_pending s, q_wk s, q_panics s, q_delivered s) =
    ([ROk; ROk; RNone; RNone; RNone; ROk; RNone; RNone; RNone; ROk; RNone],
     [Some 2; Some 3], 0, true, WRecv, 2, [(0, SPanic); (1, SPanic)]) /\
    (q_wk s', q_panics s', q_delivered s', sink_released s') =
    (WExited, 3, [(0, SPanic); (1, SPanic); (2, SOk); (3, SPanic)], true)
  | None => False
  end.
Proof. vm_compute. split; reflexivity. Qed.

(* ==== added after the audit of 2026-10-02 (selftest/audit/REPORT-2026-10-02.md) ==== *)
Require Import Cadence.Proofs.AuditQ.

(* the panic count after ANY background schedule (not only [quiesce]): the panics so far plus
   the number of completions of the schedule that panicked ([npan] counts the SPanic in a list
   of outcomes); it is always the number of panicked calls in the delivery log.  With
   [c08_every_background_schedule]: every maximal schedule delivers all the other metrics *)
Theorem c11_count_any_schedule : forall cap handler evs s rs wevs s' wrs,
  run true (init_q cap handler) evs = Some (s, rs) ->
  Forall worker_side wevs -> run true s wevs = Some (s', wrs) ->
  q_panics s' = q_panics s + npan (finish_outs wevs) /\ q_panics s' = npanics (q_delivered s').
Proof. exact panics_any_schedule. Qed.
