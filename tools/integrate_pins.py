#!/usr/bin/env python3
"""Integrate the output of a proof worker: copy <dir>/Audit<K>.v (and any other new .v file named in PINS.md) to
coq/theories/Proofs/ and append the ```coq blocks of <dir>/PINS.md to coq/theories/Props/<id>.v (heading `## Cnn ...`).
usage: integrate_pins.py <worker out dir> [--dry]"""
import os, re, shutil, sys
src = sys.argv[1]
dry = "--dry" in sys.argv
root = "/verif/coq/theories"
for f in os.listdir(src):
    if f.endswith(".v"):
        print("copy", f)
        if not dry:
            shutil.copy(os.path.join(src, f), os.path.join(root, "Proofs", f))
text = open(os.path.join(src, "PINS.md")).read()
cur = None
blocks = {}
inside = False
for line in text.splitlines():
    m = re.match(r"^##+\s+(C\d\d)\b", line)
    if m and not inside:
        cur = m.group(1)
        continue
    if line.startswith("```"):
        inside = not inside
        continue
    if inside and cur:
        blocks.setdefault(cur, []).append(line)
for pid, lines in sorted(blocks.items()):
    p = os.path.join(root, "Props", pid + ".v")
    have = open(p).read()
    body = "\n".join(lines).strip() + "\n"
    names = re.findall(r"^(?:Theorem|Example|Lemma)\s+(\S+)", body, re.M)
    dup = [n for n in names if re.search(r"^(?:Theorem|Example|Lemma)\s+%s\b" % re.escape(n), have, re.M)]
    print(pid, "append", len(names), "statements", ("DUPLICATES: %s" % dup) if dup else "")
    if not dry and not dup:
        # Require Import lines must come first in a Props file? No: Coq accepts them anywhere at top level.
        open(p, "a").write("\n(* ==== added after the audit of 2026-10-02 (selftest/audit/REPORT-2026-10-02.md) ==== *)\n" + body)
