//! `mac`: the statsd_* macros of cadence-macros on the process-wide default client.
//! A process can set the global client only once, so every case runs in a fresh child
//! process (`harness macchild <case line>`).
//!
//! case:  M <prefix> <dtags> <dcid> <script> <steps>        (client configuration as in bin `wire`)
//!   steps = '%'-separated:
//!     S                                   set_global_default(client built from the configuration)
//!     Z                                   set_global_default(another client)  -- must be ignored once a client is set
//!     I|<kind>|<arg>|<key>|<tags>         a macro invocation on the main thread
//!     T|<kind>|<arg>|<key>|<tags>         the same on a fresh thread
//!     N|<kind>|<arg>|<key>|<tags>         the same, its value expression invoking statsd_gauge!("nested.inner", 7u64, "in" => "x") first
//!     U|<kind>|<arg>|<key>|<tags>         the same inside a destructor that runs while a fresh thread unwinds from a panic
//!   kind = c ms g m h d s (statsd_count! .. statsd_set!); arg as in bin `wire` (one of the 22 value types);
//!   tags = comma list <hexkey>:<hexvalue> ("-" = none; 0..5 pairs)
//!   Every invocation is a statically expanded macro call whose argument expressions log their evaluation.
//! observation: per invocation  <ret>,<emitted>,<handled>,<evals>  joined by "|"
//!   ret = unit | panic ; emitted / handled as in bin `wire` ; evals = "~" or '.'-joined k v tk<i> tv<i> in evaluation order
use crate::util::catch;
use crate::wire::{build_client, hex0, parse_arg, unhex0, Arg};
use std::cell::RefCell;
use std::time::Duration;

struct Ctx {
    key: &'static str,
    arg: Arg,
    tags: Vec<(&'static str, &'static str)>,
}

thread_local! {
    static CTX: RefCell<Option<Ctx>> = RefCell::new(None);
    static EVALS: RefCell<Vec<String>> = RefCell::new(Vec::new());
}

fn note(s: String) {
    EVALS.with(|e| e.borrow_mut().push(s));
}

fn ev_key() -> &'static str {
    note("k".to_string());
    CTX.with(|c| c.borrow().as_ref().unwrap().key)
}

fn ev_tk(i: usize) -> &'static str {
    note(format!("tk{}", i));
    CTX.with(|c| c.borrow().as_ref().unwrap().tags[i].0)
}

fn ev_tv(i: usize) -> &'static str {
    note(format!("tv{}", i));
    CTX.with(|c| c.borrow().as_ref().unwrap().tags[i].1)
}

trait FromArg: Sized {
    fn from_arg(a: &Arg) -> Self;
}
macro_rules! from_arg {
    ($($t:ty => $v:ident),*) => {$(
        impl FromArg for $t {
            fn from_arg(a: &Arg) -> Self {
                match a { Arg::$v(x) => x.clone(), _ => panic!("argument type mismatch") }
            }
        }
    )*};
}
from_arg!(i64 => I64, i32 => I32, u64 => U64, u32 => U32, f64 => F64, Duration => Dur,
          Vec<u64> => VU64, Vec<f64> => VF64, Vec<Duration> => VDur);

thread_local! { static NESTED: std::cell::Cell<bool> = std::cell::Cell::new(false); }

fn ev_val<T: FromArg>() -> T {
    note("v".to_string());
    // step N: the value expression of this invocation itself invokes a macro (a helper that measures and reports)
    if NESTED.with(|n| n.replace(false)) {
        cadence_macros::statsd_gauge!("nested.inner", 7u64, "in" => "x");
    }
    CTX.with(|c| T::from_arg(&c.borrow().as_ref().unwrap().arg))
}

/// the statically expanded invocations: one per macro, value type and number of tag pairs
macro_rules! invoke {
    ($mac:ident, $ty:ty, $n:expr) => {
        match $n {
            0 => {
                cadence_macros::$mac!(ev_key(), ev_val::<$ty>());
            }
            1 => {
                cadence_macros::$mac!(ev_key(), ev_val::<$ty>(), ev_tk(0) => ev_tv(0));
            }
            2 => {
                cadence_macros::$mac!(ev_key(), ev_val::<$ty>(), ev_tk(0) => ev_tv(0), ev_tk(1) => ev_tv(1));
            }
            3 => {
                cadence_macros::$mac!(ev_key(), ev_val::<$ty>(), ev_tk(0) => ev_tv(0), ev_tk(1) => ev_tv(1),
                                      ev_tk(2) => ev_tv(2));
            }
            4 => {
                cadence_macros::$mac!(ev_key(), ev_val::<$ty>(), ev_tk(0) => ev_tv(0), ev_tk(1) => ev_tv(1),
                                      ev_tk(2) => ev_tv(2), ev_tk(3) => ev_tv(3));
            }
            5 => {
                cadence_macros::$mac!(ev_key(), ev_val::<$ty>(), ev_tk(0) => ev_tv(0), ev_tk(1) => ev_tv(1),
                                      ev_tk(2) => ev_tv(2), ev_tk(3) => ev_tv(3), ev_tk(4) => ev_tv(4));
            }
            _ => panic!("unsupported number of tag pairs"),
        }
    };
}

/// Returns false when (kind, value type) is not an entry point.
fn invoke_macro(kind: &str, arg: &Arg, n: usize) -> bool {
    match (kind, arg) {
        ("c", Arg::I64(_)) => invoke!(statsd_count, i64, n),
        ("c", Arg::I32(_)) => invoke!(statsd_count, i32, n),
        ("c", Arg::U64(_)) => invoke!(statsd_count, u64, n),
        ("c", Arg::U32(_)) => invoke!(statsd_count, u32, n),
        ("ms", Arg::U64(_)) => invoke!(statsd_time, u64, n),
        ("ms", Arg::Dur(_)) => invoke!(statsd_time, Duration, n),
        ("ms", Arg::VU64(_)) => invoke!(statsd_time, Vec<u64>, n),
        ("ms", Arg::VDur(_)) => invoke!(statsd_time, Vec<Duration>, n),
        ("g", Arg::U64(_)) => invoke!(statsd_gauge, u64, n),
        ("g", Arg::F64(_)) => invoke!(statsd_gauge, f64, n),
        ("m", Arg::U64(_)) => invoke!(statsd_meter, u64, n),
        ("h", Arg::U64(_)) => invoke!(statsd_histogram, u64, n),
        ("h", Arg::F64(_)) => invoke!(statsd_histogram, f64, n),
        ("h", Arg::Dur(_)) => invoke!(statsd_histogram, Duration, n),
        ("h", Arg::VU64(_)) => invoke!(statsd_histogram, Vec<u64>, n),
        ("h", Arg::VF64(_)) => invoke!(statsd_histogram, Vec<f64>, n),
        ("h", Arg::VDur(_)) => invoke!(statsd_histogram, Vec<Duration>, n),
        ("d", Arg::U64(_)) => invoke!(statsd_distribution, u64, n),
        ("d", Arg::F64(_)) => invoke!(statsd_distribution, f64, n),
        ("d", Arg::VU64(_)) => invoke!(statsd_distribution, Vec<u64>, n),
        ("d", Arg::VF64(_)) => invoke!(statsd_distribution, Vec<f64>, n),
        ("s", Arg::I64(_)) => invoke!(statsd_set, i64, n),
        _ => return false,
    }
    true
}

fn leak(s: String) -> &'static str {
    Box::leak(s.into_boxed_str())
}

/// one invocation on the calling thread: (ret, evals)
fn one(kind: &str, arg: &str, key: &str, tags: &str) -> (String, String) {
    let arg = parse_arg(arg);
    let tags: Vec<(&'static str, &'static str)> = if tags == "-" {
        vec![]
    } else {
        tags.split(',')
            .map(|t| {
                let (k, v) = t.split_once(':').expect("tag pair");
                (leak(unhex0(k)), leak(unhex0(v)))
            })
            .collect()
    };
    let n = tags.len();
    CTX.with(|c| {
        *c.borrow_mut() = Some(Ctx {
            key: leak(unhex0(key)),
            arg: arg.clone(),
            tags,
        })
    });
    EVALS.with(|e| e.borrow_mut().clear());
    let r = catch(|| invoke_macro(kind, &arg, n));
    let ret = match r {
        Ok(true) => "unit",
        Ok(false) => "notype",
        Err(_) => "panic",
    };
    let ev = EVALS.with(|e| e.borrow().join("."));
    (ret.to_string(), if ev.is_empty() { "~".to_string() } else { ev })
}

/// runs in the child process
pub fn child(line: &str) -> String {
    let t: Vec<&str> = line.split_whitespace().collect();
    assert!(t[0] == "M", "bad mac case");
    let built = build_client(t[1], t[2], t[3], t[4]);
    let log = built.log.clone();
    let handled = built.handled.clone();
    let mut client = Some(built.client);
    let mut out = vec![];
    let mut first_got: Option<std::sync::Arc<cadence::StatsdClient>> = None;
    for step in t[5].split('%') {
        let f: Vec<&str> = step.split('|').collect();
        match f[0] {
            // the two public read functions of the holder, on this thread (G, Q) or on a fresh one (GT, QT)
            "G" | "GT" => {
                let got = if f[0] == "G" {
                    cadence_macros::get_global_default().ok()
                } else {
                    std::thread::spawn(|| cadence_macros::get_global_default().ok()).join().unwrap_or(None)
                };
                out.push(match got {
                    None => "g0,~,~,~".to_string(),
                    Some(a) => {
                        let same = match &first_got {
                            None => {
                                first_got = Some(a.clone());
                                true
                            }
                            Some(f0) => std::sync::Arc::ptr_eq(f0, &a),
                        };
                        (if same { "g1,~,~,~" } else { "g1!,~,~,~" }).to_string()
                    }
                });
            }
            "Q" | "QT" => {
                let b = if f[0] == "Q" {
                    cadence_macros::is_global_default_set()
                } else {
                    std::thread::spawn(cadence_macros::is_global_default_set).join().unwrap_or(false)
                };
                out.push((if b { "q1,~,~,~" } else { "q0,~,~,~" }).to_string());
            }
            "S" => {
                if let Some(c) = client.take() {
                    cadence_macros::set_global_default(c);
                }
            }
            "Z" => {
                let other = build_client("7a7a", "-", "~", "-");
                cadence_macros::set_global_default(other.client);
            }
            "I" | "T" | "U" | "N" => {
                let before_log = log.lock().unwrap().len();
                let before_h = handled.lock().unwrap().len();
                let (ret, ev) = if f[0] == "I" {
                    one(f[1], f[2], f[3], f[4])
                } else if f[0] == "N" {
                    NESTED.with(|n| n.set(true));
                    let r = one(f[1], f[2], f[3], f[4]);
                    NESTED.with(|n| n.set(false));
                    r
                } else if f[0] == "U" {
                    // the invocation sits in a destructor that runs while its thread unwinds from a panic (a scope guard
                    // counting or timing a request): generated only for processes in which a client is set
                    struct Guard(String, String, String, String, std::sync::Arc<std::sync::Mutex<Option<(String, String)>>>);
                    impl Drop for Guard {
                        fn drop(&mut self) {
                            let r = one(&self.0, &self.1, &self.2, &self.3);
                            *self.4.lock().unwrap() = Some(r);
                        }
                    }
                    let slot = std::sync::Arc::new(std::sync::Mutex::new(None));
                    let g = Guard(f[1].to_string(), f[2].to_string(), f[3].to_string(), f[4].to_string(), slot.clone());
                    let _ = std::thread::spawn(move || {
                        let _g = g;
                        panic!("unwinding with a metrics guard alive");
                    })
                    .join();
                    let r = slot.lock().unwrap().take();
                    r.unwrap_or(("panic".to_string(), "?".to_string()))
                } else {
                    let (a, b, c, d) = (f[1].to_string(), f[2].to_string(), f[3].to_string(), f[4].to_string());
                    std::thread::spawn(move || one(&a, &b, &c, &d))
                        .join()
                        .unwrap_or(("panic".to_string(), "?".to_string()))
                };
                let l = log.lock().unwrap();
                let emitted: Vec<String> = l[before_log..].iter().map(|s| crate::wire::show_entry(s)).collect();
                let h = handled.lock().unwrap();
                let hd: Vec<String> = h[before_h..].to_vec();
                out.push(format!(
                    "{},{},{},{}",
                    ret,
                    if emitted.is_empty() { "~".to_string() } else { emitted.join("+") },
                    if hd.is_empty() { "~".to_string() } else { hd.join("+") },
                    ev
                ));
            }
            _ => panic!("bad step {}", step),
        }
    }
    out.join("|")
}

/// runs in the harness: one fresh process per case
pub fn run_case(line: &str) -> String {
    let exe = std::env::current_exe().expect("current_exe");
    let o = std::process::Command::new(exe).arg("macchild").arg(line).output().expect("spawn child");
    if !o.status.success() {
        return format!(
            "CHILD-FAILED {:?} {}",
            o.status.code(),
            String::from_utf8_lossy(&o.stderr).replace('\n', " ").chars().take(300).collect::<String>()
        );
    }
    String::from_utf8_lossy(&o.stdout).trim().to_string()
}
