(* Model of the send paths: MetricBuilder::{try_send, send}, the plain trait methods,
   StatsdClient::{send_metric, consume_error} and From<io::Error> for MetricError
   (cadence/src/builder.rs, client.rs, types.rs).  Definitions only. *)
Require Import Cadence.Base.Prelude.
Require Import Cadence.Model.Convert.
Require Import Cadence.Model.Wire.

(* what the sink answers to one emit: accept, or refuse with an io::Error identified by
   (its ErrorKind, a payload identity) *)
Inductive sink_outcome := Accept | Refuse (k : N) (id : N).

(* the error a call reports: [merror] of Model/Convert.v *)

Inductive form := TrySend | Plain | Quiet.                 (* Plain = the untagged trait method *)

Inductive ret := ROkMetric (line : str) | RError (e : merror) | RUnit.

Record outcome1 := {
  o_ret : ret;                  (* what the call returned *)
  o_emitted : list str;         (* strings handed to the sink during the call *)
  o_handled : list merror       (* invocations of the client's error handler during the call *)
}.

(* one call; consumes one sink outcome iff the sink is invoked (exhausted script = Accept) *)
Definition send_call (cfg : config) (fm : form) (c : call) (script : list sink_outcome)
  : option (outcome1 * list sink_outcome) :=
  match client_line cfg c with
  | None => None
  | Some (inl e) =>          (* the error of the value conversion (the library's own impls and the
                               empty-packed-list check produce EInvalid only; a user's impl may
                               return any error), reported as it is; the sink is not invoked *)
    Some (match fm with
          | Quiet => {| o_ret := RUnit; o_emitted := []; o_handled := [e] |}
          | _ => {| o_ret := RError e; o_emitted := []; o_handled := [] |}
          end, script)
  | Some (inr line) =>
    let '(o, rest) := match script with [] => (Accept, []) | o :: r => (o, r) end in
    Some (match o, fm with
          | Accept, Quiet => {| o_ret := RUnit; o_emitted := [line]; o_handled := [] |}
          | Accept, _ => {| o_ret := ROkMetric line; o_emitted := [line]; o_handled := [] |}
          | Refuse k id, Quiet => {| o_ret := RUnit; o_emitted := [line]; o_handled := [EIo k id] |}
          | Refuse k id, _ => {| o_ret := RError (EIo k id); o_emitted := [line]; o_handled := [] |}
          end, rest)
  end.

(* a sequence of calls on one client *)
Fixpoint send_calls (cfg : config) (cs : list (form * call)) (script : list sink_outcome)
  : option (list outcome1) :=
  match cs with
  | [] => Some []
  | (fm, c) :: r =>
    match send_call cfg fm c script with
    | None => None
    | Some (o, script') =>
      match send_calls cfg r script' with Some os => Some (o :: os) | None => None end
    end
  end.

(* CountedExt::incr / decr and their _with_tags forms are count_with_tags(key, 1) / count_with_tags(key, -1)
   (client.rs): the argument the correspondence glue gives the model for the harness's `incr` / `decr` calls *)
Definition incr_arg : arg := AI64 1%Z.
Definition decr_arg : arg := AI64 (-1)%Z.
