#!/usr/bin/env python3
"""Self-test of the C18 check: apply each mutation to /repo/cadence-macros/src/state.rs, run
./check C18, restore the file.  usage: selftest/singleton_mutations.py [tier] [name ...]"""
import subprocess
import sys
import time

STATE = "/repo/cadence-macros/src/state.rs"
CAS = """        if self
            .state
            .compare_exchange(UNSET, LOADING, Ordering::AcqRel, Ordering::Relaxed)
            .is_err()
        {
            return;
        }
"""
WRITE = """        let ptr = self.value.get();
        unsafe {
            *ptr = Some(Arc::new(val));
        }

        self.state.store(COMPLETE, Ordering::Release);
"""
MUTATIONS = [
    ("store-relaxed", "VIOLATION", [("self.state.store(COMPLETE, Ordering::Release);", "self.state.store(COMPLETE, Ordering::Relaxed);")]),
    ("load-relaxed", "VIOLATION", [("self.state.load(Ordering::Acquire)", "self.state.load(Ordering::Relaxed)")]),
    ("complete-before-write", "VIOLATION", [(WRITE, """        self.state.store(COMPLETE, Ordering::Release);
        let ptr = self.value.get();
        unsafe {
            *ptr = Some(Arc::new(val));
        }
""")]),
    ("cas-to-load-store", "VIOLATION", [(CAS, """        if self.state.load(Ordering::Acquire) != UNSET {
            return;
        }
        self.state.store(LOADING, Ordering::Release);
""")]),
    ("load-seqcst", "OK", [("self.state.load(Ordering::Acquire)", "self.state.load(Ordering::SeqCst)")]),
    ("cas-seqcst", "OK", [("Ordering::AcqRel, Ordering::Relaxed", "Ordering::SeqCst, Ordering::Relaxed")]),
]


def main():
    tier = sys.argv[1] if len(sys.argv) > 1 else "quick"
    only = sys.argv[2:]
    orig = open(STATE).read()
    rows = []
    try:
        for name, expect, edits in MUTATIONS:
            if only and name not in only:
                continue
            txt = orig
            for a, b in edits:
                assert a in txt, (name, a)
                txt = txt.replace(a, b)
            open(STATE, "w").write(txt)
            t0 = time.time()
            p = subprocess.run(["./check", "C18", "--tier", tier], cwd="/verif", stdout=subprocess.PIPE,
                               stderr=subprocess.STDOUT, text=True)
            open(STATE, "w").write(orig)
            last = [l for l in p.stdout.splitlines() if l.startswith(("VIOLATION", "OK"))]
            got = last[-1] if last else p.stdout[-300:]
            verdict = "VIOLATION" if got.startswith("VIOLATION") else "OK" if got.startswith("OK") else "?"
            first = [l for l in p.stdout.splitlines() if l.startswith("  ")]
            rows.append((name, expect, verdict, p.returncode, round(time.time() - t0, 1), got, first[:1]))
            print("%-24s expect=%-9s got=%-9s rc=%d %5.1fs  %s" % (name, expect, verdict, p.returncode, time.time() - t0, got))
            for f in first[:2]:
                print("      " + f.strip()[:260])
    finally:
        open(STATE, "w").write(orig)
    bad = [r for r in rows if r[1] != r[2]]
    print("self-test:", "all as expected" if not bad else "UNEXPECTED: %s" % [r[0] for r in bad])
    return 1 if bad else 0


if __name__ == "__main__":
    sys.exit(main())
