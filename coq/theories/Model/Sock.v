(* Model of the socket-backed sinks of cadence/src/sinks/udp.rs and unix.rs: the unbuffered
   sinks are Stats.sock_emit (one send_to per emit); the buffered sinks are the line-buffering
   writer (Writer.sink_init: newline terminator, 512 bytes unless configured) over a write
   adapter that turns every underlying write into ONE send_to of exactly those bytes and feeds
   the result to SocketStats::update.  Definitions only. *)
Require Import Cadence.Base.Prelude.
Require Import Cadence.Model.Writer.
Require Import Cadence.Model.Stats.

(* Udp/UnixWriteAdapter::write: stats.update(socket.send_to(buf, dest), buf.len()) *)
Definition attempt_of_log (a : attempt) : attempt1 :=
  let len := N.of_nat (length (a_bytes a)) in
  {| at_len := len; at_res := match a_out a with WOk => Some len | _ => None end |}.

(* the statistics of a buffered socket sink after the underlying writes [lg] *)
Definition buffered_stats (lg : list attempt) : stats := updates stats0 (map attempt_of_log lg).

(* the datagrams it put on the wire, in order *)
Definition datagrams (dest : N) (lg : list attempt) : list send :=
  flat_map (fun a => match a_out a with
                     | WOk => [{| sd_dest := dest; sd_payload := a_bytes a |}]
                     | _ => []
                     end) lg.

(* QueuingMetricSink::stats / flush delegate to the wrapped sink *)
Definition queuing_stats (wrapped : stats) : stats := wrapped.

(* ------------------------------------------------------------------ scenarios on local sockets
   What the correspondence check drives (harness bin `sock`): emits and flushes on one sink while a
   listener goes away ([SDown]: every send_to is refused from then on) and comes back ([SUp]).
   [queued] = the sink sits behind a QueuingMetricSink: emit then answers for the queue (Ok with
   the metric's length) whatever the socket says; everything else is unchanged. *)
Inductive sop := SEmit (m : str) | SFlush | SDown | SUp.
Inductive sres := SK (n : N) | SE | SNone.

Definition os_of (up : bool) : os_outcome := if up then OsOk else OsErr 0.

(* UdpMetricSink / UnixMetricSink *)
Fixpoint sc_unbuf (queued up : bool) (st : stats) (ops : list sop) : list sres * list send * stats :=
  match ops with
  | [] => ([], [], st)
  | SEmit m :: r =>
    let '(sd, res, st1) := sock_emit 0 st m (os_of up) in
    let '(rs, dg, st2) := sc_unbuf queued up st1 r in
    (match res with
     | inl n => SK n
     | inr _ => if queued then SK (N.of_nat (length m)) else SE
     end :: rs,
     match res with inl _ => sd :: dg | inr _ => dg end, st2)
  | SFlush :: r => let '(rs, dg, st2) := sc_unbuf queued up st r in (SK 0 :: rs, dg, st2)
  | SDown :: r => let '(rs, dg, st2) := sc_unbuf queued false st r in (SNone :: rs, dg, st2)
  | SUp :: r => let '(rs, dg, st2) := sc_unbuf queued true st r in (SNone :: rs, dg, st2)
  end.

(* BufferedUdpMetricSink / BufferedUnixMetricSink: the writer with the fault script the listener's
   state dictates for the (at most 6) underlying writes of one call *)
Definition up_script (up : bool) : list outcome := repeat (if up then WOk else WErr 0) 6.
Definition with_script (s : st) (up : bool) : st := set_io s (up_script up) (lg s).

Fixpoint sc_buf (queued up : bool) (s : st) (n : nat) (ops : list sop) : list sres * st * nat * bool :=
  match ops with
  | [] => ([], s, n, up)
  | SEmit m :: r =>
    let '(x, s1) := step (with_script s up) n (Emit m) in
    let '(rs, s2, n2, up2) := sc_buf queued up s1 (S n) r in
    (match x with
     | OOk k => SK (N.of_nat k)
     | _ => if queued then SK (N.of_nat (length m)) else SE
     end :: rs, s2, n2, up2)
  | SFlush :: r =>
    let '(x, s1) := step (with_script s up) n Flush in
    let '(rs, s2, n2, up2) := sc_buf queued up s1 (S n) r in
    (match x with OOk k => SK (N.of_nat k) | _ => SE end :: rs, s2, n2, up2)
  | SDown :: r => let '(rs, s2, n2, up2) := sc_buf queued false s n r in (SNone :: rs, s2, n2, up2)
  | SUp :: r => let '(rs, s2, n2, up2) := sc_buf queued true s n r in (SNone :: rs, s2, n2, up2)
  end.

(* a whole scenario: results per op, the statistics read after the last op (before the sink goes
   away), and the datagrams that reached the wire including those of the final drop *)
Definition sc_buffered (cap : option nat) (queued : bool) (ops : list sop)
  : list sres * list str * stats :=
  let '(rs, s, n, up) := sc_buf queued true (sink_init cap []) 0 ops in
  (rs, map sd_payload (datagrams 0 (lg (mlw_drop (with_script s up) n))), buffered_stats (lg s)).

Definition sc_unbuffered (queued : bool) (ops : list sop) : list sres * list str * stats :=
  let '(rs, dg, st) := sc_unbuf queued true stats0 ops in (rs, map sd_payload dg, st).
