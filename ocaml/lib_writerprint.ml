(* Gallina printers for the writer model's types, shared by run_mlw.ml and run_conc.ml (kernel cross-check) *)
let g_outcome = function WOk -> "WOk" | WIntr -> "WIntr" | WErr e -> "(WErr " ^ g_small_n e ^ ")"
let g_op = function Flush -> "Flush" | Emit m -> "(Emit " ^ g_str m ^ ")"
let g_ores = function
  | OOk n -> "(OOk " ^ g_nat n ^ ")" | OErr e -> "(OErr " ^ g_small_n e ^ ")" | OIntr -> "OIntr" | OPanic -> "OPanic"

