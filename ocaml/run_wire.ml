(* model: wire *)
(* include: wireparse *)
(* model side of harness bin `wire` (formats: harness/src/wire.rs); float arguments arrive
   as the hex of std's Display text instead of bit patterns *)

let rec take n l = if n = 0 then [] else match l with [] -> [] | x :: r -> x :: take (n - 1) r
let rec drop n l = if n = 0 then l else match l with [] -> [] | _ :: r -> drop (n - 1) r

let run_x t =
  match t with
  | _ :: prefix :: dtags :: dcid :: script :: n :: rest ->
    let cfg = { c_prefix = unhex0 prefix; c_tags = parse_dtags dtags;
                c_container = (if dcid = "~" then None else Some (unhex0 dcid)) } in
    let n = int_of_string n in
    let rec go i rest script acc =
      if i = n then List.rev acc else
      match rest with
      | form :: kind :: arg :: key :: ops :: rest' ->
        let c = { k_kind = parse_kind kind; k_key = unhex0 key; k_arg = parse_arg arg; k_ops = parse_ops ops } in
        (match send_call cfg (parse_form form) c script with
         | None -> go (i + 1) rest' script ("notype,~,~" :: acc)
         | Some (o, script') -> go (i + 1) rest' script' (show_outcome o :: acc))
      | _ -> failwith "short X case" in
    String.concat "|" (go 0 rest (parse_script script) [])
  | _ -> failwith "bad X case"

let run_k t =
  match t with
  | [_; kind; prefix; key; arg] ->
    let v = match (kind, parse_arg arg) with
      | ("c", AI64 z) | ("s", AI64 z) -> Some (Signed z)
      | (("ms" | "g" | "m" | "h" | "d"), AU64 n) -> Some (Unsigned n)
      | (("g" | "h" | "d"), AF64 tx) -> Some (Float tx)
      | _ -> None in
    (match v with
     | None -> "notype"
     | Some v -> hex0 (ctor_line (parse_kind kind) (unhex0 prefix) (unhex0 key) v))
  | _ -> failwith "bad K case"

(* Display of a MetricValue: its value texts joined by ':' *)
let run_v t =
  match t with
  | [_; arg] -> (match parse_arg arg with
                 | AUser v -> "ok:" ^ hex0 (join b_colon (value_texts v))
                 | _ -> failwith "V needs a user: argument")
  | _ -> failwith "bad V case"

let run_case line =
  let t = tokens line in
  match t with
  | "X" :: _ | "Y" :: _ -> run_x t
  | "K" :: _ -> run_k t
  | "V" :: _ -> run_v t
  | _ -> failwith ("bad wire case: " ^ line)

(* the same X case as a Gallina equation (kernel cross-check of the extracted client model) *)
let coq_header =
  "Require Import Cadence.Base.Prelude Cadence.Model.Convert Cadence.Model.Wire Cadence.Model.Client.\n"

let coq_case line =
  match tokens line with
  | ("X" | "Y") :: prefix :: dtags :: dcid :: script :: n :: rest when String.length line < 1200 ->
    let cfg = { c_prefix = unhex0 prefix; c_tags = parse_dtags dtags;
                c_container = (if dcid = "~" then None else Some (unhex0 dcid)) } in
    let rec calls k rest acc =
      if k = 0 then List.rev acc else
      match rest with
      | form :: kind :: arg :: key :: ops :: rest' ->
        calls (k - 1) rest' ((parse_form form, { k_kind = parse_kind kind; k_key = unhex0 key; k_arg = parse_arg arg;
                                                k_ops = parse_ops ops }) :: acc)
      | _ -> failwith "short X case" in
    let cs = calls (int_of_string n) rest [] in
    let sc = parse_script script in
    let g_call (f, c) = "(" ^ g_form f ^ ", {| k_kind := " ^ g_kind c.k_kind ^ "; k_key := " ^ g_str c.k_key ^
                        "; k_arg := " ^ g_arg c.k_arg ^ "; k_ops := " ^ g_lst "bop" g_bop c.k_ops ^ " |})" in
    let lhs = Printf.sprintf "send_calls {| c_prefix := %s; c_tags := %s; c_container := %s |} %s %s"
        (g_str cfg.c_prefix) (g_lst "tag" g_tag cfg.c_tags) (g_option g_str cfg.c_container)
        (g_lst "(form * call)" g_call cs) (g_lst "sink_outcome" g_so sc) in
    let g_o1 o = "{| o_ret := " ^ g_ret o.o_ret ^ "; o_emitted := " ^ g_lst "(list N)" g_str o.o_emitted ^
                 "; o_handled := " ^ g_lst "merror" g_merr o.o_handled ^ " |}" in
    let rhs = match send_calls cfg cs sc with
      | None -> "(@None (list outcome1))"
      | Some os -> "(Some " ^ g_lst "outcome1" g_o1 os ^ ")" in
    Some (lhs ^ " = " ^ rhs)
  | _ -> None
