//! `wire`: every metric entry point of StatsdClient, in every call form, on a client with a
//! recording, scripted MetricSink and a logging error handler.
//!
//! case:  X <prefix> <dtags> <dcid> <script> <ncalls> { <form> <kind> <arg> <key> <ops> }*
//!        Y ...                                               (as X, the client built with StatsdClient::from_sink: no defaults,
//!                                                              no handler; forms T and P only)
//!        K <kind> <prefix> <key> <arg>                       (standalone constructors)
//!        F <bits>;<bits>;...                                 (std Display text of f64 bit patterns)
//!        V user:<variant>:<values>                           (Display of a MetricValue: ok:<hex> | panic)
//!   strings are hex ("_" = empty); "~" = None; "-" = empty list
//!   dtags  = comma list of k<hex>:<hex> | v<hex>
//!   script = comma list of a | r<kind index>.<payload id>     (exhausted = accept)
//!   form   = T (…_with_tags + ops + try_send) | P (plain method, no ops) | Q (…_with_tags + ops + send)
//!   kind   = c ms g m h d s
//!   arg    = i64:<dec> i32:<dec> u64:<dec> u32:<dec> f64:<bits> dur:<secs>.<nanos> vu64:<dec;…>
//!            vf64:<bits;…> vdur:<s.n;…> incr decr  user:<s|ps|u|pu|f|pf>:<…>   (user = a harness type whose
//!            To*Value impl returns the given MetricValue)  usererr:einv | usererr:eio:<kind index>.<id>  (a harness
//!            type whose To*Value impl returns that error)
//!   ops    = comma list of t<hex>:<hex> | v<hex> | c<hex> | T<dec> | r<bits>
//! observation (X): per call  <ret>,<emitted>,<handled>  joined by "|"
//!   ret = ok:<hex of Metric::as_metric_str> | einv | eio:<kind index>.<payload id> | unit | panic
//!   emitted = "~" or hex strings joined by "+";  handled = "~" or errors joined by "+"
use crate::util::{catch, hex, payload_of, unhex_str, Payload};
use cadence::ext::{
    MetricValue, ToCounterValue, ToDistributionValue, ToGaugeValue, ToHistogramValue, ToMeterValue, ToSetValue,
    ToTimerValue,
};
use cadence::prelude::*;
use cadence::{
    Counter, Distribution, ErrorKind, Gauge, Histogram, Meter, Metric, MetricBuilder, MetricError, MetricResult,
    MetricSink, Set, StatsdClient, Timer,
};
use std::collections::VecDeque;
use std::error::Error;
use std::io;
use std::sync::{Arc, Mutex};
use std::time::Duration;

pub const IO_KINDS: [io::ErrorKind; 12] = [
    io::ErrorKind::NotFound,
    io::ErrorKind::PermissionDenied,
    io::ErrorKind::ConnectionRefused,
    io::ErrorKind::ConnectionReset,
    io::ErrorKind::BrokenPipe,
    io::ErrorKind::WouldBlock,
    io::ErrorKind::InvalidInput,
    io::ErrorKind::TimedOut,
    io::ErrorKind::Interrupted,
    io::ErrorKind::Other,
    io::ErrorKind::UnexpectedEof,
    io::ErrorKind::OutOfMemory,
];

pub fn unhex0(s: &str) -> String {
    if s == "_" {
        String::new()
    } else {
        unhex_str(s)
    }
}

pub fn hex0(s: &[u8]) -> String {
    if s.is_empty() {
        "_".to_string()
    } else {
        hex(s)
    }
}

#[derive(Clone, Debug)]
pub enum SinkOutcome {
    Accept,
    /// accepts the metric but answers Ok(n) for an arbitrary n (the count is the sink's business, not the client's)
    AcceptN(usize),
    Refuse(usize, u64),
}

/// what the recording sink logs when its flush() is invoked (shown as `F` among the emitted lines)
pub const FLUSH_MARK: &str = "\u{1}\u{1}<flush>\u{1}\u{1}";

pub fn show_entry(s: &str) -> String {
    if s == FLUSH_MARK {
        "F".to_string()
    } else {
        hex0(s.as_bytes())
    }
}

#[derive(Clone)]
pub struct RecSink {
    pub log: Arc<Mutex<Vec<String>>>,
    pub script: Arc<Mutex<VecDeque<SinkOutcome>>>,
}

impl MetricSink for RecSink {
    fn emit(&self, metric: &str) -> io::Result<usize> {
        self.log.lock().unwrap().push(metric.to_string());
        match self.script.lock().unwrap().pop_front() {
            None | Some(SinkOutcome::Accept) => Ok(metric.len()),
            Some(SinkOutcome::AcceptN(n)) => Ok(n),
            Some(SinkOutcome::Refuse(k, id)) => Err(crate::util::refusal(IO_KINDS[k % IO_KINDS.len()], id)),
        }
    }

    fn flush(&self) -> io::Result<()> {
        self.log.lock().unwrap().push(FLUSH_MARK.to_string());
        Ok(())
    }
}

pub fn canon_err(e: &MetricError) -> String {
    match e.kind() {
        ErrorKind::InvalidInput => "einv".to_string(),
        ErrorKind::IoError => match e.source().and_then(|s| s.downcast_ref::<io::Error>()) {
            Some(ioe) => {
                let k = IO_KINDS.iter().position(|x| *x == ioe.kind());
                match (k, payload_of(ioe)) {
                    (Some(k), Some(id)) => format!("eio:{}.{}", k, id),
                    _ => "eio:?".to_string(),
                }
            }
            None => "eio:nosource".to_string(),
        },
    }
}

#[derive(Clone, Debug)]
pub enum Arg {
    I64(i64),
    I32(i32),
    U64(u64),
    U32(u32),
    F64(f64),
    Dur(Duration),
    VU64(Vec<u64>),
    VF64(Vec<f64>),
    VDur(Vec<Duration>),
    Incr,
    Decr,
    User(UserVal),
    UserErr(UserErr),
}

/// A user-defined value type whose conversion FAILS: its To*Value impls return the error described here - an
/// InvalidInput error of the user's own (None) or an I/O error of the given kind carrying a payload id (built like the
/// scripted sink's refusals, so that it is reported as eio:<kind index>.<id>).
#[derive(Clone, Debug)]
pub struct UserErr(pub Option<(usize, u64)>);
impl UserErr {
    fn error(&self) -> MetricError {
        match self.0 {
            None => MetricError::from((ErrorKind::InvalidInput, "the user's conversion says no")),
            Some((k, id)) => MetricError::from(crate::util::refusal(IO_KINDS[k % IO_KINDS.len()], id)),
        }
    }
}
macro_rules! user_err_impl {
    ($($tr:ident),*) => {$(
        impl $tr for UserErr {
            fn try_to_value(self) -> MetricResult<MetricValue> {
                Err(self.error())
            }
        }
    )*};
}
user_err_impl!(ToCounterValue, ToTimerValue, ToGaugeValue, ToMeterValue, ToHistogramValue, ToDistributionValue, ToSetValue);

/// A user-defined value type: its To*Value impls return the wrapped MetricValue as is.
#[derive(Clone, Debug)]
pub struct UserVal(pub MetricValue);
macro_rules! user_impl {
    ($($tr:ident),*) => {$(
        impl $tr for UserVal {
            fn try_to_value(self) -> MetricResult<MetricValue> {
                Ok(self.0)
            }
        }
    )*};
}
user_impl!(ToCounterValue, ToTimerValue, ToGaugeValue, ToMeterValue, ToHistogramValue, ToDistributionValue, ToSetValue);

fn f64_of_bits(s: &str) -> f64 {
    f64::from_bits(u64::from_str_radix(s, 16).expect("f64 bits"))
}

fn parse_dur(s: &str) -> Duration {
    let (a, b) = s.split_once('.').expect("dur");
    Duration::new(a.parse().unwrap(), b.parse().unwrap())
}

fn list<T>(s: &str, f: impl Fn(&str) -> T) -> Vec<T> {
    if s == "-" {
        vec![]
    } else {
        s.split(';').map(f).collect()
    }
}

pub fn parse_arg(s: &str) -> Arg {
    if s == "incr" {
        return Arg::Incr;
    }
    if s == "decr" {
        return Arg::Decr;
    }
    let (ty, v) = s.split_once(':').expect("arg");
    match ty {
        "i64" => Arg::I64(v.parse().unwrap()),
        "i32" => Arg::I32(v.parse().unwrap()),
        "u64" => Arg::U64(v.parse().unwrap()),
        "u32" => Arg::U32(v.parse().unwrap()),
        "f64" => Arg::F64(f64_of_bits(v)),
        "dur" => Arg::Dur(parse_dur(v)),
        "vu64" => Arg::VU64(list(v, |x| x.parse().unwrap())),
        "vf64" => Arg::VF64(list(v, f64_of_bits)),
        "vdur" => Arg::VDur(list(v, parse_dur)),
        "usererr" => Arg::UserErr(UserErr(if v == "einv" {
            None
        } else {
            let (k, id) = v.strip_prefix("eio:").expect("usererr").split_once('.').expect("usererr");
            Some((k.parse().unwrap(), id.parse().unwrap()))
        })),
        "user" => {
            let (var, w) = v.split_once(':').expect("user");
            Arg::User(UserVal(match var {
                "s" => MetricValue::Signed(w.parse().unwrap()),
                "ps" => MetricValue::PackedSigned(list(w, |x| x.parse().unwrap())),
                "u" => MetricValue::Unsigned(w.parse().unwrap()),
                "pu" => MetricValue::PackedUnsigned(list(w, |x| x.parse().unwrap())),
                "f" => MetricValue::Float(f64_of_bits(w)),
                "pf" => MetricValue::PackedFloat(list(w, f64_of_bits)),
                _ => panic!("bad user variant"),
            }))
        }
        _ => panic!("bad arg type {}", ty),
    }
}

#[derive(Clone, Debug)]
pub enum Bop {
    Tag(String, String),
    TagValue(String),
    Container(String),
    Timestamp(u64),
    Rate(f64),
}

pub fn parse_ops(s: &str) -> Vec<Bop> {
    if s == "-" {
        return vec![];
    }
    s.split(',')
        .map(|t| {
            let (h, r) = t.split_at(1);
            match h {
                "t" => {
                    let (k, v) = r.split_once(':').expect("tag");
                    Bop::Tag(unhex0(k), unhex0(v))
                }
                "v" => Bop::TagValue(unhex0(r)),
                "c" => Bop::Container(unhex0(r)),
                "T" => Bop::Timestamp(r.parse().unwrap()),
                "r" => Bop::Rate(f64_of_bits(r)),
                _ => panic!("bad op {}", t),
            }
        })
        .collect()
}

#[derive(Clone, Copy, PartialEq, Debug)]
pub enum Form {
    TrySend,
    Plain,
    Quiet,
}

fn ret_of<T: Metric>(r: MetricResult<T>) -> String {
    match r {
        Ok(m) => format!("ok:{}", hex0(m.as_metric_str().as_bytes())),
        Err(e) => canon_err(&e),
    }
}

fn finish<'m, 'c, T>(mut b: MetricBuilder<'m, 'c, T>, ops: &'m [Bop], form: Form) -> String
where
    T: Metric + From<String>,
{
    for o in ops {
        b = match o {
            Bop::Tag(k, v) => b.with_tag(k, v),
            Bop::TagValue(v) => b.with_tag_value(v),
            Bop::Container(c) => b.with_container_id(c),
            Bop::Timestamp(t) => b.with_timestamp(*t),
            Bop::Rate(r) => b.with_sampling_rate(*r),
        };
    }
    match form {
        Form::Quiet => {
            b.send();
            "unit".to_string()
        }
        _ => ret_of(b.try_send()),
    }
}

/// Perform one call on the real client.  Returns None when (kind, arg) is not an entry point.
pub fn do_call(client: &StatsdClient, form: Form, kind: &str, arg: &Arg, key: &str, ops: &[Bop]) -> Option<String> {
    macro_rules! go {
        ($wt:ident, $plain:ident, $v:expr) => {
            Some(match form {
                Form::Plain => ret_of(client.$plain(key, $v)),
                _ => finish(client.$wt(key, $v), ops, form),
            })
        };
    }
    match (kind, arg.clone()) {
        ("c", Arg::I64(v)) => go!(count_with_tags, count, v),
        ("c", Arg::I32(v)) => go!(count_with_tags, count, v),
        ("c", Arg::U64(v)) => go!(count_with_tags, count, v),
        ("c", Arg::U32(v)) => go!(count_with_tags, count, v),
        ("c", Arg::User(v)) => go!(count_with_tags, count, v),
        ("c", Arg::UserErr(v)) => go!(count_with_tags, count, v),
        ("c", Arg::Incr) => Some(match form {
            Form::Plain => ret_of(client.incr(key)),
            _ => finish(client.incr_with_tags(key), ops, form),
        }),
        ("c", Arg::Decr) => Some(match form {
            Form::Plain => ret_of(client.decr(key)),
            _ => finish(client.decr_with_tags(key), ops, form),
        }),
        ("ms", Arg::U64(v)) => go!(time_with_tags, time, v),
        ("ms", Arg::Dur(v)) => go!(time_with_tags, time, v),
        ("ms", Arg::VU64(v)) => go!(time_with_tags, time, v),
        ("ms", Arg::VDur(v)) => go!(time_with_tags, time, v),
        ("ms", Arg::User(v)) => go!(time_with_tags, time, v),
        ("ms", Arg::UserErr(v)) => go!(time_with_tags, time, v),
        ("g", Arg::U64(v)) => go!(gauge_with_tags, gauge, v),
        ("g", Arg::F64(v)) => go!(gauge_with_tags, gauge, v),
        ("g", Arg::User(v)) => go!(gauge_with_tags, gauge, v),
        ("g", Arg::UserErr(v)) => go!(gauge_with_tags, gauge, v),
        ("m", Arg::U64(v)) => go!(meter_with_tags, meter, v),
        ("m", Arg::User(v)) => go!(meter_with_tags, meter, v),
        ("m", Arg::UserErr(v)) => go!(meter_with_tags, meter, v),
        ("h", Arg::U64(v)) => go!(histogram_with_tags, histogram, v),
        ("h", Arg::F64(v)) => go!(histogram_with_tags, histogram, v),
        ("h", Arg::Dur(v)) => go!(histogram_with_tags, histogram, v),
        ("h", Arg::VU64(v)) => go!(histogram_with_tags, histogram, v),
        ("h", Arg::VF64(v)) => go!(histogram_with_tags, histogram, v),
        ("h", Arg::VDur(v)) => go!(histogram_with_tags, histogram, v),
        ("h", Arg::User(v)) => go!(histogram_with_tags, histogram, v),
        ("h", Arg::UserErr(v)) => go!(histogram_with_tags, histogram, v),
        ("d", Arg::U64(v)) => go!(distribution_with_tags, distribution, v),
        ("d", Arg::F64(v)) => go!(distribution_with_tags, distribution, v),
        ("d", Arg::VU64(v)) => go!(distribution_with_tags, distribution, v),
        ("d", Arg::VF64(v)) => go!(distribution_with_tags, distribution, v),
        ("d", Arg::User(v)) => go!(distribution_with_tags, distribution, v),
        ("d", Arg::UserErr(v)) => go!(distribution_with_tags, distribution, v),
        ("s", Arg::I64(v)) => go!(set_with_tags, set, v),
        ("s", Arg::User(v)) => go!(set_with_tags, set, v),
        ("s", Arg::UserErr(v)) => go!(set_with_tags, set, v),
        _ => None,
    }
}

pub struct Built {
    pub client: StatsdClient,
    pub log: Arc<Mutex<Vec<String>>>,
    pub handled: Arc<Mutex<Vec<String>>>,
}

pub fn parse_script(s: &str) -> VecDeque<SinkOutcome> {
    let mut q = VecDeque::new();
    if s != "-" {
        for t in s.split(',') {
            if t == "a" {
                q.push_back(SinkOutcome::Accept);
            } else if let Some(n) = t.strip_prefix('a') {
                q.push_back(SinkOutcome::AcceptN(n.parse::<u64>().unwrap() as usize));
            } else {
                let (k, id) = t[1..].split_once('.').expect("refuse");
                q.push_back(SinkOutcome::Refuse(k.parse().unwrap(), id.parse().unwrap()));
            }
        }
    }
    q
}

/// the same recording client, constructed with StatsdClient::from_sink (no defaults, no error handler)
pub fn build_client_from_sink(prefix: &str, script: &str) -> Built {
    let log = Arc::new(Mutex::new(vec![]));
    let handled = Arc::new(Mutex::new(vec![]));
    let sink = RecSink {
        log: log.clone(),
        script: Arc::new(Mutex::new(parse_script(script))),
    };
    Built {
        client: StatsdClient::from_sink(&unhex0(prefix), sink),
        log,
        handled,
    }
}

pub fn build_client(prefix: &str, dtags: &str, dcid: &str, script: &str) -> Built {
    let log = Arc::new(Mutex::new(vec![]));
    let handled = Arc::new(Mutex::new(vec![]));
    let sink = RecSink {
        log: log.clone(),
        script: Arc::new(Mutex::new(parse_script(script))),
    };
    let h2 = handled.clone();
    // where in the builder chain the handler is set is decided by the case text: first, after the first default tag,
    // after all default tags, or last (after the container id) - the order of builder calls must not matter
    let pos = format!("{}{}{}{}", prefix, dtags, dcid, script).bytes().fold(0u32, |a, b| a.wrapping_mul(31).wrapping_add(b as u32)) % 4;
    let mut handler = Some(move |e: MetricError| {
        h2.lock().unwrap().push(canon_err(&e));
    });
    let mut b = StatsdClient::builder(&unhex0(prefix), sink);
    if pos == 0 {
        b = b.with_error_handler(handler.take().unwrap());
    }
    if dtags != "-" {
        for (i, t) in dtags.split(',').enumerate() {
            let (h, r) = t.split_at(1);
            if h == "k" {
                let (k, v) = r.split_once(':').expect("dtag");
                b = b.with_tag(unhex0(k), unhex0(v));
            } else {
                b = b.with_tag_value(unhex0(r));
            }
            if pos == 1 && i == 0 {
                b = b.with_error_handler(handler.take().unwrap());
            }
        }
    }
    if pos == 2 {
        if let Some(h) = handler.take() {
            b = b.with_error_handler(h);
        }
    }
    if dcid != "~" {
        b = b.with_container_id(unhex0(dcid));
    }
    if let Some(h) = handler.take() {
        b = b.with_error_handler(h);
    }
    Built {
        client: b.build(),
        log,
        handled,
    }
}

/// like build_client, but the error handler itself makes a failing quiet send on the same client (a timer value that
/// does not fit u64) - once per outer invocation, not from the nested one.  The client lives in an Arc the handler
/// can reach (the cycle is leaked: one per case).
pub fn build_client_nested(prefix: &str, dtags: &str, dcid: &str, script: &str) -> (Arc<StatsdClient>, Arc<Mutex<Vec<String>>>, Arc<Mutex<Vec<String>>>) {
    use std::sync::atomic::{AtomicUsize, Ordering};
    let log = Arc::new(Mutex::new(vec![]));
    let handled = Arc::new(Mutex::new(vec![]));
    let sink = RecSink {
        log: log.clone(),
        script: Arc::new(Mutex::new(parse_script(script))),
    };
    let slot: Arc<Mutex<Option<Arc<StatsdClient>>>> = Arc::new(Mutex::new(None));
    let depth = Arc::new(AtomicUsize::new(0));
    let (h2, slot2, depth2) = (handled.clone(), slot.clone(), depth.clone());
    let mut b = StatsdClient::builder(&unhex0(prefix), sink).with_error_handler(move |e| {
        h2.lock().unwrap().push(canon_err(&e));
        if depth2.fetch_add(1, Ordering::SeqCst) == 0 {
            let c = { slot2.lock().unwrap().clone() };
            if let Some(c) = c {
                c.time_with_tags("nested", std::time::Duration::MAX).send();
            }
        }
        depth2.fetch_sub(1, Ordering::SeqCst);
    });
    if dtags != "-" {
        for t in dtags.split(',') {
            let (h, r) = t.split_at(1);
            if h == "k" {
                let (k, v) = r.split_once(':').expect("dtag");
                b = b.with_tag(unhex0(k), unhex0(v));
            } else {
                b = b.with_tag_value(unhex0(r));
            }
        }
    }
    if dcid != "~" {
        b = b.with_container_id(unhex0(dcid));
    }
    let client = Arc::new(b.build());
    *slot.lock().unwrap() = Some(client.clone());
    (client, log, handled)
}

/// `XT`: two threads fail a quiet send on one client at the same time: the handler invoked for the first failure is
/// still running (it waits for the second thread to finish its send) when the second failure is reported.  Both must
/// reach the handler.  Observation: the number of handler invocations and what each saw.
fn run_xt() -> String {
    use std::sync::atomic::{AtomicBool, AtomicUsize, Ordering};
    use std::time::{Duration, Instant};
    let handled: Arc<Mutex<Vec<String>>> = Arc::new(Mutex::new(vec![]));
    let inside = Arc::new(AtomicBool::new(false));
    let second_done = Arc::new(AtomicBool::new(false));
    let calls = Arc::new(AtomicUsize::new(0));
    let (h2, in2, sd2, c2) = (handled.clone(), inside.clone(), second_done.clone(), calls.clone());
    let sink = RecSink { log: Arc::new(Mutex::new(vec![])), script: Arc::new(Mutex::new(VecDeque::new())) };
    let client = Arc::new(
        StatsdClient::builder("p", sink)
            .with_error_handler(move |e| {
                h2.lock().unwrap().push(canon_err(&e));
                if c2.fetch_add(1, Ordering::SeqCst) == 0 {
                    // the first invocation stays inside the handler until the other thread's send has returned
                    in2.store(true, Ordering::SeqCst);
                    let t0 = Instant::now();
                    while !sd2.load(Ordering::SeqCst) && t0.elapsed() < Duration::from_secs(3) {
                        std::thread::sleep(Duration::from_millis(1));
                    }
                }
            })
            .build(),
    );
    let (ca, cb) = (client.clone(), client.clone());
    let a = std::thread::spawn(move || ca.time_with_tags("a", Duration::MAX).send());
    let b = std::thread::spawn(move || {
        let t0 = Instant::now();
        while !inside.load(Ordering::SeqCst) && t0.elapsed() < Duration::from_secs(3) {
            std::thread::sleep(Duration::from_millis(1));
        }
        cb.time_with_tags("b", Duration::MAX).send();
        second_done.store(true, Ordering::SeqCst);
    });
    let _ = b.join();
    let _ = a.join();
    let h = handled.lock().unwrap();
    format!("n={}:{}", h.len(), h.join("+"))
}

pub fn parse_form(s: &str) -> Form {
    match s {
        "T" => Form::TrySend,
        "P" => Form::Plain,
        "Q" => Form::Quiet,
        _ => panic!("bad form"),
    }
}

fn run_x(t: &[&str]) -> String {
    struct B {
        client: Arc<StatsdClient>,
        log: Arc<Mutex<Vec<String>>>,
        handled: Arc<Mutex<Vec<String>>>,
    }
    let built = if t[0] == "XN" {
        let (client, log, handled) = build_client_nested(t[1], t[2], t[3], t[4]);
        B { client, log, handled }
    } else {
        let b = if t[0] == "Y" {
            assert!(t[2] == "-" && t[3] == "~", "Y cases have no defaults");
            build_client_from_sink(t[1], t[4])
        } else {
            build_client(t[1], t[2], t[3], t[4])
        };
        B { client: Arc::new(b.client), log: b.log, handled: b.handled }
    };
    let n: usize = t[5].parse().unwrap();
    let mut out = vec![];
    // every second case runs with ANOTHER client alive in the process - other prefix, other default tags and container
    // id, a sink that refuses every second metric, a handler of its own - which sends a metric of its own before each
    // call of the case: clients share nothing
    let decoy = if t[1..5].join(" ").bytes().fold(0u32, |a, b| a.wrapping_mul(33).wrapping_add(b as u32)) % 2 == 0 {
        Some(build_client("6f746865722e", "k6f6b:6f76,v6f62617265", "6f636964", "a,r4.77,a,r9.78,a,r2.79,a,r5.80"))
    } else {
        None
    };
    for i in 0..n {
        if let Some(d) = &decoy {
            d.client.gauge_with_tags("other.gauge", i as u64).with_tag("ot", "ov").with_timestamp(7).send();
            let _ = d.client.count("other.count", -1);
        }
        let f = &t[6 + 5 * i..11 + 5 * i];
        let form = parse_form(f[0]);
        let arg = parse_arg(f[2]);
        let key = unhex0(f[3]);
        let ops = parse_ops(f[4]);
        let before_log = built.log.lock().unwrap().len();
        let before_h = built.handled.lock().unwrap().len();
        let r = catch(|| do_call(&built.client, form, f[1], &arg, &key, &ops));
        let ret = match r {
            Ok(Some(s)) => s,
            Ok(None) => "notype".to_string(),
            Err(_) => "panic".to_string(),
        };
        let log = built.log.lock().unwrap();
        let emitted: Vec<String> = log[before_log..].iter().map(|s| show_entry(s)).collect();
        let hl = built.handled.lock().unwrap();
        let handled: Vec<String> = hl[before_h..].to_vec();
        out.push(format!(
            "{},{},{}",
            ret,
            if emitted.is_empty() { "~".to_string() } else { emitted.join("+") },
            if handled.is_empty() { "~".to_string() } else { handled.join("+") }
        ));
    }
    out.join("|")
}

/// `KF <kind> <hex text>`: the `From<String>` conversion of every metric type keeps the text as it is
fn run_kf(t: &[&str]) -> String {
    let text = unhex0(t[2]);
    let r = catch(|| match t[1] {
        "c" => Counter::from(text.clone()).as_metric_str().to_string(),
        "ms" => Timer::from(text.clone()).as_metric_str().to_string(),
        "g" => Gauge::from(text.clone()).as_metric_str().to_string(),
        "m" => Meter::from(text.clone()).as_metric_str().to_string(),
        "h" => Histogram::from(text.clone()).as_metric_str().to_string(),
        "d" => Distribution::from(text.clone()).as_metric_str().to_string(),
        "s" => Set::from(text.clone()).as_metric_str().to_string(),
        _ => "notype".to_string(),
    });
    match r {
        Ok(s) if s == "notype" => s,
        Ok(s) => hex0(s.as_bytes()),
        Err(_) => "panic".to_string(),
    }
}

fn run_k(t: &[&str]) -> String {
    let prefix = unhex0(t[2]);
    let key = unhex0(t[3]);
    let r = catch(|| match (t[1], parse_arg(t[4])) {
        ("c", Arg::I64(v)) => Counter::new(&prefix, &key, v).as_metric_str().to_string(),
        ("ms", Arg::U64(v)) => Timer::new(&prefix, &key, v).as_metric_str().to_string(),
        ("g", Arg::U64(v)) => Gauge::new(&prefix, &key, v).as_metric_str().to_string(),
        ("g", Arg::F64(v)) => Gauge::new_f64(&prefix, &key, v).as_metric_str().to_string(),
        ("m", Arg::U64(v)) => Meter::new(&prefix, &key, v).as_metric_str().to_string(),
        ("h", Arg::U64(v)) => Histogram::new(&prefix, &key, v).as_metric_str().to_string(),
        ("h", Arg::F64(v)) => Histogram::new_f64(&prefix, &key, v).as_metric_str().to_string(),
        ("d", Arg::U64(v)) => Distribution::new(&prefix, &key, v).as_metric_str().to_string(),
        ("d", Arg::F64(v)) => Distribution::new_f64(&prefix, &key, v).as_metric_str().to_string(),
        ("s", Arg::I64(v)) => Set::new(&prefix, &key, v).as_metric_str().to_string(),
        _ => "notype".to_string(),
    });
    match r {
        Ok(s) if s == "notype" => s,
        Ok(s) => hex0(s.as_bytes()),
        Err(_) => "panic".to_string(),
    }
}

/// `V user:<variant>:<values>`: the Display text of a `cadence::ext::MetricValue` (a public type with a public impl):
/// the values joined by ':' - nothing for an empty packed list
fn run_v(t: &[&str]) -> String {
    let v = match parse_arg(t[1]) {
        Arg::User(UserVal(v)) => v,
        _ => panic!("V needs a user: argument"),
    };
    match catch(|| format!("{}", v)) {
        Ok(s) => format!("ok:{}", hex0(s.as_bytes())),
        Err(_) => "panic".to_string(),
    }
}

/// std's Display text of f64 bit patterns (std, not cadence), with the checks of the float
/// hypothesis of the model: non-empty, free of the six delimiters, and — for finite values —
/// parsing back to the bit-identical number.
fn run_f(t: &[&str]) -> String {
    let mut out = vec![];
    for b in t[1].split(';') {
        let v = f64_of_bits(b);
        let s = format!("{}", v);
        let clean = !s.is_empty() && !s.bytes().any(|c| b":|#,@\n".contains(&c));
        let rt = if v.is_finite() {
            s.parse::<f64>().map(|w| w.to_bits() == v.to_bits()).unwrap_or(false)
        } else {
            true
        };
        out.push(format!("{}:{}", hex0(s.as_bytes()), if clean && rt { "ok" } else { "bad" }));
    }
    out.join(";")
}

pub fn run_case(line: &str) -> String {
    let t: Vec<&str> = line.split_whitespace().collect();
    match t[0] {
        "X" | "Y" | "XN" => run_x(&t),
        "K" => run_k(&t),
        "KF" => run_kf(&t),
        "V" => run_v(&t),
        "XT" => run_xt(),
        "F" => run_f(&t),
        _ => panic!("bad wire case"),
    }
}
