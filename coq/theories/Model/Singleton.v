(* Model of cadence_macros::state::SingletonHolder<T> (cadence-macros/src/state.rs) on a
   release/acquire VIEW MACHINE: one atomic location [state] and one non-atomic [cell].

   Memory model (the RA fragment of C11/Rust without mo-insertion):
   * the atomic location is a list of messages in modification order; a message carries the
     value stored and a VIEW = the set of cell-access event ids that happen-before whoever
     acquires it;
   * a thread has [th_idx] = index of the newest message it has observed (coherence) and
     [th_known] = the set of cell-access ids that happen-before its current point;
   * a load may read ANY message with index >= th_idx (stale reads allowed); it joins the
     message's view into th_known iff its ordering acquires;
   * a store appends a message whose view is th_known iff its ordering releases (else empty);
   * a compare_exchange reads a message; it succeeds iff that message holds the expected value,
     and then the message MUST be the last one (RMW atomicity: a read choice that would make it
     succeed on a non-last message is not an execution - the step is disabled); on success it
     appends a message that continues the release sequence (its view includes the view of the
     message it read) with the success ordering; on failure it is a load with the failure ordering;
   * a cell access by thread t RACES iff some earlier conflicting access (one of the two is a
     write) is not in th_known t.

   The four [Ordering] arguments written in state.rs are the PARAMETER [ords] of the machine.
   Programs: per thread a list of API calls, compiled to the instruction sequence of state.rs:
     set v  = CAS(UNSET -> LOADING, o_cas_ok, o_cas_fail); on failure return;
              cell := Some v;  store(COMPLETE, o_store)
     is_set = load(o_load) == COMPLETE
     get    = if load(o_load) <> COMPLETE then None else read cell
   A schedule is a list of (thread id, read choice); the read choice r of a load / CAS selects
   the message with index max(th_idx, last - r) (so r = 0 reads the latest message = SC).

   Definitions only; no proofs in this file.  Every name is prefixed / chosen so as not to
   collide with other models in the single extracted OCaml module. *)
Require Import Cadence.Base.Prelude.

Inductive ordering := Relaxed | Release | Acquire | AcqRel | SeqCst.

Definition acquires (o : ordering) : bool :=
  match o with Acquire | AcqRel | SeqCst => true | _ => false end.
Definition releases (o : ordering) : bool :=
  match o with Release | AcqRel | SeqCst => true | _ => false end.

(* the four orderings written in state.rs *)
Record ords := {
  o_cas_ok : ordering;     (* compare_exchange success ordering   (source: AcqRel)  *)
  o_cas_fail : ordering;   (* compare_exchange failure ordering   (source: Relaxed) *)
  o_store : ordering;      (* store(COMPLETE, _)                  (source: Release) *)
  o_load : ordering        (* is_set: load(_)                     (source: Acquire) *)
}.

(* the side condition of the theorems: the COMPLETE store releases, is_set's load acquires;
   the two compare_exchange orderings are unconstrained *)
Definition ord_ok (os : ords) : bool := releases (o_store os) && acquires (o_load os).

Definition source_ords : ords :=
  {| o_cas_ok := AcqRel; o_cas_fail := Relaxed; o_store := Release; o_load := Acquire |}.

Definition UNSET : nat := 0.
Definition LOADING : nat := 1.
Definition COMPLETE : nat := 2.

(* API calls, their results, and the control point of a thread inside a call *)
Inductive sg_call := CSet (v : N) | CGet | CIsSet.
Inductive sg_ret := RUnit | RGet (v : option N) | RIsSet (b : bool).
Inductive sg_pc :=
  | PIdle                 (* between calls: the next step is the first instruction of the next call *)
  | PWrite (v : N)        (* in set, CAS succeeded: next is the cell write *)
  | PStore                (* in set, cell written: next is store(COMPLETE) *)
  | PRead.                (* in get, COMPLETE loaded: next is the cell read *)

Record sg_msg := { mval : nat; mview : list nat }.

(* one access to the UnsafeCell; its id is its position in [g_accs]; [acc_hb] records the ids
   known to happen-before it (the accessing thread's th_known at that moment) *)
Record sg_access := { acc_tid : nat; acc_write : bool; acc_val : option N; acc_hb : list nat }.

Record sg_thr := { th_idx : nat; th_known : list nat; th_pc : sg_pc; th_calls : list sg_call }.

(* what a step did: the traced operation (with the orderings used, the index of the message
   read / appended and the value read / written) and, when the step ends an API call, its result *)
Inductive sg_op :=
  | OpCas (so fo : ordering) (idx : nat) (rd : nat) (ok : bool)
  | OpLoad (o : ordering) (idx : nat) (rd : nat)
  | OpStore (o : ordering) (idx : nat) (v : nat)
  | OpCell (w : bool) (v : option N).
Record sg_rec := { r_tid : nat; r_op : sg_op; r_ret : option sg_ret }.

Record sg_state := {
  g_msgs : list sg_msg;       (* modification order of [state], oldest first *)
  g_thrs : list sg_thr;
  g_accs : list sg_access;    (* every cell access so far, oldest first *)
  g_cell : option N;          (* content of the cell *)
  g_raced : bool;             (* some access raced *)
  g_trace : list sg_rec       (* every executed step, oldest first *)
}.

Definition mem_nat (j : nat) (l : list nat) : bool := existsb (Nat.eqb j) l.

(* does an access (write iff [w]) by a thread knowing [known] race with an earlier access?
   [accs] are the earlier accesses, [i] the id of the first of them *)
Fixpoint races_from (i : nat) (known : list nat) (w : bool) (accs : list sg_access) : bool :=
  match accs with
  | [] => false
  | a :: rest => ((w || acc_write a) && negb (mem_nat i known)) || races_from (S i) known w rest
  end.
Definition races (known : list nat) (w : bool) (accs : list sg_access) : bool :=
  races_from 0 known w accs.

Fixpoint sg_upd {A : Type} (n : nat) (x : A) (l : list A) : list A :=
  match l, n with
  | [], _ => []
  | _ :: l', O => x :: l'
  | y :: l', S n' => y :: sg_upd n' x l'
  end.

(* index of the message selected by read choice [r] *)
Definition rd_idx (tv last r : nat) : nat := Nat.max tv (last - r).

Definition sg_init (progs : list (list sg_call)) : sg_state :=
  {| g_msgs := [{| mval := UNSET; mview := [] |}];
     g_thrs := map (fun p => {| th_idx := 0; th_known := []; th_pc := PIdle; th_calls := p |}) progs;
     g_accs := []; g_cell := None; g_raced := false; g_trace := [] |}.

Definition join_if (b : bool) (known view : list nat) : list nat :=
  if b then known ++ view else known.

(* commit a step of thread [t] that touches only the atomic location *)
Definition sg_commit (s : sg_state) (t : nat) (th' : sg_thr) (msgs' : list sg_msg)
           (op : sg_op) (ret : option sg_ret) : sg_state :=
  {| g_msgs := msgs'; g_thrs := sg_upd t th' (g_thrs s); g_accs := g_accs s; g_cell := g_cell s;
     g_raced := g_raced s; g_trace := g_trace s ++ [{| r_tid := t; r_op := op; r_ret := ret |}] |}.

(* commit a cell access of thread [t] (write iff [w], value read / written [v]) *)
Definition sg_access_cell (s : sg_state) (t : nat) (th : sg_thr) (w : bool) (v : option N)
           (pc' : sg_pc) (calls' : list sg_call) (ret : option sg_ret) : sg_state :=
  let id := length (g_accs s) in
  {| g_msgs := g_msgs s;
     g_thrs := sg_upd t {| th_idx := th_idx th; th_known := id :: th_known th; th_pc := pc';
                           th_calls := calls' |} (g_thrs s);
     g_accs := g_accs s ++ [{| acc_tid := t; acc_write := w; acc_val := v; acc_hb := th_known th |}];
     g_cell := if w then v else g_cell s;
     g_raced := g_raced s || races (th_known th) w (g_accs s);
     g_trace := g_trace s ++ [{| r_tid := t; r_op := OpCell w v; r_ret := ret |}] |}.

(* one step of thread [t] with read choice [r]; a step that is not enabled (no such thread,
   thread finished, or a CAS read choice forbidden by RMW atomicity) leaves the state unchanged *)
Definition sg_step (os : ords) (s : sg_state) (x : nat * nat) : sg_state :=
  let (t, r) := x in
  match nth_error (g_thrs s) t with
  | None => s
  | Some th =>
    let last := length (g_msgs s) - 1 in
    let i := rd_idx (th_idx th) last r in
    match th_pc th with
    | PIdle =>
      match th_calls th with
      | [] => s
      | CSet v :: rest =>
        match nth_error (g_msgs s) i with
        | None => s
        | Some m =>
          if mval m =? UNSET then
            if i =? last then
              (* success: acquire the message read, append LOADING continuing the release sequence *)
              let kn := join_if (acquires (o_cas_ok os)) (th_known th) (mview m) in
              let vw := (if releases (o_cas_ok os) then kn else []) ++ mview m in
              sg_commit s t {| th_idx := S last; th_known := kn; th_pc := PWrite v; th_calls := th_calls th |}
                        (g_msgs s ++ [{| mval := LOADING; mview := vw |}])
                        (OpCas (o_cas_ok os) (o_cas_fail os) i (mval m) true) None
            else s  (* would succeed on a non-last message: not an execution *)
          else
            (* failure: a load with the failure ordering; set returns *)
            sg_commit s t {| th_idx := i; th_known := join_if (acquires (o_cas_fail os)) (th_known th) (mview m);
                             th_pc := PIdle; th_calls := rest |}
                      (g_msgs s) (OpCas (o_cas_ok os) (o_cas_fail os) i (mval m) false) (Some RUnit)
        end
      | CGet :: rest =>
        match nth_error (g_msgs s) i with
        | None => s
        | Some m =>
          let kn := join_if (acquires (o_load os)) (th_known th) (mview m) in
          if mval m =? COMPLETE then
            sg_commit s t {| th_idx := i; th_known := kn; th_pc := PRead; th_calls := th_calls th |}
                      (g_msgs s) (OpLoad (o_load os) i (mval m)) None
          else
            sg_commit s t {| th_idx := i; th_known := kn; th_pc := PIdle; th_calls := rest |}
                      (g_msgs s) (OpLoad (o_load os) i (mval m)) (Some (RGet None))
        end
      | CIsSet :: rest =>
        match nth_error (g_msgs s) i with
        | None => s
        | Some m =>
          sg_commit s t {| th_idx := i; th_known := join_if (acquires (o_load os)) (th_known th) (mview m);
                           th_pc := PIdle; th_calls := rest |}
                    (g_msgs s) (OpLoad (o_load os) i (mval m)) (Some (RIsSet (mval m =? COMPLETE)))
        end
      end
    | PWrite v =>
      sg_access_cell s t th true (Some v) PStore (th_calls th) None
    | PStore =>
      sg_commit s t {| th_idx := S last; th_known := th_known th; th_pc := PIdle; th_calls := tl (th_calls th) |}
                (g_msgs s ++ [{| mval := COMPLETE;
                                 mview := if releases (o_store os) then th_known th else [] |}])
                (OpStore (o_store os) (S last) COMPLETE) (Some RUnit)
    | PRead =>
      sg_access_cell s t th false (g_cell s) PIdle (tl (th_calls th)) (Some (RGet (g_cell s)))
    end
  end.

(* run a schedule from the initial state *)
Definition sg_run (os : ords) (progs : list (list sg_call)) (sched : list (nat * nat)) : sg_state :=
  fold_left (sg_step os) sched (sg_init progs).

(* the SC instantiation used by the correspondence check: a schedule is a list of thread ids and
   every load / CAS reads the latest message *)
Definition sg_run_sc (os : ords) (progs : list (list sg_call)) (tids : list nat) : sg_state :=
  sg_run os progs (map (fun t => (t, 0)) tids).

(* -------------------------------------------------------------------------------------------
   observation functions used by the statements of the theorems *)

Definition is_cas_ok (r : sg_rec) : bool :=
  match r_op r with OpCas _ _ _ _ true => true | _ => false end.

(* (index of the message, value) read from [state] by the step, if it read *)
Definition read_of (r : sg_rec) : option (nat * nat) :=
  match r_op r with OpCas _ _ i v _ => Some (i, v) | OpLoad _ i v => Some (i, v) | _ => None end.
Definition read_val (r : sg_rec) : option nat := option_map snd (read_of r).

Definition sg_finished (s : sg_state) : bool :=
  forallb (fun th => match th_pc th, th_calls th with PIdle, [] => true | _, _ => false end) (g_thrs s).

(* -------------------------------------------------------------------------------------------
   explorer: depth-first search over ALL executions of the machine (every thread choice, every
   read choice including stale ones) for an execution with a racing access.  Used by the
   correspondence check's search step with the orderings observed in the source. *)

(* number of distinct read choices of thread [th]: a thread about to load / CAS may read any
   message from th_idx to the last one; other instructions have exactly one way to run *)
Definition sg_nchoices (s : sg_state) (th : sg_thr) : nat :=
  match th_pc th, th_calls th with
  | PIdle, [] => 0
  | PIdle, _ => length (g_msgs s) - th_idx th
  | _, _ => 1
  end.

Fixpoint sg_cands_thr (t : nat) (n : nat) : list (nat * nat) :=
  match n with O => [] | S k => sg_cands_thr t k ++ [(t, k)] end.

Fixpoint sg_cands_from (s : sg_state) (t : nat) (ths : list sg_thr) : list (nat * nat) :=
  match ths with
  | [] => []
  | th :: rest => sg_cands_thr t (sg_nchoices s th) ++ sg_cands_from s (S t) rest
  end.
Definition sg_cands (s : sg_state) : list (nat * nat) := sg_cands_from s 0 (g_thrs s).

(* result: (a racy schedule if one was found, number of complete executions visited) *)
Fixpoint sg_explore (os : ords) (fuel : nat) (s : sg_state) (pre : list (nat * nat))
  : option (list (nat * nat)) * N :=
  if g_raced s then (Some (rev pre), 1%N) else
  match fuel with
  | O => (None, 1%N)
  | S f =>
    let fix go (cs : list (nat * nat)) (n : N) : option (list (nat * nat)) * N :=
      match cs with
      | [] => (None, n)
      | x :: rest =>
        let s' := sg_step os s x in
        if length (g_trace s') =? length (g_trace s) then go rest n   (* disabled *)
        else match sg_explore os f s' (x :: pre) with
             | (Some w, k) => (Some w, (n + k)%N)
             | (None, k) => go rest (n + k)%N
             end
      end in
    match sg_cands s with
    | [] => (None, 1%N)
    | cs => go cs 0%N
    end
  end.

Definition sg_total_calls (progs : list (list sg_call)) : nat :=
  fold_right (fun p n => length p + n) 0 progs.

Definition sg_search (os : ords) (progs : list (list sg_call)) : option (list (nat * nat)) * N :=
  sg_explore os (3 * sg_total_calls progs) (sg_init progs) [].
