(* In-order packing of item sizes into blocks of total size <= cap: the greedy (next-fit)
   packing uses the fewest blocks.  Pure list arithmetic, used by C19. *)
Require Import Cadence.Base.Prelude.

(* [greedy_aux cap cur sizes]: number of further blocks greedy opens when the open block
   already holds [cur] *)
Fixpoint greedy_aux (cap cur : nat) (sizes : list nat) : nat :=
  match sizes with
  | [] => 0
  | x :: r => if cur + x <=? cap then greedy_aux cap (cur + x) r else S (greedy_aux cap x r)
  end.

Definition greedy_count (cap : nat) (sizes : list nat) : nat :=
  match sizes with [] => 0 | x :: r => S (greedy_aux cap x r) end.

Definition sum (l : list nat) : nat := fold_right Nat.add 0 l.

(* an in-order partition of [sizes] into non-empty blocks that each fit *)
Definition valid_partition (cap : nat) (sizes : list nat) (p : list (list nat)) : Prop :=
  concat p = sizes /\ Forall (fun b => b <> [] /\ sum b <= cap) p.

Lemma greedy_aux_mono cap r : forall a b,
  (a <= b -> greedy_aux cap a r <= greedy_aux cap b r) /\
  greedy_aux cap a r <= S (greedy_aux cap b r).
Proof.
  induction r as [|y r IH]; intros a b; cbn [greedy_aux]; [split; lia|].
  destruct (a + y <=? cap) eqn:Ea; destruct (b + y <=? cap) eqn:Eb;
    try apply Nat.leb_le in Ea; try apply Nat.leb_le in Eb;
    try apply Nat.leb_gt in Ea; try apply Nat.leb_gt in Eb; split; try intros Hab; try lia.
  - apply IH. lia.
  - apply IH.
  - pose proof (proj2 (IH (a + y) y)). lia.
  - pose proof (proj2 (IH (a + y) y)). lia.
  - pose proof (proj1 (IH y (b + y))). lia.
Qed.

(* a partition whose first block may be empty and shares room with an initial load c0 *)
Lemma greedy_aux_opt cap sizes : forall cur c0 b1 rest,
  cur <= c0 -> c0 + sum b1 <= cap ->
  concat (b1 :: rest) = sizes -> Forall (fun b => b <> [] /\ sum b <= cap) rest ->
  greedy_aux cap cur sizes <= length rest.
Proof.
  induction sizes as [|x r IH]; intros cur c0 b1 rest Hc H1 Hcat Hr; cbn [greedy_aux]; [lia|].
  destruct b1 as [|y b1'].
  - (* x opens the next block of the partition *)
    cbn in Hcat. destruct rest as [|b2 rest']; [discriminate|].
    inversion Hr as [|? ? [Hne Hs] Hr']; subst.
    destruct b2 as [|y b2']; [congruence|]. cbn in Hcat. inversion Hcat; subst y.
    assert (Hx : greedy_aux cap x r <= length rest').
    { apply (IH x x b2' rest'); auto; cbn in Hs; lia. }
    cbn [length]. subst r. destruct (cur + x <=? cap).
    + pose proof (proj2 (greedy_aux_mono cap (b2' ++ concat rest') (cur + x) x)). lia.
    + lia.
  - cbn in Hcat. inversion Hcat; subst y. cbn in H1.
    assert (E : cur + x <=? cap = true) by (apply Nat.leb_le; lia). rewrite E.
    rewrite H2. apply (IH (cur + x) (c0 + x) b1' rest); auto; unfold sum; lia.
Qed.

Theorem greedy_optimal cap sizes p :
  valid_partition cap sizes p -> greedy_count cap sizes <= length p.
Proof.
  intros [Hcat Hf]. destruct sizes as [|x r]; cbn [greedy_count]; [lia|].
  destruct p as [|b p']; [discriminate|]. inversion Hf as [|? ? [Hne Hs] Hf']; subst.
  destruct b as [|y b']; [congruence|]. cbn in Hcat. inversion Hcat; subst y.
  cbn [length]. apply le_n_S. cbn in Hs.
  rewrite H1. apply (greedy_aux_opt cap r x x b' p'); auto; unfold sum; lia.
Qed.

Example greedy_example : greedy_count 10 [4; 4; 4; 10; 1; 9; 1] = 5.
Proof. reflexivity. Qed.
