(* C10 — Queuing sink isolates callers from the wrapped sink.

   Pinned statements about Cadence.Model.Queue ([step true] = the repaired code; statements
   with [fixed] hold for both semantics).  ETrySend is the caller's whole interaction with the
   queue: one non-blocking channel operation.  The wrapped sink runs only inside the worker's
   WCounted state and completes only by EWFinish.  Vocabulary as in Props/C08.v;
   [is_recv w] = the worker waits in recv(); [is_finish ev] = ev is EWFinish _. *)
Require Import Cadence.Base.Prelude.
Require Import Cadence.Model.Queue.
Require Import Cadence.Proofs.QueueInv.
Require Import Cadence.Proofs.QueueLive.

(* the result of emit is a function of (capacity, channel length, worker waits in recv) only:
   any two states agreeing on these — whatever their delivery logs, panic counts, handler logs,
   counters, whatever the wrapped sink did or is doing — give the same result *)
Theorem c10_result : forall fixed s1 s2 s1' s2' r1 r2,
  q_cap s1 = q_cap s2 -> length (q_chan s1) = length (q_chan s2) ->
  is_recv (q_wk s1) = is_recv (q_wk s2) ->
  step fixed s1 ETrySend = Some (s1', r1) -> step fixed s2 ETrySend = Some (s2', r2) -> r1 = r2.
Proof. exact trysend_result. Qed.

(* ... namely Ok iff there is room, an error otherwise; it is never anything else, and the call
   itself does not touch the delivery log, the handler log or the panic count; a refused emit
   changes nothing at all *)
Theorem c10_result_room : forall fixed s s' r,
  step fixed s ETrySend = Some (s', r) ->
  (r = ROk <-> room s = true) /\ (r = RFull <-> room s = false) /\ r <> RNone /\
  q_delivered s' = q_delivered s /\ q_handled s' = q_handled s /\ q_panics s' = q_panics s.
Proof. exact trysend_iff_room. Qed.

Theorem c10_room : forall s,
  room s = match q_cap s with
           | None => true
           | Some 0 => is_recv (q_wk s) && (length (q_chan s) =? 0)
           | Some (S c) => length (q_chan s) <? S c
           end.
Proof. exact room_spec. Qed.

Theorem c10_refused_unchanged : forall fixed s s',
  step fixed s ETrySend = Some (s', RFull) -> s' = s.
Proof.
  intros fixed s s' H. apply step_result in H. destruct H as (_ & _ & E). exact E.
Qed.

(* a bounded queue never holds more than its capacity (capacity 0: the channel stays empty) *)
Theorem c10_bound : forall cap handler evs s rs c,
  run true (init_q cap handler) evs = Some (s, rs) -> cap = Some c ->
  q_cap s = Some c /\ length (q_chan s) <= c.
Proof. exact reach_bound. Qed.

(* ... and below capacity an emit is accepted: for capacity c >= 1 the result is Ok exactly
   while fewer than c entries are queued, whatever the worker and the wrapped sink are doing *)
Theorem c10_bounded_exact : forall fixed s s' r c,
  q_cap s = Some (S c) -> step fixed s ETrySend = Some (s', r) ->
  (r = ROk <-> length (q_chan s) < S c) /\ (r = RFull <-> S c <= length (q_chan s)).
Proof.
  intros fixed s s' r c Ec H. destruct (trysend_iff_room _ _ _ _ H) as (A & B & _).
  rewrite room_spec, Ec in A, B. rewrite Nat.ltb_lt in A. rewrite Nat.ltb_ge in B. auto.
Qed.

(* an unbounded queue accepts every metric *)
Theorem c10_unbounded : forall fixed s, q_cap s = None -> q_handles s <> 0 ->
  exists s', step fixed s ETrySend = Some (s', ROk).
Proof.
  intros fixed s Ec Hh. destruct (trysend_spec fixed s Hh) as [s' E].
  unfold room in E. rewrite Ec in E. exists s'. exact E.
Qed.

(* emit never waits: ETrySend is enabled in EVERY state with a live handle — in particular in
   every state with q_wk s = WCounted m, i.e. while the wrapped sink is processing m and may
   never return — and it is one step *)
Theorem c10_enabled : forall fixed s, q_handles s <> 0 ->
  exists s', step fixed s ETrySend = Some (s', if room s then ROk else RFull).
Proof. exact trysend_spec. Qed.

(* callers never run the wrapped sink: every event other than the worker's EWFinish leaves the
   delivery log, the handler log and the panic count unchanged.  Errors and panics of the
   wrapped sink therefore surface only in the worker's own step (c16_before_next, c11_count),
   never in an emit result (c10_result_room: results are ROk / RFull by room alone) *)
Theorem c10_actor : forall fixed s ev s' r,
  step fixed s ev = Some (s', r) -> ~ is_finish ev ->
  q_delivered s' = q_delivered s /\ q_handled s' = q_handled s /\ q_panics s' = q_panics s.
Proof. exact step_actor. Qed.

(* non-vacuity: capacities 1, 2 (the distinction the test suite cannot make), 0 and unbounded
   with the wrapped sink blocked for ever on metric 0; the results do not depend on what the
   wrapped sink answered before *)
Example c10_witness :
  let res cap evs := match run true (init_q cap false) evs with Some (_, rs) => Some rs | None => None end in
  res (Some 1) [ETrySend; EWDequeue; EWStep; ETrySend; ETrySend; ETrySend]
    = Some [ROk; RNone; RNone; ROk; RFull; RFull] /\
  res (Some 2) [ETrySend; EWDequeue; EWStep; ETrySend; ETrySend; ETrySend]
    = Some [ROk; RNone; RNone; ROk; ROk; RFull] /\
  res (Some 0) [ETrySend; EWStep; ETrySend; ETrySend]
    = Some [ROk; RNone; RFull; RFull] /\
  res None [ETrySend; EWDequeue; EWStep; ETrySend; ETrySend; ETrySend]
    = Some [ROk; RNone; RNone; ROk; ROk; ROk] /\
  res (Some 1) [ETrySend; EWDequeue; EWStep; EWFinish SPanic; ETrySend; EWDequeue; EWStep;
                EWFinish (SErr 1); ETrySend; ETrySend]
    = Some [ROk; RNone; RNone; RNone; ROk; RNone; RNone; RNone; ROk; RFull].
Proof. vm_compute. repeat split; reflexivity. Qed.

(* ==== added after the audit of 2026-10-02 (selftest/audit/REPORT-2026-10-02.md) ==== *)
Require Import Cadence.Proofs.AuditQ.

(* the harness-level emit ([act _ _ AEmit], what the correspondence harness observes) on a live
   handle answers Ok exactly when there is room and Full otherwise, never carries a sample;
   the acceptance count moves by one exactly on Ok; handles and the delivery log are untouched;
   a refused emit in a settled state changes nothing at all *)
Theorem c10_act_emit : forall fixed s, q_handles s <> 0 ->
  ob_result (snd (act fixed s AEmit)) = (if room s then ROk else RFull) /\
  ob_sample (snd (act fixed s AEmit)) = None /\
  q_accepted (fst (act fixed s AEmit)) = q_accepted s + (if room s then 1 else 0) /\
  q_handles (fst (act fixed s AEmit)) = q_handles s /\
  q_delivered (fst (act fixed s AEmit)) = q_delivered s /\
  (room s = false -> internal_step fixed s = None -> fst (act fixed s AEmit) = s).
Proof. exact act_emit. Qed.

(* a DISABLED harness action (emit / clone / drop without a live handle; release while the
   wrapped sink is not processing a metric) answers RNone, no sample, and leaves the state
   unchanged; an enabled one performs its event *)
Theorem c10_act_disabled : forall fixed s a,
  act_enabled s a = false -> act fixed s a = (s, {| ob_result := RNone; ob_sample := None |}).
Proof. exact act_disabled. Qed.

Theorem c10_act_enabled : forall fixed s a ev, event_of a = Some ev -> act_enabled s a = true ->
  exists s1 r, step fixed s ev = Some (s1, r) /\
    act fixed s a = (settle fixed (fuel_of s1) s1, {| ob_result := r; ob_sample := None |}).
Proof. exact act_enabled_spec. Qed.

(* ==== added after the audit of 2026-10-02 (selftest/audit/REPORT-2026-10-02.md) ==== *)
(* ------------------------------------------------------------------ audit A.10 additions
   "Ok with the metric's byte length" is not expressible in the Queue model (its results carry no
   length); it is a statement about the scenario model of the socket sinks, Model/Sock.v, with
   [queued = true].  Names of other modules are qualified: this file imports Queue. *)
Require Import Cadence.Model.Sock.
Require Import Cadence.Proofs.AuditS.

(* a buffered socket sink behind a queuing wrapper, any capacity, any scenario of emits, flushes
   and listener outages: EVERY emit is answered Ok(the metric's byte length) - also while the
   listener is away, also when the emit forces a flush that is refused, also for an oversized metric
   whose own send is refused; a flush is answered Ok or the socket's error (c13_flush_answer says
   which); the listener's coming and going answers nothing *)
Theorem c10_buffered_queued_answers : forall co ops rs dg st,
  sc_buffered co true ops = (rs, dg, st) ->
  Forall2 (fun o r => match o with
                      | SEmit m => r = SK (N.of_nat (length m))
                      | SFlush => r = SK 0 \/ r = SE
                      | SDown | SUp => r = SNone
                      end) ops rs.
Proof. exact sc_buffered_queued_answers. Qed.

(* positionally *)
Theorem c10_buffered_queued_emit_at : forall co pre m post,
  nth_error (fst (fst (sc_buffered co true (pre ++ SEmit m :: post)))) (length pre) =
  Some (SK (N.of_nat (length m))).
Proof. exact sc_buffered_queued_emit_at. Qed.

(* exactly: with xs the writer's own answers to the calls (SockProofs.wsteps over sc_wops), the
   answers are AuditS.queued_answers ops xs - Ok(len) for an emit without looking at xs, the
   writer's own Ok / error for a flush *)
Theorem c10_buffered_queued_exact : forall co ops,
  fst (fst (sc_buffered co true ops)) =
  queued_answers ops (fst (SockProofs.wsteps (Writer.sink_init co []) 0 (SockProofs.sc_wops true ops))).
Proof. exact sc_buffered_queued_exact. Qed.

(* non-vacuity (capacity 8): two metrics fill the buffer; while the listener is away a third emit
   forces a flush that is refused, an oversized metric is refused, an explicit flush is refused;
   behind the queue the emits are answered Ok(len), without it the socket's error *)
Example c10_buffered_queued_witness :
  sc_buffered (Some 8) true
    [SEmit [1;2;3]; SDown; SEmit [4;5;6]; SEmit [7;8;9]; SEmit [1;1;1;1;1;1;1;1;1]; SFlush; SUp; SFlush]%N =
  ([SK 3; SNone; SK 3; SK 3; SK 9; SE; SNone; SK 0],
   [[1;2;3;10;4;5;6;10]]%N,
   {| Stats.bytes_sent := 8; Stats.packets_sent := 1; Stats.bytes_dropped := 25; Stats.packets_dropped := 3 |})%N /\
  fst (fst (sc_buffered (Some 8) false
    [SEmit [1;2;3]; SDown; SEmit [4;5;6]; SEmit [7;8;9]; SEmit [1;1;1;1;1;1;1;1;1]; SFlush; SUp; SFlush]%N)) =
  [SK 3; SNone; SK 3; SE; SE; SE; SNone; SK 0]%N.
Proof. vm_compute. split; reflexivity. Qed.

(* Note after the second read-only review of these pins (selftest/audit/REVIEW-2-2026-10-02.md): in the c10_buffered_queued_* pins 'capacity' is the BUFFER's capacity; the queuing wrapper of Sock.sc_buf is modelled with room for every emit (the bounded queue is the subject of c10_result_room etc. above), which is why every emit is answered SK (length m) there by definition of sc_buf - the content is the flush / outage clauses and that the wire is unaffected. *)
